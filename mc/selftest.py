"""Conformance of the reference models against ground truth shipped in the repository (DESIGN.md section 3).
A failure here is a harness error (exit 2), never a VIOLATION."""
import importlib
import os
import pkgutil
import sys
import traceback

sys.path.insert(0, os.path.join(os.environ.get('VERIF_REPO', '/repo'), 'src'))


def main() -> int:
    import mc.ref as refpkg
    bad = 0
    for m in pkgutil.iter_modules(refpkg.__path__):
        mod = importlib.import_module('mc.ref.' + m.name)
        st = getattr(mod, 'selftest', None)
        if st is None:
            continue
        try:
            n = st()
            print(f'selftest mc.ref.{m.name}: ok ({n} vectors)')
        except Exception:
            traceback.print_exc()
            print(f'selftest mc.ref.{m.name}: FAILED')
            bad += 1
    return 2 if bad else 0


if __name__ == '__main__':
    sys.exit(main())
