"""Runner: ./check <ID> [--tier quick|thorough] [--replay file] [--jobs N]

Exit codes: 0 property held on everything explored; 1 VIOLATION; 2 harness error.
"""
from __future__ import annotations

import argparse
import importlib
import json
import multiprocessing as mp
import os
import sys
import time
import traceback


def _setup_paths() -> str:
    repo = os.environ.get('VERIF_REPO', '/repo')
    src = os.path.join(repo, 'src')
    if not os.path.isdir(os.path.join(src, 'pytezos')):
        print(f'harness error: no pytezos under {src}', file=sys.stderr)
        sys.exit(2)
    sys.path.insert(0, src)
    return src


def _guard_network() -> None:
    import socket

    def _no(*a, **k):
        raise RuntimeError('verif: real network access attempted')

    socket.socket.connect = _no  # type: ignore
    socket.socket.connect_ex = _no  # type: ignore


def _run_shard(args):
    mod, spec, tier = args
    driver = importlib.import_module(mod)
    try:
        return driver.run_shard(spec, tier)
    except BaseException:
        return ('ERR', repr(spec)[:300], traceback.format_exc())


def _run_lane(args):
    """One worker process = one LANE: a fixed list of shards run in a fixed order.  Which shards share a process (and so any
    module-level state of the code under test) is a function of the shard list and the job count only - never of timing."""
    mod, specs, tier = args
    out = []
    for spec in specs:
        r = _run_shard((mod, spec, tier))
        out.append(r)
        if isinstance(r, tuple) and r and r[0] == 'ERR':
            break
    return out


def _observe_child(args):
    mod, case = args
    from mc.engine import report
    driver = importlib.import_module(mod)
    try:
        return report.jsonable(driver.observe(report.unjson(case)))
    except BaseException as e:
        return {'observe-raised': f'{type(e).__name__}: {e}'[:300]}


def _observe_in_child(modname, case):
    ctx = mp.get_context('fork')
    with ctx.Pool(1) as pool:
        return pool.apply(_observe_child, ((modname, case),))


def main() -> int:
    import faulthandler, signal
    faulthandler.register(signal.SIGUSR1, all_threads=True)   # kill -USR1 <pid>: where is a worker right now
    ap = argparse.ArgumentParser()
    ap.add_argument('prop')
    ap.add_argument('--tier', default=os.environ.get('VERIF_TIER', 'quick'), choices=['quick', 'thorough'])
    ap.add_argument('--replay')
    ap.add_argument('--jobs', type=int, default=int(os.environ.get('VERIF_JOBS', '16')))
    a = ap.parse_args()
    try:
        seed = int(os.environ.get('VERIF_SEED', '0'))
    except ValueError:
        seed = 0

    src = _setup_paths()
    _guard_network()
    import logging
    logging.disable(logging.CRITICAL)
    import pytezos  # noqa
    if not os.path.abspath(pytezos.__file__).startswith(os.path.abspath(src)):
        print(f'harness error: pytezos imported from {pytezos.__file__}, expected {src}', file=sys.stderr)
        return 2

    from mc.engine import report
    prop = a.prop.upper()
    modname = f'mc.props.{prop.lower()}'
    driver = importlib.import_module(modname)

    if a.replay:
        with open(a.replay) as f:
            data = json.load(f)
        case = report.unjson(data['case'] if isinstance(data, dict) and 'case' in data else data)
        out = driver.replay(case)
        if out:
            known = {d: e for e in report.load_known(prop) for d in e.get('descriptors', [])}
            for d, detail in out:
                print(f'replay: {"known finding" if d in known else "violation"} [{d}] {detail}')
            if all(d in known for d, _ in out):
                for eid in sorted({known[d]['id'] for d, _ in out}):
                    print(f'KNOWN-FINDING: property={prop} {eid} (reproduced by this replay)')
                return 0
            print(f'VIOLATION property={prop} replay={os.path.abspath(a.replay)}')
            return 1
        print(f'replay: property {prop} holds on this case')
        return 0

    t0 = time.time()
    shards = list(driver.shards(a.tier, seed))
    if shards:
        k = seed % len(shards)
        shards = shards[k:] + shards[:k]  # seed only rotates the order; the set explored is identical
    res = report.Result()
    jobs = max(1, min(a.jobs, len(shards)))
    if getattr(driver, 'SERIAL', False):
        jobs = 1
    lanes = [(modname, shards[k::jobs], a.tier) for k in range(jobs)]   # static round-robin partition: deterministic process histories
    if jobs == 1:
        outs = map(_run_lane, lanes)
        pool = None
    else:
        ctx = mp.get_context('fork')
        pool = ctx.Pool(jobs)
        outs = pool.imap(_run_lane, lanes, chunksize=1)
    err = None
    for lane in outs:
        for o in lane:
            if isinstance(o, tuple) and o and o[0] == 'ERR':
                err = o
                break
            res.merge(o)
        if err:
            break
    if pool is not None:
        pool.terminate()
        pool.join()
    if err:
        print(f'harness error in shard {err[1]}:\n{err[2]}', file=sys.stderr)
        return 2
    if hasattr(driver, 'finalize'):
        driver.finalize(res, a.tier)

    # determinism: the first and the last explored case must give identical observations twice.  Each observation is taken
    # in its own forked child (same starting state, nothing carried over), so that code under test which keeps state across
    # calls shows up as a VIOLATION of its property, not as a nondeterminism error of the harness.
    if hasattr(driver, 'observe'):
        for case in (res.first_case, res.last_case):
            if case is None:
                continue
            o1 = _observe_in_child(modname, case)
            o2 = _observe_in_child(modname, case)
            if o1 != o2:
                print(f'harness error: nondeterministic observation for case {case!r}:\n {o1!r}\n {o2!r}',
                      file=sys.stderr)
                return 2
        res.extra['determinism_replays'] += 2

    return report.finish(driver, res, a.tier, seed, time.time() - t0)


if __name__ == '__main__':
    try:
        rc = main()
    except SystemExit:
        raise
    except BaseException:
        traceback.print_exc()
        rc = 2
    sys.stdout.flush()
    sys.exit(rc)
