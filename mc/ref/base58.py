"""Reference Base58Check (plain Python, no pytezos)."""
import hashlib

ALPHABET = '123456789ABCDEFGHJKLMNPQRSTUVWXYZabcdefghijkmnopqrstuvwxyz'
_IDX = {c: i for i, c in enumerate(ALPHABET)}


def b58encode(b: bytes) -> str:
    n = int.from_bytes(b, 'big')
    s = ''
    while n:
        n, r = divmod(n, 58)
        s = ALPHABET[r] + s
    z = len(b) - len(b.lstrip(b'\0'))
    return '1' * z + s


def b58decode(s: str) -> bytes:
    n = 0
    for c in s:
        if c not in _IDX:
            raise ValueError(f'bad base58 char {c!r}')
        n = n * 58 + _IDX[c]
    z = len(s) - len(s.lstrip('1'))
    body = n.to_bytes((n.bit_length() + 7) // 8, 'big') if n else b''
    return b'\0' * z + body


def checksum(b: bytes) -> bytes:
    return hashlib.sha256(hashlib.sha256(b).digest()).digest()[:4]


def b58check_encode(prefix: bytes, payload: bytes) -> str:
    raw = prefix + payload
    return b58encode(raw + checksum(raw))


def b58check_decode(s: str) -> bytes:
    """Returns prefix||payload; raises ValueError on bad characters / checksum."""
    raw = b58decode(s)
    if len(raw) < 4 or checksum(raw[:-4]) != raw[-4:]:
        raise ValueError('bad checksum')
    return raw[:-4]


# binary prefixes used by the reference models (from the Tezos base58 module)
PREFIX = {
    'tz1': bytes([6, 161, 159]), 'tz2': bytes([6, 161, 161]), 'tz3': bytes([6, 161, 164]), 'tz4': bytes([6, 161, 166]),
    'KT1': bytes([2, 90, 121]), 'sr1': bytes([6, 124, 117]), 'txr1': bytes([1, 128, 120, 31]),
    'edpk': bytes([13, 15, 37, 217]), 'sppk': bytes([3, 254, 226, 86]), 'p2pk': bytes([3, 178, 139, 127]),
    'BLpk': bytes([6, 149, 135, 204]),
    'edsig': bytes([9, 245, 205, 134, 18]), 'spsig1': bytes([13, 115, 101, 19, 63]), 'p2sig': bytes([54, 240, 44, 52]),
    'sig': bytes([4, 130, 43]), 'BLsig': bytes([40, 171, 64, 207]),
    'Net': bytes([87, 82, 0]), 'expr': bytes([13, 44, 64, 27]), 'o': bytes([5, 116]), 'B': bytes([1, 52]),
    'Lo': bytes([133, 233]), 'LLo': bytes([29, 159, 109]), 'vh': bytes([1, 106, 242]),
    'edsk32': bytes([13, 15, 58, 7]), 'edsk64': bytes([43, 246, 78, 7]), 'spsk': bytes([17, 162, 224, 201]),
    'p2sk': bytes([16, 81, 238, 189]), 'BLsk': bytes([3, 150, 192, 40]),
}


# The Base58Check kinds of the Tezos base58 module (src/lib_crypto/base58.ml `Prefix`, plus the prefixes registered by the
# protocol: contract_hash, tx_rollup / smart_rollup prefixes, script_expr, nonce_hash, blinded pkh, block_payload_hash),
# written down independently of pytezos:  (documented string prefix, documented string length, binary prefix, payload
# bytes, what).  Octez documents each as e.g. `ed25519_public_key_hash = "\006\161\159" (* tz1(36) *)`.
# selftest() proves every row self-consistent: the two numeric extremes of the row's interval both have the documented
# prefix and length, which (base58 of a fixed-width number being monotone) settles every payload and checksum.
KINDS = [
    ('B', 51, bytes([1, 52]), 32, 'block_hash'),
    ('o', 51, bytes([5, 116]), 32, 'operation_hash'),
    ('Lo', 52, bytes([133, 233]), 32, 'operation_list_hash'),
    ('LLo', 53, bytes([29, 159, 109]), 32, 'operation_list_list_hash'),
    ('P', 51, bytes([2, 170]), 32, 'protocol_hash'),
    ('Co', 52, bytes([79, 199]), 32, 'context_hash'),
    ('tz1', 36, bytes([6, 161, 159]), 20, 'ed25519_public_key_hash'),
    ('tz2', 36, bytes([6, 161, 161]), 20, 'secp256k1_public_key_hash'),
    ('tz3', 36, bytes([6, 161, 164]), 20, 'p256_public_key_hash'),
    ('tz4', 36, bytes([6, 161, 166]), 20, 'bls12_381_public_key_hash'),
    ('KT1', 36, bytes([2, 90, 121]), 20, 'contract_hash'),
    ('txr1', 37, bytes([1, 128, 120, 31]), 20, 'tx_rollup address'),
    ('sr1', 36, bytes([6, 124, 117]), 20, 'smart_rollup_address'),
    ('src1', 54, bytes([17, 165, 134, 138]), 32, 'smart_rollup_commitment_hash'),
    ('srs1', 54, bytes([17, 165, 235, 240]), 32, 'smart_rollup_state_hash'),
    ('srib1', 55, bytes([3, 255, 138, 145, 110]), 32, 'smart_rollup_inbox_hash'),
    ('srib2', 55, bytes([3, 255, 138, 145, 140]), 32, 'smart_rollup_merkelized_payload_hashes_hash'),
    ('id', 30, bytes([153, 103]), 16, 'cryptobox_public_key_hash'),
    ('expr', 54, bytes([13, 44, 64, 27]), 32, 'script_expr_hash'),
    ('edsk', 54, bytes([13, 15, 58, 7]), 32, 'ed25519_seed'),
    ('edpk', 54, bytes([13, 15, 37, 217]), 32, 'ed25519_public_key'),
    ('spsk', 54, bytes([17, 162, 224, 201]), 32, 'secp256k1_secret_key'),
    ('p2sk', 54, bytes([16, 81, 238, 189]), 32, 'p256_secret_key'),
    ('edesk', 88, bytes([7, 90, 60, 179, 41]), 56, 'ed25519_encrypted_seed'),
    ('spesk', 88, bytes([9, 237, 241, 174, 150]), 56, 'secp256k1_encrypted_secret_key'),
    ('p2esk', 88, bytes([9, 48, 57, 115, 171]), 56, 'p256_encrypted_secret_key'),
    ('sppk', 55, bytes([3, 254, 226, 86]), 33, 'secp256k1_public_key'),
    ('p2pk', 55, bytes([3, 178, 139, 127]), 33, 'p256_public_key'),
    ('SSp', 53, bytes([38, 248, 136]), 32, 'secp256k1_scalar'),      # a scalar is 32 bytes: SSp(53)
    ('GSp', 54, bytes([5, 92, 0]), 33, 'secp256k1_element'),         # a compressed point is 33 bytes: GSp(54)
    ('edsk', 98, bytes([43, 246, 78, 7]), 64, 'ed25519_secret_key'),
    ('edsig', 99, bytes([9, 245, 205, 134, 18]), 64, 'ed25519_signature'),
    ('spsig1', 99, bytes([13, 115, 101, 19, 63]), 64, 'secp256k1_signature'),
    ('p2sig', 98, bytes([54, 240, 44, 52]), 64, 'p256_signature'),
    ('sig', 96, bytes([4, 130, 43]), 64, 'generic_signature'),
    ('Net', 15, bytes([87, 82, 0]), 4, 'chain_id'),
    ('nce', 53, bytes([69, 220, 169]), 32, 'nonce_hash'),
    ('btz1', 37, bytes([1, 2, 49, 223]), 20, 'blinded_public_key_hash'),
    ('vh', 52, bytes([1, 106, 242]), 32, 'block_payload_hash'),
    ('BLsig', 142, bytes([40, 171, 64, 207]), 96, 'bls12_381_signature'),
    ('BLpk', 76, bytes([6, 149, 135, 204]), 48, 'bls12_381_public_key'),
    ('BLsk', 54, bytes([3, 150, 192, 40]), 32, 'bls12_381_secret_key'),
    ('BLesk', 88, bytes([2, 5, 30, 53, 25]), 56, 'bls12_381_encrypted_secret_key'),
]


def extremes(bin_prefix: bytes, n: int):
    """base58 strings of the smallest and the largest number of the interval bin_prefix || payload(n) || checksum(4)."""
    return b58encode(bin_prefix + b'\0' * (n + 4)), b58encode(bin_prefix + b'\xff' * (n + 4))


def common_prefix(a: str, b: str) -> str:
    i = 0
    while i < min(len(a), len(b)) and a[i] == b[i]:
        i += 1
    return a[:i]


def decode_any(s: str):
    """Independent typed decoder: base58 + double SHA-256 + lookup by BINARY prefix and payload length.
    Returns (row of KINDS, payload); raises ValueError with a reason otherwise."""
    raw = b58check_decode(s)
    hits = [k for k in KINDS if raw[:len(k[2])] == k[2] and len(raw) == len(k[2]) + k[3]]
    if not hits:
        raise ValueError('no kind with this binary prefix and payload length')
    assert len(hits) == 1, hits
    return hits[0], raw[len(hits[0][2]):]


def enc(kind: str, payload: bytes) -> str:
    return b58check_encode(PREFIX[kind], payload)


def dec(kind: str, s: str) -> bytes:
    raw = b58check_decode(s)
    p = PREFIX[kind]
    if raw[:len(p)] != p:
        raise ValueError('wrong prefix')
    return raw[len(p):]


def selftest() -> int:
    # well-known literals (also in /repo/tests/unit_tests/test_crypto/test_encoding.py)
    # literals from /repo/tests/unit_tests/test_crypto/test_encoding.py: valid checksums under the documented prefix
    assert len(dec('tz1', 'tz1eKkWU5hGtfLUiqNpucHrXymm83z3DG9Sq')) == 20
    assert enc('tz1', dec('tz1', 'tz1eKkWU5hGtfLUiqNpucHrXymm83z3DG9Sq')) == 'tz1eKkWU5hGtfLUiqNpucHrXymm83z3DG9Sq'
    assert enc('Net', dec('Net', 'NetXdQprcVkpaWU')) == 'NetXdQprcVkpaWU'
    assert len(dec('KT1', 'KT1ExvG3EjTrvDcAU7EqLNb77agPa5u6KvnY')) == 20
    n = 4
    for k, p in PREFIX.items():
        ln = {'tz1': 20, 'tz2': 20, 'tz3': 20, 'tz4': 20, 'KT1': 20, 'sr1': 20, 'txr1': 20, 'edpk': 32, 'sppk': 33, 'p2pk': 33,
              'BLpk': 48, 'edsig': 64, 'spsig1': 64, 'p2sig': 64, 'sig': 64, 'BLsig': 96, 'Net': 4, 'expr': 32, 'o': 32,
              'B': 32, 'Lo': 32, 'LLo': 32, 'vh': 32, 'edsk32': 32, 'edsk64': 64, 'spsk': 32, 'p2sk': 32, 'BLsk': 32}[k]
        want = {'edsk32': 'edsk', 'edsk64': 'edsk'}.get(k, k)
        for fill in (b'\0', b'\xff'):
            s = enc(k, fill * ln)
            assert s.startswith(want), (k, s)
            n += 1
    # KINDS: 43 rows, self-consistent (boundary argument), unambiguous, and containing PREFIX
    assert len(KINDS) == 43
    for sp, sl, bp, pl, what in KINDS:
        assert bp[0] != 0
        lo, hi = extremes(bp, pl)
        assert len(lo) == sl and len(hi) == sl and lo.startswith(sp) and hi.startswith(sp), (sp, lo, hi)
        n += 2
    for a in KINDS:
        for b in KINDS:
            if a is not b and len(a[2]) + a[3] == len(b[2]) + b[3]:
                assert not a[2].startswith(b[2]), (a, b)
    for k, p in PREFIX.items():
        assert any(p == row[2] for row in KINDS), k
    # every literal of tests/unit_tests/test_crypto/test_encoding.py::test_b58_decode_encode decodes to the kind it names
    import ast
    import os
    path = os.path.join(os.environ.get('VERIF_REPO', '/repo'), 'tests/unit_tests/test_crypto/test_encoding.py')
    tree = ast.parse(open(path).read())
    lits = []
    for fn in ast.walk(tree):
        if isinstance(fn, ast.FunctionDef) and fn.name == 'test_b58_decode_encode':
            for t in ast.walk(fn.decorator_list[0]):
                if isinstance(t, ast.Tuple) and len(t.elts) == 2 and all(isinstance(e, ast.Constant) and isinstance(e.value, str) for e in t.elts):
                    lits.append((t.elts[0].value, t.elts[1].value))
    assert len(lits) >= 25, len(lits)
    for s, want in lits:
        if s in ('base58', 'prefix'):
            continue
        row, payload = decode_any(s)
        assert row[0].startswith(want) and len(s) == row[1] and len(payload) == row[3], (s, row)
        assert b58check_encode(row[2], payload) == s
        n += 1
    return n
