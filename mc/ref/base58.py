"""Reference Base58Check (plain Python, no pytezos)."""
import hashlib

ALPHABET = '123456789ABCDEFGHJKLMNPQRSTUVWXYZabcdefghijkmnopqrstuvwxyz'
_IDX = {c: i for i, c in enumerate(ALPHABET)}


def b58encode(b: bytes) -> str:
    n = int.from_bytes(b, 'big')
    s = ''
    while n:
        n, r = divmod(n, 58)
        s = ALPHABET[r] + s
    z = len(b) - len(b.lstrip(b'\0'))
    return '1' * z + s


def b58decode(s: str) -> bytes:
    n = 0
    for c in s:
        if c not in _IDX:
            raise ValueError(f'bad base58 char {c!r}')
        n = n * 58 + _IDX[c]
    z = len(s) - len(s.lstrip('1'))
    body = n.to_bytes((n.bit_length() + 7) // 8, 'big') if n else b''
    return b'\0' * z + body


def checksum(b: bytes) -> bytes:
    return hashlib.sha256(hashlib.sha256(b).digest()).digest()[:4]


def b58check_encode(prefix: bytes, payload: bytes) -> str:
    raw = prefix + payload
    return b58encode(raw + checksum(raw))


def b58check_decode(s: str) -> bytes:
    """Returns prefix||payload; raises ValueError on bad characters / checksum."""
    raw = b58decode(s)
    if len(raw) < 4 or checksum(raw[:-4]) != raw[-4:]:
        raise ValueError('bad checksum')
    return raw[:-4]


# binary prefixes used by the reference models (from the Tezos base58 module)
PREFIX = {
    'tz1': bytes([6, 161, 159]), 'tz2': bytes([6, 161, 161]), 'tz3': bytes([6, 161, 164]), 'tz4': bytes([6, 161, 166]),
    'KT1': bytes([2, 90, 121]), 'sr1': bytes([6, 124, 117]), 'txr1': bytes([1, 128, 120, 31]),
    'edpk': bytes([13, 15, 37, 217]), 'sppk': bytes([3, 254, 226, 86]), 'p2pk': bytes([3, 178, 139, 127]),
    'BLpk': bytes([6, 149, 135, 204]),
    'edsig': bytes([9, 245, 205, 134, 18]), 'spsig1': bytes([13, 115, 101, 19, 63]), 'p2sig': bytes([54, 240, 44, 52]),
    'sig': bytes([4, 130, 43]), 'BLsig': bytes([40, 171, 64, 207]),
    'Net': bytes([87, 82, 0]), 'expr': bytes([13, 44, 64, 27]), 'o': bytes([5, 116]), 'B': bytes([1, 52]),
    'Lo': bytes([133, 233]), 'LLo': bytes([29, 159, 109]), 'vh': bytes([1, 106, 242]),
    'edsk32': bytes([13, 15, 58, 7]), 'edsk64': bytes([43, 246, 78, 7]), 'spsk': bytes([17, 162, 224, 201]),
    'p2sk': bytes([16, 81, 238, 189]), 'BLsk': bytes([3, 150, 192, 40]),
}


def enc(kind: str, payload: bytes) -> str:
    return b58check_encode(PREFIX[kind], payload)


def dec(kind: str, s: str) -> bytes:
    raw = b58check_decode(s)
    p = PREFIX[kind]
    if raw[:len(p)] != p:
        raise ValueError('wrong prefix')
    return raw[len(p):]


def selftest() -> int:
    # well-known literals (also in /repo/tests/unit_tests/test_crypto/test_encoding.py)
    # literals from /repo/tests/unit_tests/test_crypto/test_encoding.py: valid checksums under the documented prefix
    assert len(dec('tz1', 'tz1eKkWU5hGtfLUiqNpucHrXymm83z3DG9Sq')) == 20
    assert enc('tz1', dec('tz1', 'tz1eKkWU5hGtfLUiqNpucHrXymm83z3DG9Sq')) == 'tz1eKkWU5hGtfLUiqNpucHrXymm83z3DG9Sq'
    assert enc('Net', dec('Net', 'NetXdQprcVkpaWU')) == 'NetXdQprcVkpaWU'
    assert len(dec('KT1', 'KT1ExvG3EjTrvDcAU7EqLNb77agPa5u6KvnY')) == 20
    n = 4
    for k, p in PREFIX.items():
        ln = {'tz1': 20, 'tz2': 20, 'tz3': 20, 'tz4': 20, 'KT1': 20, 'sr1': 20, 'txr1': 20, 'edpk': 32, 'sppk': 33, 'p2pk': 33,
              'BLpk': 48, 'edsig': 64, 'spsig1': 64, 'p2sig': 64, 'sig': 64, 'BLsig': 96, 'Net': 4, 'expr': 32, 'o': 32,
              'B': 32, 'Lo': 32, 'LLo': 32, 'vh': 32, 'edsk32': 32, 'edsk64': 64, 'spsk': 32, 'p2sk': 32, 'BLsk': 32}[k]
        want = {'edsk32': 'edsk', 'edsk64': 'edsk'}.get(k, k)
        for fill in (b'\0', b'\xff'):
            s = enc(k, fill * ln)
            assert s.startswith(want), (k, s)
            n += 1
    return n
