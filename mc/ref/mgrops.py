"""Minimal independent DECODER of signed manager-operation groups (plain Python, no pytezos).

Layout (Tezos `operation.alpha.contents`, manager kinds):
    branch(32) { tag(1) source(21: curve tag + 20-byte hash) fee counter gas_limit storage_limit (zarith nats) <rest> }* signature
The signature is the tail: 64 bytes (ed25519/secp256k1/p256) or 96 bytes (BLS); the caller says which.
Used by the simulated node (mc/simnode.py) to read counters/fees/limits out of what the client injects,
the way a node would, instead of trusting the client's JSON.
"""
from __future__ import annotations

TAGS = {107: 'reveal', 108: 'transaction', 109: 'origination', 110: 'delegation', 111: 'register_global_constant',
        158: 'transfer_ticket', 201: 'smart_rollup_add_messages', 206: 'smart_rollup_execute_outbox_message'}
PK_LEN = {0: 32, 1: 33, 2: 33, 3: 48}
CURVE_PREFIX = {0: 'tz1', 1: 'tz2', 2: 'tz3', 3: 'tz4'}


class DecodeError(ValueError):
    pass


class _R:
    def __init__(self, b: bytes):
        self.b, self.i = b, 0

    def take(self, n: int) -> bytes:
        if n < 0 or self.i + n > len(self.b):
            raise DecodeError(f'truncated: need {n} bytes at {self.i}, have {len(self.b) - self.i}')
        out = self.b[self.i:self.i + n]
        self.i += n
        return out

    def u8(self) -> int:
        return self.take(1)[0]

    def nat(self) -> int:
        v, shift = 0, 0
        while True:
            x = self.u8()
            v |= (x & 0x7F) << shift
            shift += 7
            if not x & 0x80:
                if x == 0 and shift > 7:
                    raise DecodeError('non-minimal zarith nat')
                return v

    def boolean(self) -> bool:
        x = self.u8()
        if x not in (0, 255):
            raise DecodeError(f'bad bool {x}')
        return x == 255

    def arr(self) -> bytes:
        return self.take(int.from_bytes(self.take(4), 'big'))


def decode(data: bytes, sig_len: int = 64) -> dict:
    """-> {'branch': bytes, 'contents': [{kind, source_tag, source_hash, fee, counter, gas_limit, storage_limit, size}],
    'signature': bytes}.  Raises DecodeError on anything that is not a well-formed group of manager operations."""
    if len(data) < 32 + sig_len:
        raise DecodeError('too short')
    body, sig = data[:len(data) - sig_len], data[len(data) - sig_len:]
    r = _R(body)
    branch = r.take(32)
    contents = []
    while r.i < len(body):
        start = r.i
        tag = r.u8()
        if tag not in TAGS:
            raise DecodeError(f'unknown operation tag {tag} at {start}')
        kind = TAGS[tag]
        st = r.u8()
        if st not in CURVE_PREFIX:
            raise DecodeError(f'bad source curve tag {st}')
        c = {'kind': kind, 'source_tag': st, 'source_hash': r.take(20),
             'fee': r.nat(), 'counter': r.nat(), 'gas_limit': r.nat(), 'storage_limit': r.nat()}
        if kind == 'reveal':
            t = r.u8()
            if t not in PK_LEN:
                raise DecodeError(f'bad public key tag {t}')
            r.take(PK_LEN[t])
            if r.boolean():
                r.arr()
        elif kind == 'transaction':
            c['amount'] = r.nat()
            c['destination'] = r.take(22)
            if r.boolean():
                ep = r.u8()
                if ep == 255:
                    r.take(r.u8())
                r.arr()
        elif kind == 'origination':
            c['balance'] = r.nat()
            if r.boolean():
                r.take(21)
            r.arr()
            r.arr()
        elif kind == 'delegation':
            if r.boolean():
                r.take(21)
        elif kind == 'register_global_constant':
            r.arr()
        elif kind == 'transfer_ticket':
            r.arr()
            r.arr()
            r.take(22)
            r.nat()
            r.take(22)
            r.arr()
        elif kind == 'smart_rollup_add_messages':
            r.arr()
        elif kind == 'smart_rollup_execute_outbox_message':
            r.take(20)
            r.take(32)
            r.arr()
        c['size'] = r.i - start
        contents.append(c)
    if not contents:
        raise DecodeError('no contents')
    return {'branch': branch, 'contents': contents, 'signature': sig}


def selftest() -> int:
    """Hand-assembled vectors (bytes written out from the layout above, independent of any encoder)."""
    br = bytes(range(32))
    src = b'\x00' + b'\x11' * 20
    # transaction: fee 574 (=0xbe 0x04), counter 128 (0x80 0x01), gas 3040 (0xe0 0x17), storage 257 (0x81 0x02), amount 1
    tx = b'\x6c' + src + b'\xbe\x04' + b'\x80\x01' + b'\xe0\x17' + b'\x81\x02' + b'\x01' + b'\x00\x00' + b'\x22' * 20 + b'\x00'
    # delegation without delegate, counter 129
    dl = b'\x6e' + src + b'\x00' + b'\x81\x01' + b'\xe8\x07' + b'\x00' + b'\x00'
    # reveal of an ed25519 key, counter 0x7f
    rv = b'\x6b' + src + b'\x00' + b'\x7f' + b'\xb0\x01' + b'\x00' + b'\x00' + b'\x33' * 32 + b'\x00'
    # transaction with a named entrypoint and 2 bytes of parameters
    tp = b'\x6c' + src + b'\x00\x01\x02\x03\x04' + b'\x01' + b'\x44' * 20 + b'\x00' + b'\xff' + b'\xff\x03abc' + b'\x00\x00\x00\x02\x03\x0b'
    n = 0
    d = decode(br + tx + b'\xaa' * 64)
    assert d['branch'] == br and len(d['contents']) == 1 and d['signature'] == b'\xaa' * 64
    c = d['contents'][0]
    assert (c['kind'], c['fee'], c['counter'], c['gas_limit'], c['storage_limit'], c['amount'], c['size']) == \
        ('transaction', 574, 128, 3040, 257, 1, len(tx)), c
    n += 1
    d = decode(br + rv + tx + dl + tp + b'\xbb' * 96, sig_len=96)
    assert [x['kind'] for x in d['contents']] == ['reveal', 'transaction', 'delegation', 'transaction']
    assert [x['counter'] for x in d['contents']] == [127, 128, 129, 1]
    assert [x['gas_limit'] for x in d['contents']] == [176, 3040, 1000, 2]
    assert [x['size'] for x in d['contents']] == [len(rv), len(tx), len(dl), len(tp)]
    n += 1
    for bad in (br + tx[:-1] + b'\xaa' * 64, br + b'\x05' + tx[1:] + b'\xaa' * 64, br + b'\xaa' * 64,
                br + tx.replace(b'\x80\x01', b'\x80\x00') + b'\xaa' * 64):
        try:
            decode(bad)
        except DecodeError:
            n += 1
        else:
            raise AssertionError('accepted malformed group')
    return n
