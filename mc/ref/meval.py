"""Reference Michelson typing rules and small-step evaluator (plain Python, no pytezos).

Instructions are Micheline JSON expressions ({'prim': 'ADD'}, {'prim': 'DIP', 'args': [{'int': '2'}, [...]]}).
A typing stack is a list of reference types, top first.  An evaluation stack is a list of (type, value), top first.

  typecheck(code, stack_types) -> result stack types | FAILS (code always fails)      raises IllTyped
  run(code, stack, env)        -> new stack                                            raises Failwith | RuntimeFail
"""
from __future__ import annotations

import hashlib
import json

from mc.ref import mtypes as T

INT, NAT, STRING, BYTES, BOOL, UNIT, MUTEZ, TS, ADDRESS, KEY_HASH, KEY, SIG, CHAIN_ID, NEVER, OPERATION = [
    (x,) for x in ('int', 'nat', 'string', 'bytes', 'bool', 'unit', 'mutez', 'timestamp', 'address', 'key_hash', 'key',
                   'signature', 'chain_id', 'never', 'operation')]


class IllTyped(Exception):
    pass


class Failwith(Exception):
    def __init__(self, t, v):
        super().__init__(t, v)
        self.t, self.v = t, v


class RuntimeFail(Exception):
    """mutez overflow / shift overflow: the script fails at run time without a FAILWITH value."""


class Fuel(Exception):
    pass


class _Fails:
    def __repr__(self):
        return 'FAILS'


FAILS = _Fails()

DEFAULT_ENV = {
    'amount': 0, 'balance': 0, 'sender': ('tz1', T.HM, ''), 'source': ('tz1', T.HM, ''), 'now': 0, 'level': 1,
    'chain_id': b'\x7a\x06\xa7\x70', 'self_address': ('KT1', T.H1, ''), 'min_block_time': 1, 'total_voting_power': 0,
}


def _ill(cond, msg):
    if cond:
        raise IllTyped(msg)


def _n(instr, i=0) -> int:
    a = instr['args'][i]
    _ill(not isinstance(a, dict) or 'int' not in a, 'int argument expected')
    return int(a['int'])


def _ty(instr, i=0):
    return T.t_from_micheline(instr['args'][i])


# ---------------------------------------------------------------- arithmetic typing table
ARITH = {
    'ADD': {(INT, INT): INT, (INT, NAT): INT, (NAT, INT): INT, (NAT, NAT): NAT, (TS, INT): TS, (INT, TS): TS, (MUTEZ, MUTEZ): MUTEZ},
    'SUB': {(INT, INT): INT, (INT, NAT): INT, (NAT, INT): INT, (NAT, NAT): INT, (TS, INT): TS, (TS, TS): INT},
    'SUB_MUTEZ': {(MUTEZ, MUTEZ): ('option', MUTEZ)},
    'MUL': {(INT, INT): INT, (INT, NAT): INT, (NAT, INT): INT, (NAT, NAT): NAT, (MUTEZ, NAT): MUTEZ, (NAT, MUTEZ): MUTEZ},
    'EDIV': {(INT, INT): ('option', ('pair', INT, NAT)), (INT, NAT): ('option', ('pair', INT, NAT)),
             (NAT, INT): ('option', ('pair', INT, NAT)), (NAT, NAT): ('option', ('pair', NAT, NAT)),
             (MUTEZ, NAT): ('option', ('pair', MUTEZ, MUTEZ)), (MUTEZ, MUTEZ): ('option', ('pair', NAT, MUTEZ))},
    'LSL': {(NAT, NAT): NAT, (BYTES, NAT): BYTES},
    'LSR': {(NAT, NAT): NAT, (BYTES, NAT): BYTES},
    'AND': {(BOOL, BOOL): BOOL, (NAT, NAT): NAT, (INT, NAT): NAT, (BYTES, BYTES): BYTES},
    'OR': {(BOOL, BOOL): BOOL, (NAT, NAT): NAT, (BYTES, BYTES): BYTES},
    'XOR': {(BOOL, BOOL): BOOL, (NAT, NAT): NAT, (BYTES, BYTES): BYTES},
}
UNARY = {
    'ABS': {INT: NAT}, 'NEG': {INT: INT, NAT: INT}, 'ISNAT': {INT: ('option', NAT)}, 'INT': {NAT: INT, BYTES: INT},
    'NAT': {BYTES: NAT}, 'BYTES': {INT: BYTES, NAT: BYTES}, 'NOT': {BOOL: BOOL, NAT: INT, INT: INT, BYTES: BYTES},
    'EQ': {INT: BOOL}, 'NEQ': {INT: BOOL}, 'LT': {INT: BOOL}, 'GT': {INT: BOOL}, 'LE': {INT: BOOL}, 'GE': {INT: BOOL},
    'BLAKE2B': {BYTES: BYTES}, 'SHA256': {BYTES: BYTES}, 'SHA512': {BYTES: BYTES}, 'SHA3': {BYTES: BYTES}, 'KECCAK': {BYTES: BYTES},
}
ENV = {'AMOUNT': MUTEZ, 'BALANCE': MUTEZ, 'SENDER': ADDRESS, 'SOURCE': ADDRESS, 'NOW': TS, 'LEVEL': NAT, 'CHAIN_ID': CHAIN_ID,
       'SELF_ADDRESS': ADDRESS, 'MIN_BLOCK_TIME': NAT, 'TOTAL_VOTING_POWER': NAT}


def comb_get_type(t, n):
    while n >= 2:
        _ill(t[0] != 'pair', 'GET n: not a pair')
        t = t[2]
        n -= 2
    if n == 1:
        _ill(t[0] != 'pair', 'GET n: not a pair')
        return t[1]
    return t


def comb_update_type(t, n, new):
    if n == 0:
        return new
    _ill(t[0] != 'pair', 'UPDATE n: not a pair')
    if n == 1:
        return ('pair', new, t[2])
    return ('pair', t[1], comb_update_type(t[2], n - 2, new))


# ---------------------------------------------------------------- type checker
def typecheck(code, st):
    """st: list of types, top first.  Returns the resulting list or FAILS."""
    if isinstance(code, list):
        for ins in code:
            if st is FAILS:
                raise IllTyped('code after an instruction that always fails')
            st = typecheck(ins, st)
        return st
    return _tc(code, list(st))


def _branches(a, b, what):
    if a is FAILS:
        return b
    if b is FAILS:
        return a
    _ill(a != b, f'{what}: branches leave different stacks {a} vs {b}')
    return a


def _tc(ins, st):
    p = ins['prim']
    args = ins.get('args', [])
    na = len(args)

    def need(k):
        _ill(len(st) < k, f'{p}: stack too short')

    if p == 'DROP':
        k = _n(ins) if na else 1
        need(k)
        return st[k:]
    if p == 'DUP':
        k = _n(ins) if na else 1
        _ill(k < 1, 'DUP 0')
        need(k)
        _ill(not T.duplicable(st[k - 1]), 'DUP of a non-duplicable value')
        return [st[k - 1]] + st
    if p == 'SWAP':
        need(2)
        return [st[1], st[0]] + st[2:]
    if p == 'DIG':
        k = _n(ins)
        need(k + 1)
        return [st[k]] + st[:k] + st[k + 1:]
    if p == 'DUG':
        k = _n(ins)
        need(k + 1)
        return st[1:k + 1] + [st[0]] + st[k + 1:]
    if p == 'PUSH':
        t = _ty(ins)
        _ill(not T.pushable(t), 'PUSH of non-pushable type')
        try:
            T.v_from_micheline(t, args[1])
        except T.BadValue as e:
            raise IllTyped(f'PUSH: bad literal: {e}')
        return [t] + st
    if p == 'UNIT':
        return [UNIT] + st
    if p == 'NEVER':
        need(1)
        _ill(st[0] != NEVER, 'NEVER')
        return FAILS
    if p in ('CAST', 'RENAME'):
        need(1)
        if p == 'CAST':
            _ill(_ty(ins) != st[0], 'CAST to a different type')
        return st
    if p == 'SOME':
        need(1)
        return [('option', st[0])] + st[1:]
    if p == 'NONE':
        return [('option', _ty(ins))] + st
    if p == 'IF_NONE':
        need(1)
        _ill(st[0][0] != 'option', 'IF_NONE')
        return _branches(typecheck(args[0], st[1:]), typecheck(args[1], [st[0][1]] + st[1:]), p)
    if p == 'PAIR':
        k = _n(ins) if na else 2
        _ill(k < 2, 'PAIR n<2')
        need(k)
        t = st[k - 1]
        for x in reversed(st[:k - 1]):
            t = ('pair', x, t)
        return [t] + st[k:]
    if p == 'UNPAIR':
        k = _n(ins) if na else 2
        _ill(k < 2, 'UNPAIR n<2')
        need(1)
        out, t = [], st[0]
        for _ in range(k - 1):
            _ill(t[0] != 'pair', 'UNPAIR: not a pair')
            out.append(t[1])
            t = t[2]
        return out + [t] + st[1:]
    if p in ('CAR', 'CDR'):
        need(1)
        _ill(st[0][0] != 'pair', p)
        return [st[0][1 if p == 'CAR' else 2]] + st[1:]
    if p == 'GET' and na == 1:
        need(1)
        return [comb_get_type(st[0], _n(ins))] + st[1:]
    if p == 'UPDATE' and na == 1:
        need(2)
        return [comb_update_type(st[1], _n(ins), st[0])] + st[2:]
    if p in ('LEFT', 'RIGHT'):
        need(1)
        o = _ty(ins)
        return [('or', st[0], o) if p == 'LEFT' else ('or', o, st[0])] + st[1:]
    if p == 'IF_LEFT':
        need(1)
        _ill(st[0][0] != 'or', p)
        return _branches(typecheck(args[0], [st[0][1]] + st[1:]), typecheck(args[1], [st[0][2]] + st[1:]), p)
    if p == 'NIL':
        return [('list', _ty(ins))] + st
    if p == 'CONS':
        need(2)
        _ill(st[1] != ('list', st[0]), 'CONS')
        return st[1:]
    if p == 'IF_CONS':
        need(1)
        _ill(st[0][0] != 'list', p)
        return _branches(typecheck(args[0], [st[0][1], st[0]] + st[1:]), typecheck(args[1], st[1:]), p)
    if p == 'SIZE':
        need(1)
        _ill(st[0][0] not in ('list', 'set', 'map', 'string', 'bytes'), p)
        return [NAT] + st[1:]
    if p == 'EMPTY_SET':
        t = _ty(ins)
        _ill(not T.comparable(t), 'EMPTY_SET')
        return [('set', t)] + st
    if p == 'EMPTY_MAP':
        k, v = _ty(ins, 0), _ty(ins, 1)
        _ill(not T.comparable(k), 'EMPTY_MAP')
        return [('map', k, v)] + st
    if p == 'MEM':
        need(2)
        _ill(st[1][0] not in ('set', 'map', 'big_map') or st[1][1] != st[0], p)
        return [BOOL] + st[2:]
    if p == 'GET' and na == 0:
        need(2)
        _ill(st[1][0] not in ('map', 'big_map') or st[1][1] != st[0], p)
        return [('option', st[1][2])] + st[2:]
    if p == 'UPDATE' and na == 0:
        need(3)
        c = st[2]
        if c[0] == 'set':
            _ill(st[0] != c[1] or st[1] != BOOL, p)
        else:
            _ill(c[0] not in ('map', 'big_map') or st[0] != c[1] or st[1] != ('option', c[2]), p)
        return st[2:]
    if p == 'GET_AND_UPDATE':
        need(3)
        c = st[2]
        _ill(c[0] not in ('map', 'big_map') or st[0] != c[1] or st[1] != ('option', c[2]), p)
        return [st[1], c] + st[3:]
    if p == 'MAP':
        need(1)
        c = st[0]
        if c[0] == 'list':
            r = typecheck(args[0], [c[1]] + st[1:])
            _ill(r is FAILS, 'MAP body always fails')
            _ill(len(r) != len(st) or r[1:] != st[1:], 'MAP body changes the rest of the stack')
            return [('list', r[0])] + st[1:]
        if c[0] == 'map':
            r = typecheck(args[0], [('pair', c[1], c[2])] + st[1:])
            _ill(r is FAILS, 'MAP body always fails')
            _ill(len(r) != len(st) or r[1:] != st[1:], 'MAP body changes the rest of the stack')
            return [('map', c[1], r[0])] + st[1:]
        raise IllTyped('MAP')
    if p == 'ITER':
        need(1)
        c = st[0]
        _ill(c[0] not in ('list', 'set', 'map'), p)
        elt = ('pair', c[1], c[2]) if c[0] == 'map' else c[1]
        r = typecheck(args[0], [elt] + st[1:])
        _ill(r is not FAILS and r != st[1:], 'ITER body changes the stack')
        return st[1:]
    if p == 'IF':
        need(1)
        _ill(st[0] != BOOL, p)
        return _branches(typecheck(args[0], st[1:]), typecheck(args[1], st[1:]), p)
    if p == 'LOOP':
        need(1)
        _ill(st[0] != BOOL, p)
        r = typecheck(args[0], st[1:])
        _ill(r is not FAILS and r != st, 'LOOP body')
        return st[1:]
    if p == 'LOOP_LEFT':
        need(1)
        _ill(st[0][0] != 'or', p)
        r = typecheck(args[0], [st[0][1]] + st[1:])
        _ill(r is not FAILS and r != st, 'LOOP_LEFT body')
        return [st[0][2]] + st[1:]
    if p == 'DIP':
        k = _n(ins) if na == 2 else 1
        need(k)
        r = typecheck(args[-1], st[k:])
        _ill(r is FAILS, 'DIP body always fails')
        return st[:k] + r
    if p in ('LAMBDA', 'LAMBDA_REC'):
        a, b = _ty(ins, 0), _ty(ins, 1)
        start = [a, ('lambda', a, b)] if p == 'LAMBDA_REC' else [a]
        r = typecheck(args[2], start)
        _ill(r is not FAILS and r != [b], f'{p} body')
        return [('lambda', a, b)] + st
    if p == 'EXEC':
        need(2)
        _ill(st[1][0] != 'lambda' or st[1][1] != st[0], p)
        return [st[1][2]] + st[2:]
    if p == 'APPLY':
        need(2)
        f = st[1]
        _ill(f[0] != 'lambda' or f[1][0] != 'pair' or f[1][1] != st[0], p)
        _ill(not (T.pushable(st[0]) and T.storable(st[0])), 'APPLY: captured value must be pushable and storable')
        return [('lambda', f[1][2], f[2])] + st[2:]
    if p == 'FAILWITH':
        need(1)
        _ill(not T.packable(st[0]), 'FAILWITH of a non-packable value')
        return FAILS
    if p == 'COMPARE':
        need(2)
        _ill(st[0] != st[1] or not T.comparable(st[0]), p)
        return [INT] + st[2:]
    if p in ARITH:
        need(2)
        r = ARITH[p].get((st[0], st[1]))
        _ill(r is None, f'{p} on {st[0]} {st[1]}')
        return [r] + st[2:]
    if p in UNARY:
        need(1)
        r = UNARY[p].get(st[0])
        _ill(r is None, f'{p} on {st[0]}')
        return [r] + st[1:]
    if p == 'CONCAT':
        need(1)
        if st[0][0] == 'list':
            _ill(st[0][1] not in (STRING, BYTES), p)
            return [st[0][1]] + st[1:]
        need(2)
        _ill(st[0] != st[1] or st[0] not in (STRING, BYTES), p)
        return st[1:]
    if p == 'SLICE':
        need(3)
        _ill(st[0] != NAT or st[1] != NAT or st[2] not in (STRING, BYTES), p)
        return [('option', st[2])] + st[3:]
    if p == 'PACK':
        need(1)
        _ill(not T.packable(st[0]), p)
        return [BYTES] + st[1:]
    if p == 'UNPACK':
        need(1)
        t = _ty(ins)
        _ill(st[0] != BYTES or not T.packable(t), p)
        return [('option', t)] + st[1:]
    if p in ENV:
        return [ENV[p]] + st
    # tickets
    if p == 'TICKET':
        need(2)
        _ill(st[1] != NAT or not T.comparable(st[0]), p)
        return [('option', ('ticket', st[0]))] + st[2:]
    if p == 'READ_TICKET':
        need(1)
        _ill(st[0][0] != 'ticket', p)
        return [('pair', ADDRESS, ('pair', st[0][1], NAT)), st[0]] + st[1:]
    if p == 'SPLIT_TICKET':
        need(2)
        _ill(st[0][0] != 'ticket' or st[1] != ('pair', NAT, NAT), p)
        return [('option', ('pair', st[0], st[0]))] + st[2:]
    if p == 'JOIN_TICKETS':
        need(1)
        t = st[0]
        _ill(t[0] != 'pair' or t[1][0] != 'ticket' or t[1] != t[2], p)
        return [('option', t[1])] + st[1:]
    raise IllTyped(f'unsupported instruction {p}/{na}')


# ---------------------------------------------------------------- evaluator
def keccak256(data: bytes) -> bytes:
    """Keccak-256 (pre-standard padding 0x01), plain Python."""
    RC = [0x0000000000000001, 0x0000000000008082, 0x800000000000808A, 0x8000000080008000, 0x000000000000808B,
          0x0000000080000001, 0x8000000080008081, 0x8000000000008009, 0x000000000000008A, 0x0000000000000088,
          0x0000000080008009, 0x000000008000000A, 0x000000008000808B, 0x800000000000008B, 0x8000000000008089,
          0x8000000000008003, 0x8000000000008002, 0x8000000000000080, 0x000000000000800A, 0x800000008000000A,
          0x8000000080008081, 0x8000000000008080, 0x0000000080000001, 0x8000000080008008]
    ROT = [[0, 36, 3, 41, 18], [1, 44, 10, 45, 2], [62, 6, 43, 15, 61], [28, 55, 25, 21, 56], [27, 20, 39, 8, 14]]
    M = (1 << 64) - 1
    rol = lambda x, n: ((x << n) | (x >> (64 - n))) & M if n else x
    rate = 136
    msg = bytearray(data) + b'\x01'
    msg += b'\x00' * (-len(msg) % rate)
    msg[-1] |= 0x80
    A = [[0] * 5 for _ in range(5)]
    for off in range(0, len(msg), rate):
        for i in range(rate // 8):
            A[i % 5][i // 5] ^= int.from_bytes(msg[off + 8 * i:off + 8 * i + 8], 'little')
        for rnd in range(24):
            C = [A[x][0] ^ A[x][1] ^ A[x][2] ^ A[x][3] ^ A[x][4] for x in range(5)]
            D = [C[(x - 1) % 5] ^ rol(C[(x + 1) % 5], 1) for x in range(5)]
            A = [[A[x][y] ^ D[x] for y in range(5)] for x in range(5)]
            B = [[0] * 5 for _ in range(5)]
            for x in range(5):
                for y in range(5):
                    B[y][(2 * x + 3 * y) % 5] = rol(A[x][y], ROT[x][y])
            A = [[B[x][y] ^ ((~B[(x + 1) % 5][y]) & B[(x + 2) % 5][y]) for y in range(5)] for x in range(5)]
            A[0][0] ^= RC[rnd]
    out = b''.join(A[i % 5][i // 5].to_bytes(8, 'little') for i in range(4))
    return out


def int_to_bytes(v: int) -> bytes:
    """BYTES on int: minimal big-endian two's complement; 0 -> empty."""
    if v == 0:
        return b''
    n = 1
    while not -(1 << (8 * n - 1)) <= v < (1 << (8 * n - 1)):
        n += 1
    return v.to_bytes(n, 'big', signed=True)


def nat_to_bytes(v: int) -> bytes:
    return v.to_bytes((v.bit_length() + 7) // 8, 'big') if v else b''


def bytes_logical(op, a: bytes, b: bytes) -> bytes:
    if op == 'AND':
        n = min(len(a), len(b))
        a, b = a[len(a) - n:], b[len(b) - n:]
        return bytes(x & y for x, y in zip(a, b))
    n = max(len(a), len(b))
    a, b = a.rjust(n, b'\0'), b.rjust(n, b'\0')
    return bytes((x | y) if op == 'OR' else (x ^ y) for x, y in zip(a, b))


def arith(p, ta, a, tb, b):
    """Binary arithmetic on reference values; returns (type, value).  Raises RuntimeFail."""
    rt = ARITH[p][(ta, tb)]
    if p == 'ADD':
        v = a + b
    elif p == 'SUB':
        v = a - b
    elif p == 'SUB_MUTEZ':
        return rt, (('Some', a - b) if a >= b else None)
    elif p == 'MUL':
        v = a * b
    elif p == 'EDIV':
        if b == 0:
            return rt, None
        q = a // b
        r = a - q * b
        if r < 0:  # Euclidean division: the remainder is never negative (only possible here when b < 0)
            q, r = q + 1, r - b
        assert 0 <= r < abs(b) and q * b + r == a, (a, b, q, r)
        return rt, ('Some', (q, r))
    elif p in ('LSL', 'LSR'):
        if ta == BYTES:
            if b > 64000:
                raise RuntimeFail('shift')
            if p == 'LSL':
                n = int.from_bytes(a, 'big') << b
                return rt, n.to_bytes(len(a) + (b + 7) // 8, 'big')
            keep = len(a) - b // 8
            if keep <= 0:
                return rt, b''
            return rt, (int.from_bytes(a, 'big') >> b).to_bytes(keep, 'big')
        if b > 256:
            raise RuntimeFail('shift > 256')
        v = a << b if p == 'LSL' else a >> b
    elif p in ('AND', 'OR', 'XOR'):
        if ta == BOOL:
            return rt, {'AND': a and b, 'OR': a or b, 'XOR': a != b}[p]
        if ta == BYTES:
            return rt, bytes_logical(p, a, b)
        v = {'AND': a & b, 'OR': a | b, 'XOR': a ^ b}[p]
    else:
        raise KeyError(p)
    if rt == MUTEZ and not 0 <= v < 2**63:
        raise RuntimeFail('mutez overflow')
    return rt, v


def unary(p, t, a):
    rt = UNARY[p][t]
    if p == 'ABS':
        return rt, abs(a)
    if p == 'NEG':
        return rt, -a
    if p == 'ISNAT':
        return rt, (('Some', a) if a >= 0 else None)
    if p == 'INT':
        return rt, (int.from_bytes(a, 'big', signed=True) if t == BYTES else a)
    if p == 'NAT':
        return rt, int.from_bytes(a, 'big')
    if p == 'BYTES':
        return rt, (int_to_bytes(a) if t == INT else nat_to_bytes(a))
    if p == 'NOT':
        if t == BOOL:
            return rt, not a
        if t == BYTES:
            return rt, bytes(x ^ 0xFF for x in a)
        return rt, ~a
    if p in ('EQ', 'NEQ', 'LT', 'GT', 'LE', 'GE'):
        return rt, {'EQ': a == 0, 'NEQ': a != 0, 'LT': a < 0, 'GT': a > 0, 'LE': a <= 0, 'GE': a >= 0}[p]
    if p == 'BLAKE2B':
        return rt, hashlib.blake2b(a, digest_size=32).digest()
    if p == 'SHA256':
        return rt, hashlib.sha256(a).digest()
    if p == 'SHA512':
        return rt, hashlib.sha512(a).digest()
    if p == 'SHA3':
        return rt, hashlib.sha3_256(a).digest()
    if p == 'KECCAK':
        return rt, keccak256(a)
    raise KeyError(p)


def set_update(t_elem, items, x, present):
    out = [y for y in items if T.compare(t_elem, y, x) != 0]
    if present:
        out.append(x)
    return T.sorted_set(t_elem, out)


def map_get(tk, items, k):
    for kk, v in items:
        if T.compare(tk, kk, k) == 0:
            return v
    return None


def map_has(tk, items, k):
    return any(T.compare(tk, kk, k) == 0 for kk, _ in items)


def map_update(tk, items, k, new):
    """new: None (remove) | ('Some', v)."""
    out = [(kk, v) for kk, v in items if T.compare(tk, kk, k) != 0]
    if new is not None:
        out.append((k, new[1]))
    out.sort(key=lambda kv: T.sort_key(tk)(kv[0]))
    return tuple(out)


def comb_get(v, n):
    while n >= 2:
        v = v[1]
        n -= 2
    return v[0] if n == 1 else v


def comb_update(v, n, new):
    if n == 0:
        return new
    if n == 1:
        return (new, v[1])
    return (v[0], comb_update(v[1], n - 2, new))


class Machine:
    def __init__(self, env=None, fuel=10000, rec_reversed=False):
        self.rec_reversed = rec_reversed  # NOT Michelson: LAMBDA_REC bodies started with the lambda ABOVE the argument
        self.env = dict(DEFAULT_ENV)
        if env:
            self.env.update(env)
        self.fuel = fuel

    def run(self, code, st):
        """st: list of (type, value), top first; returns the new list."""
        if isinstance(code, list):
            for ins in code:
                st = self.run(ins, st)
            return st
        self.fuel -= 1
        if self.fuel < 0:
            raise Fuel()
        return self.step(code, list(st))

    def exec_lambda(self, tf, f, targ, arg):
        """Apply lambda value f : tf to arg; returns (type, value)."""
        kind = f[0]
        if kind == 'app':
            _, ct, cv, inner = f
            inner_t = ('lambda', ('pair', ct, tf[1]), tf[2])
            return self.exec_lambda(inner_t, inner, ('pair', ct, tf[1]), (cv, arg))
        code = json.loads(f[1])
        if kind == 'lam':
            r = self.run(code, [(targ, arg)])
        elif self.rec_reversed:
            r = self.run(code, [(tf, f), (targ, arg)])
        else:
            r = self.run(code, [(targ, arg), (tf, f)])
        assert len(r) == 1, 'lambda left a stack of size != 1'
        return r[0]

    def step(self, ins, st):
        p = ins['prim']
        args = ins.get('args', [])
        na = len(args)
        env = self.env
        if p == 'DROP':
            return st[(_n(ins) if na else 1):]
        if p == 'DUP':
            k = _n(ins) if na else 1
            return [st[k - 1]] + st
        if p == 'SWAP':
            return [st[1], st[0]] + st[2:]
        if p == 'DIG':
            k = _n(ins)
            return [st[k]] + st[:k] + st[k + 1:]
        if p == 'DUG':
            k = _n(ins)
            return st[1:k + 1] + [st[0]] + st[k + 1:]
        if p == 'PUSH':
            t = _ty(ins)
            return [(t, T.v_from_micheline(t, args[1]))] + st
        if p == 'UNIT':
            return [(UNIT, ())] + st
        if p in ('CAST', 'RENAME'):
            return st
        if p == 'SOME':
            t, v = st[0]
            return [(('option', t), ('Some', v))] + st[1:]
        if p == 'NONE':
            return [(('option', _ty(ins)), None)] + st
        if p == 'IF_NONE':
            t, v = st[0]
            if v is None:
                return self.run(args[0], st[1:])
            return self.run(args[1], [(t[1], v[1])] + st[1:])
        if p == 'PAIR':
            k = _n(ins) if na else 2
            t, v = st[k - 1]
            for tt, vv in reversed(st[:k - 1]):
                t, v = ('pair', tt, t), (vv, v)
            return [(t, v)] + st[k:]
        if p == 'UNPAIR':
            k = _n(ins) if na else 2
            t, v = st[0]
            out = []
            for _ in range(k - 1):
                out.append((t[1], v[0]))
                t, v = t[2], v[1]
            return out + [(t, v)] + st[1:]
        if p == 'CAR':
            t, v = st[0]
            return [(t[1], v[0])] + st[1:]
        if p == 'CDR':
            t, v = st[0]
            return [(t[2], v[1])] + st[1:]
        if p == 'GET' and na == 1:
            t, v = st[0]
            n = _n(ins)
            return [(comb_get_type(t, n), comb_get(v, n))] + st[1:]
        if p == 'UPDATE' and na == 1:
            (tn, vn), (t, v) = st[0], st[1]
            n = _n(ins)
            return [(comb_update_type(t, n, tn), comb_update(v, n, vn))] + st[2:]
        if p == 'LEFT':
            t, v = st[0]
            return [(('or', t, _ty(ins)), ('L', v))] + st[1:]
        if p == 'RIGHT':
            t, v = st[0]
            return [(('or', _ty(ins), t), ('R', v))] + st[1:]
        if p == 'IF_LEFT':
            t, v = st[0]
            if v[0] == 'L':
                return self.run(args[0], [(t[1], v[1])] + st[1:])
            return self.run(args[1], [(t[2], v[1])] + st[1:])
        if p == 'NIL':
            return [(('list', _ty(ins)), ())] + st
        if p == 'CONS':
            (_, x), (tl, l) = st[0], st[1]
            return [(tl, (x,) + l)] + st[2:]
        if p == 'IF_CONS':
            t, v = st[0]
            if v:
                return self.run(args[0], [(t[1], v[0]), (t, v[1:])] + st[1:])
            return self.run(args[1], st[1:])
        if p == 'SIZE':
            return [(NAT, len(st[0][1]))] + st[1:]
        if p == 'EMPTY_SET':
            return [(('set', _ty(ins)), ())] + st
        if p == 'EMPTY_MAP':
            return [(('map', _ty(ins, 0), _ty(ins, 1)), ())] + st
        if p == 'MEM':
            (tk, k), (tc, c) = st[0], st[1]
            if tc[0] == 'set':
                r = any(T.compare(tk, x, k) == 0 for x in c)
            else:
                r = map_has(tk, c, k)
            return [(BOOL, r)] + st[2:]
        if p == 'GET' and na == 0:
            (tk, k), (tc, c) = st[0], st[1]
            r = map_get(tk, c, k) if map_has(tk, c, k) else None
            return [(('option', tc[2]), ('Some', r) if map_has(tk, c, k) else None)] + st[2:]
        if p == 'UPDATE' and na == 0:
            (tk, k), (_, flag), (tc, c) = st[0], st[1], st[2]
            if tc[0] == 'set':
                return [(tc, set_update(tk, c, k, flag))] + st[3:]
            return [(tc, map_update(tk, c, k, flag))] + st[3:]
        if p == 'GET_AND_UPDATE':
            (tk, k), (to, new), (tc, c) = st[0], st[1], st[2]
            old = ('Some', map_get(tk, c, k)) if map_has(tk, c, k) else None
            return [(to, old), (tc, map_update(tk, c, k, new))] + st[3:]
        if p == 'MAP':
            tc, c = st[0]
            rest = st[1:]
            out = []
            rt = None
            if tc[0] == 'list':
                for x in c:
                    r = self.run(args[0], [(tc[1], x)] + rest)
                    out.append(r[0][1])
                    rt = r[0][0]
                    rest = r[1:]
                if rt is None:
                    rt = typecheck(args[0], [tc[1]] + [t for t, _ in rest])[0]
                return [(('list', rt), tuple(out))] + rest
            for k, x in c:
                r = self.run(args[0], [(('pair', tc[1], tc[2]), (k, x))] + rest)
                out.append((k, r[0][1]))
                rt = r[0][0]
                rest = r[1:]
            if rt is None:
                rt = typecheck(args[0], [('pair', tc[1], tc[2])] + [t for t, _ in rest])[0]
            return [(('map', tc[1], rt), tuple(out))] + rest
        if p == 'ITER':
            tc, c = st[0]
            rest = st[1:]
            et = ('pair', tc[1], tc[2]) if tc[0] == 'map' else tc[1]
            for x in c:
                rest = self.run(args[0], [(et, x)] + rest)
            return rest
        if p == 'IF':
            return self.run(args[0] if st[0][1] else args[1], st[1:])
        if p == 'LOOP':
            while st[0][1]:
                self.fuel -= 1
                if self.fuel < 0:
                    raise Fuel()
                st = self.run(args[0], st[1:])
            return st[1:]
        if p == 'LOOP_LEFT':
            while st[0][1][0] == 'L':
                self.fuel -= 1
                if self.fuel < 0:
                    raise Fuel()
                t, v = st[0]
                st = self.run(args[0], [(t[1], v[1])] + st[1:])
            t, v = st[0]
            return [(t[2], v[1])] + st[1:]
        if p == 'DIP':
            k = _n(ins) if na == 2 else 1
            return st[:k] + self.run(args[-1], st[k:])
        if p == 'LAMBDA':
            return [(('lambda', _ty(ins, 0), _ty(ins, 1)), ('lam', json.dumps(args[2], sort_keys=True)))] + st
        if p == 'LAMBDA_REC':
            return [(('lambda', _ty(ins, 0), _ty(ins, 1)), ('lamrec', json.dumps(args[2], sort_keys=True)))] + st
        if p == 'EXEC':
            (ta, a), (tf, f) = st[0], st[1]
            return [self.exec_lambda(tf, f, ta, a)] + st[2:]
        if p == 'APPLY':
            (ta, a), (tf, f) = st[0], st[1]
            return [(('lambda', tf[1][2], tf[2]), ('app', ta, a, f))] + st[2:]
        if p == 'FAILWITH':
            raise Failwith(*st[0])
        if p == 'NEVER':
            raise RuntimeFail('NEVER')
        if p == 'COMPARE':
            (t, a), (_, b) = st[0], st[1]
            return [(INT, T.compare(t, a, b))] + st[2:]
        if p in ARITH:
            (ta, a), (tb, b) = st[0], st[1]
            return [arith(p, ta, a, tb, b)] + st[2:]
        if p in UNARY:
            t, a = st[0]
            return [unary(p, t, a)] + st[1:]
        if p == 'CONCAT':
            t, a = st[0]
            if t[0] == 'list':
                empty = '' if t[1] == STRING else b''
                return [(t[1], empty.join(a))] + st[1:]
            return [(t, a + st[1][1])] + st[2:]
        if p == 'SLICE':
            (_, off), (_, ln), (t, s) = st[0], st[1], st[2]
            r = ('Some', s[off:off + ln]) if off + ln <= len(s) and off < len(s) else None
            return [(('option', t), r)] + st[3:]
        if p == 'PACK':
            t, v = st[0]
            return [(BYTES, T.pack(t, v))] + st[1:]
        if p == 'UNPACK':
            t = _ty(ins)
            return [(('option', t), T.unpack(t, st[0][1]))] + st[1:]
        if p in ENV:
            key = p.lower()
            return [(ENV[p], env[key])] + st
        if p == 'TICKET':
            (tc, c), (_, n) = st[0], st[1]
            r = ('Some', ('ticket', env['self_address'][:2] + ('',), c, n)) if n > 0 else None
            return [(('option', ('ticket', tc)), r)] + st[2:]
        if p == 'READ_TICKET':
            t, v = st[0]
            return [(('pair', ADDRESS, ('pair', t[1], NAT)), (v[1], (v[2], v[3]))), (t, v)] + st[1:]
        if p == 'SPLIT_TICKET':
            (t, v), (_, (x, y)) = st[0], st[1]
            if x > 0 and y > 0 and x + y == v[3]:
                r = ('Some', (('ticket', v[1], v[2], x), ('ticket', v[1], v[2], y)))
            else:
                r = None
            return [(('option', ('pair', t, t)), r)] + st[2:]
        if p == 'JOIN_TICKETS':
            t, (a, b) = st[0]
            if a[1] == b[1] and T.compare(t[1][1], a[2], b[2]) == 0:
                r = ('Some', ('ticket', a[1], a[2], a[3] + b[3]))
            else:
                r = None
            return [(('option', t[1]), r)] + st[1:]
        raise IllTyped(f'unsupported instruction {p}/{na}')


def run(code, stack, env=None, fuel=10000, rec_reversed=False):
    return Machine(env, fuel, rec_reversed).run(code, stack)


def selftest() -> int:
    assert keccak256(b'').hex() == 'c5d2460186f7233c927e7db2dcc703c0e500b653ca82273b7bfad8045d85a470'
    assert keccak256(b'abc').hex() == '4e03657aea45a94fc7d47ba826c8d667c0d1e6e33a64a036ec44f58fa12d6c45'
    n = 2
    # Euclidean division
    for a in range(-7, 8):
        for b in range(-4, 5):
            t, v = arith('EDIV', INT, a, INT, b)
            if b == 0:
                assert v is None
            else:
                q, r = v[1]
                assert q * b + r == a and 0 <= r < abs(b)
            n += 1
    assert int_to_bytes(128) == b'\x00\x80' and int_to_bytes(-128) == b'\x80' and int_to_bytes(-129) == b'\xff\x7f' and int_to_bytes(127) == b'\x7f'
    I = lambda x: {'int': str(x)}
    P = lambda *a: {'prim': a[0], 'args': list(a[1:])} if len(a) > 1 else {'prim': a[0]}
    prog = [P('PUSH', P('int'), I(5)), P('PUSH', P('int'), I(3)), P('SUB'), P('ISNAT')]
    assert typecheck(prog, []) == [('option', NAT)]
    assert run(prog, []) == [(('option', NAT), None)]
    # factorial by LOOP: n acc
    loop = [P('PUSH', P('int'), I(4)), P('PUSH', P('int'), I(1)), P('SWAP'), P('DUP'), P('NEQ'),
            P('LOOP', [P('DUP'), P('DIP', [P('MUL')]), P('PUSH', P('int'), I(1)), P('SWAP'), P('SUB'), P('DUP'), P('NEQ')]), P('DROP')]
    assert typecheck(loop, []) == [INT]
    assert run(loop, []) == [(INT, 24)]
    n += 3
    return n
