"""Reference BLS12-381 values for C21 / C07 / C08 (plain Python + py_ecc, no pytezos).

Group elements are *proper projective points* of py_ecc.optimized_bls12_381 (infinity = Z == 0); they are
built as scalar multiples of the generators and never pass through pytezos' to_point/from_point.
Encodings are written here from the zcash/Tezos serialisation rules:

  G1 uncompressed, 96 bytes:  x (48, big endian) || y (48);              infinity = 0x40 || 95 x 00
  G2 uncompressed, 192 bytes: x.c1 || x.c0 || y.c1 || y.c0 (48 each);    infinity = 0x40 || 191 x 00
  G1 compressed, 48 bytes:    x with flag bits in the top byte: 0x80 compressed, 0x40 infinity,
                              0x20 set iff y is the lexicographically larger root (2y > p)
  Fr, 32 bytes little endian, value in [0, r)

selftest(): the encoders/decoders are replayed on the curve points that ship with the repository's
groth16 test (verifying key in opcodes/groth16.tz, proof in test_opcodes.py): decode -> on-curve -> encode
must reproduce the bytes (a swapped coordinate order fails the curve equation), and on the BLpk vectors of
test_crypto.py for the compressed form.
"""
from __future__ import annotations

import os
import re

from py_ecc import optimized_bls12_381 as O
from py_ecc.fields import optimized_bls12_381_FQ as FQ
from py_ecc.fields import optimized_bls12_381_FQ2 as FQ2

P = O.field_modulus
R = O.curve_order
assert R == 0x73EDA753299D7D483339D80809A1D80553BDA402FFFE5BFEFFFFFFFF00000001

INF1 = b'\x40' + bytes(95)
INF2 = b'\x40' + bytes(191)


def g1(k: int):
    k %= R
    return O.Z1 if k == 0 else O.multiply(O.G1, k)


def g2(k: int):
    k %= R
    return O.Z2 if k == 0 else O.multiply(O.G2, k)


def add(a, b):
    return O.add(a, b)


def neg(a):
    return O.neg(a)


def mul(a, k: int):
    k %= R
    if k == 0 or O.is_inf(a):
        return (a[0].one(), a[0].one(), a[0].zero())
    return O.multiply(a, k)


def enc_g1(pt) -> bytes:
    if O.is_inf(pt):
        return INF1
    x, y = O.normalize(pt)
    return int(x.n).to_bytes(48, 'big') + int(y.n).to_bytes(48, 'big')


def enc_g2(pt) -> bytes:
    if O.is_inf(pt):
        return INF2
    x, y = O.normalize(pt)
    (x0, x1), (y0, y1) = x.coeffs, y.coeffs
    return b''.join(int(c).to_bytes(48, 'big') for c in (x1, x0, y1, y0))


def dec_g1(b: bytes):
    assert len(b) == 96
    if b[0] & 0x40:
        assert b == INF1, 'non-canonical infinity'
        return O.Z1
    assert b[0] & 0xe0 == 0
    x, y = int.from_bytes(b[:48], 'big'), int.from_bytes(b[48:], 'big')
    assert x < P and y < P
    pt = (FQ(x), FQ(y), FQ(1))
    assert O.is_on_curve(pt, O.b), 'not on G1 curve'
    return pt


def dec_g2(b: bytes):
    assert len(b) == 192
    if b[0] & 0x40:
        assert b == INF2, 'non-canonical infinity'
        return O.Z2
    assert b[0] & 0xe0 == 0
    x1, x0, y1, y0 = (int.from_bytes(b[i:i + 48], 'big') for i in (0, 48, 96, 144))
    assert max(x1, x0, y1, y0) < P
    pt = (FQ2([x0, x1]), FQ2([y0, y1]), FQ2([1, 0]))
    assert O.is_on_curve(pt, O.b2), 'not on G2 curve'
    return pt


def fr_bytes(v: int) -> bytes:
    return (v % R).to_bytes(32, 'little')


def compress_g1(pt) -> bytes:
    if O.is_inf(pt):
        return b'\xc0' + bytes(47)
    x, y = O.normalize(pt)
    flag = 0x80 | (0x20 if 2 * int(y.n) > P else 0)
    b = bytearray(int(x.n).to_bytes(48, 'big'))
    b[0] |= flag
    return bytes(b)


def sk_to_pk(sk: int) -> bytes:
    """MinPk public key: compressed sk*G1."""
    assert 0 < sk < R
    return compress_g1(O.multiply(O.G1, sk))


# ----- signature verification (message augmentation scheme), written from the pairing equation -----
DST_AUG = b'BLS_SIG_BLS12381G2_XMD:SHA-256_SSWU_RO_AUG_'


def verify_aug(pk: bytes, msg: bytes, sig: bytes) -> bool:
    """e(pk, H(pk || msg)) == e(g1, sig), as one product of Miller loops.  Uses py_ecc's hash-to-curve,
    point decompression and pairing primitives, but not its ciphersuite classes."""
    import hashlib
    from py_ecc.bls.hash_to_curve import hash_to_G2
    from py_ecc.bls.point_compression import decompress_G1, decompress_G2
    from py_ecc.optimized_bls12_381 import final_exponentiate, pairing
    from py_ecc.fields import optimized_bls12_381_FQ12 as FQ12
    if len(pk) != 48 or len(sig) != 96:
        return False
    try:
        A = decompress_G1(int.from_bytes(pk, 'big'))
        S = decompress_G2((int.from_bytes(sig[:48], 'big'), int.from_bytes(sig[48:], 'big')))
    except Exception:
        return False
    if O.is_inf(A) or not O.is_inf(O.multiply(A, R)) or not O.is_inf(O.multiply(S, R)):
        return False
    H = hash_to_G2(pk + msg, DST_AUG, hashlib.sha256)
    prod = pairing(H, A, final_exponentiate=False) * pairing(S, O.neg(O.G1), final_exponentiate=False)
    return final_exponentiate(prod) == FQ12.one()


def _repo_file(rel):
    return os.path.join(os.environ.get('VERIF_REPO', '/repo'), rel)


def selftest() -> int:
    n = 0
    # generator encodings: published constants of the curve
    assert enc_g1(O.G1).hex() == ('17f1d3a73197d7942695638c4fa9ac0fc3688c4f9774b905a14e3a3f171bac586c55e83ff97a1aeffb3af00adb22c6bb'
                                  '08b3f481e3aaa0f1a09e30ed741d8ae4fcf5e095d5d00af600db18cb2c04b3edd03cc744a2888ae40caa232946c5e7e1')
    assert compress_g1(O.G1).hex() == '97f1d3a73197d7942695638c4fa9ac0fc3688c4f9774b905a14e3a3f171bac586c55e83ff97a1aeffb3af00adb22c6bb'
    assert enc_g2(O.G2).hex().startswith('13e02b6052719f607dacd3a088274f65596bd0d09920b61ab5da61bbdc7f5049334cf11213945d57e5ac7d055d042b7e'
                                          '024aa2b2f08f0a91260805272dc51051c6e47ad4fa403b02b4510b647ae3d1770bac0326a805bbefd48056c8c121bdb8')
    n += 3
    # curve points shipped with the repository
    vecs = []
    with open(_repo_file('tests/unit_tests/test_michelson/test_repl/opcodes/groth16.tz')) as f:
        for ty, hx in re.findall(r'PUSH\s+@\w+\s+(bls12_381_g[12])\s+0x([0-9a-f]+)', f.read()):
            vecs.append((ty, bytes.fromhex(hx)))
    with open(_repo_file('tests/unit_tests/test_michelson/test_repl/test_opcodes.py')) as f:
        for name, hx in re.findall(r'^(proof_[abc]) = "0x([0-9a-f]+)"', f.read(), re.M):
            vecs.append(('bls12_381_g2' if name == 'proof_b' else 'bls12_381_g1', bytes.fromhex(hx)))
    assert len(vecs) >= 10, len(vecs)
    for ty, b in vecs:
        if ty.endswith('g1'):
            pt = dec_g1(b)
            assert enc_g1(pt) == b and enc_g1(O.add(pt, O.Z1)) == b
            assert enc_g1(O.add(pt, O.neg(pt))) == INF1
        else:
            pt = dec_g2(b)
            assert enc_g2(pt) == b
            assert enc_g2(O.add(pt, O.neg(pt))) == INF2
        n += 1
    for k in (0, 1, 2, 3, R - 1):
        assert O.eq(dec_g1(enc_g1(g1(k))), g1(k)) if k else dec_g1(enc_g1(g1(k))) == O.Z1
        assert O.eq(dec_g2(enc_g2(g2(k))), g2(k)) if k else dec_g2(enc_g2(g2(k))) == O.Z2
        n += 2
    assert enc_g1(g1(R - 1)) == enc_g1(O.neg(O.G1)) and enc_g1(add(g1(R - 1), g1(1))) == INF1
    # Octez-produced key / signature vectors of tests/unit_tests/test_crypto/test_crypto.py
    from mc.ref import base58 as b58
    with open(_repo_file('tests/unit_tests/test_crypto/test_crypto.py')) as f:
        src = f.read()
    pairs = re.findall(r"'(BLsk\w+)',\s*'(BLpk\w+)'", src)
    assert len(pairs) >= 2
    for sk, pk in pairs:
        sk_int = int.from_bytes(b58.dec('BLsk', sk), 'little')
        assert sk_to_pk(sk_int) == b58.dec('BLpk', pk), sk
        n += 1
    sigs = re.findall(r"'(BLsk\w+)',\s*b'([^']*)',\s*'(BLsig\w+)'", src)
    assert len(sigs) >= 2
    for sk, msg, sig in sigs:
        pk = sk_to_pk(int.from_bytes(b58.dec('BLsk', sk), 'little'))
        raw = b58.dec('BLsig', sig)
        assert verify_aug(pk, msg.encode(), raw), sk
        assert not verify_aug(pk, msg.encode() + b'x', raw)
        n += 2
    return n
