"""Independent implementations of the Tezos signature schemes (no pytezos, none of the libraries pytezos
uses for these curves: pysodium, coincurve, fastecdsa).

  tz1  Ed25519 over Blake2b-256(message)                        -> `cryptography` (OpenSSL)
  tz2  ECDSA/secp256k1 over Blake2b-256(message), r||s 64 bytes -> `cryptography`, Prehashed
  tz3  ECDSA/P-256     over Blake2b-256(message), r||s 64 bytes -> `cryptography`, Prehashed
  tz4  BLS12-381 MinPk, message augmentation, over the message itself -> mc.ref.blsref (pairing equation)

Public-key derivation from a secret (C08) likewise.  selftest() replays the (public key, message, signature)
and (secret key, public key, public key hash) literals of tests/unit_tests/test_crypto/test_crypto.py.
"""
from __future__ import annotations

import hashlib
import os

from cryptography.exceptions import InvalidSignature
from cryptography.hazmat.primitives import hashes, serialization
from cryptography.hazmat.primitives.asymmetric import ec, ed25519
from cryptography.hazmat.primitives.asymmetric.utils import Prehashed, encode_dss_signature

ORDER = {
    'sp': 0xFFFFFFFFFFFFFFFFFFFFFFFFFFFFFFFEBAAEDCE6AF48A03BBFD25E8CD0364141,
    'p2': 0xFFFFFFFF00000000FFFFFFFFFFFFFFFFBCE6FAADA7179E84F3B9CAC2FC632551,
    'BL': 0x73EDA753299D7D483339D80809A1D80553BDA402FFFE5BFEFFFFFFFF00000001,
}
_EC = {'sp': ec.SECP256K1, 'p2': ec.SECP256R1}
PK_KIND = {'ed': 'edpk', 'sp': 'sppk', 'p2': 'p2pk', 'BL': 'BLpk'}
PKH_KIND = {'ed': 'tz1', 'sp': 'tz2', 'p2': 'tz3', 'BL': 'tz4'}
SK_KIND = {'ed': 'edsk32', 'sp': 'spsk', 'p2': 'p2sk', 'BL': 'BLsk'}
SIG_KIND = {'ed': 'edsig', 'sp': 'spsig1', 'p2': 'p2sig', 'BL': 'BLsig'}
SIG_LEN = {'ed': 64, 'sp': 64, 'p2': 64, 'BL': 96}


def digest(msg: bytes) -> bytes:
    return hashlib.blake2b(msg, digest_size=32).digest()


def secret_int(curve: str, secret: bytes) -> int:
    return int.from_bytes(secret, 'little' if curve == 'BL' else 'big')


def public_from_secret(curve: str, secret: bytes) -> bytes:
    """secret: 32-byte seed (ed), big-endian exponent (sp, p2), little-endian scalar (BL)."""
    if curve == 'ed':
        return ed25519.Ed25519PrivateKey.from_private_bytes(secret).public_key().public_bytes(
            serialization.Encoding.Raw, serialization.PublicFormat.Raw)
    if curve in _EC:
        k = ec.derive_private_key(secret_int(curve, secret), _EC[curve]())
        return k.public_key().public_bytes(serialization.Encoding.X962, serialization.PublicFormat.CompressedPoint)
    if curve == 'BL':
        from mc.ref import blsref
        return blsref.sk_to_pk(secret_int(curve, secret))
    raise ValueError(curve)


def public_valid(curve: str, pub: bytes) -> bool:
    """Is `pub` the encoding of a curve point this scheme admits as a key?"""
    try:
        if curve == 'ed':
            return len(pub) == 32      # any 32 bytes are admitted syntactically; verification decides
        if curve in _EC:
            ec.EllipticCurvePublicKey.from_encoded_point(_EC[curve](), pub)
            return len(pub) == 33
        if curve == 'BL':
            from py_ecc.bls.point_compression import decompress_G1
            from py_ecc import optimized_bls12_381 as O
            pt = decompress_G1(int.from_bytes(pub, 'big'))
            return len(pub) == 48 and not O.is_inf(pt) and O.is_inf(O.multiply(pt, O.curve_order))
    except Exception:
        return False
    return False


def verify(curve: str, pub: bytes, msg: bytes, sig: bytes) -> bool:
    """The scheme's verdict on raw signature bytes (64 bytes r||s resp. R||S; 96 bytes compressed G2 for BL)."""
    try:
        if curve == 'ed':
            if len(sig) != 64:
                return False
            ed25519.Ed25519PublicKey.from_public_bytes(pub).verify(sig, digest(msg))
            return True
        if curve in _EC:
            if len(sig) != 64:
                return False
            r, s = int.from_bytes(sig[:32], 'big'), int.from_bytes(sig[32:], 'big')
            if not (0 < r < ORDER[curve] and 0 < s < ORDER[curve]):
                return False
            key = ec.EllipticCurvePublicKey.from_encoded_point(_EC[curve](), pub)
            key.verify(encode_dss_signature(r, s), digest(msg), ec.ECDSA(Prehashed(hashes.SHA256())))
            return True
        if curve == 'BL':
            from mc.ref import blsref
            return blsref.verify_aug(pub, msg, sig)
    except (InvalidSignature, ValueError):
        return False
    raise ValueError(curve)


def pkh(pub: bytes) -> bytes:
    return hashlib.blake2b(pub, digest_size=20).digest()


def selftest() -> int:
    from mc.ref import base58 as b58
    path = os.path.join(os.environ.get('VERIF_REPO', '/repo'), 'tests/unit_tests/test_crypto/test_crypto.py')
    import ast
    with open(path) as f:
        tree = ast.parse(f.read())
    tuples = [tuple(e.value for e in t.elts) for t in ast.walk(tree)
              if isinstance(t, ast.Tuple) and t.elts and all(isinstance(e, ast.Constant) for e in t.elts)]

    def scrub(m):      # what the test (and Tezos tooling) means by a str message: hex
        return m if isinstance(m, bytes) else bytes.fromhex(m[2:] if m.startswith('0x') else m)
    n = 0
    # (sk, pk, pkh) triples
    trip = [t for t in tuples if len(t) == 3 and isinstance(t[0], str) and t[0][2:4] == 'sk' and str(t[2]).startswith('tz')]
    assert len(trip) >= 6, len(trip)
    for sk, pk, h in trip:
        c = sk[:2]
        raw_sk = b58.dec(SK_KIND[c], sk) if len(sk) == 54 else b58.dec('edsk64', sk)[:32]
        pub = public_from_secret(c, raw_sk)
        assert pub == b58.dec(PK_KIND[c], pk), sk
        assert b58.enc(PKH_KIND[c], pkh(pub)) == h, sk
        assert public_valid(c, pub)
        n += 1
    # (pk, message, signature) triples (external signatures, incl. generic `sig`), BLS is replayed in blsref
    ext = [t for t in tuples if len(t) == 3 and isinstance(t[0], str) and t[0][:4] in ('edpk', 'sppk', 'p2pk')
           and isinstance(t[2], str) and 'sig' in t[2][:6]]
    assert len(ext) >= 4, len(ext)
    for pk, msg, sig in ext:
        c = pk[:2]
        pub = b58.dec(PK_KIND[c], pk)
        raw = b58.dec('sig', sig) if sig.startswith('sig') else b58.dec(SIG_KIND[c], sig)
        assert verify(c, pub, scrub(msg), raw), (pk, sig)
        assert not verify(c, pub, scrub(msg) + b'!', raw)
        bad = bytearray(raw)
        bad[5] ^= 1
        assert not verify(c, pub, scrub(msg), bytes(bad))
        n += 3
    # (sk, message, signature): deterministic signatures
    det = [t for t in tuples if len(t) == 3 and isinstance(t[0], str) and t[0][:4] in ('edsk', 'spsk', 'p2sk')
           and isinstance(t[2], str) and 'sig' in t[2][:6]]
    assert len(det) >= 2, len(det)
    for sk, msg, sig in det:
        c = sk[:2]
        pub = public_from_secret(c, b58.dec(SK_KIND[c], sk))
        assert verify(c, pub, scrub(msg), b58.dec(SIG_KIND[c], sig)), sk
        n += 1
    assert not public_valid('p2', b'\x05' + bytes(32)) and not public_valid('sp', b'\x02' + b'\xff' * 32)
    return n
