"""Reference model of Michelson types and values (plain Python, no pytezos).

Types are tuples: ('int',) ('pair', a, b) ('map', k, v) ... (n-ary pairs are right combs of binary pairs).
Values ("reference form"), always interpreted together with their type:
  int nat mutez timestamp -> int        string -> str        bytes -> bytes        bool -> bool      unit -> ()
  pair -> (a, b)     option -> None | ('Some', v)      or -> ('L', v) | ('R', v)
  list -> tuple      set -> sorted tuple      map / big_map -> sorted tuple of (k, v)
  address -> (kind, hash20, entrypoint)  kind in tz1 tz2 tz3 tz4 KT1 sr1 ; entrypoint '' = none/default
  key_hash -> (kind, hash20)      key -> (kind, bytes)  kind in edpk sppk p2pk BLpk
  signature -> bytes (raw, 64 or 96)        chain_id -> bytes (4)
  lambda -> ('lam', code_json) | ('lamrec', code_json) | ('app', captured_type, captured_value, lambda)
  ticket -> ('ticket', ticketer_address, content, amount)
  bls12_381_fr/g1/g2 -> bytes
"""
from __future__ import annotations

import hashlib
import json
from functools import cmp_to_key

from mc.ref import base58 as b58
from mc.ref import micheline as mich

SIMPLE = {'int', 'nat', 'string', 'bytes', 'bool', 'unit', 'mutez', 'timestamp', 'address', 'key_hash', 'key',
          'signature', 'chain_id', 'never', 'operation', 'bls12_381_fr', 'bls12_381_g1', 'bls12_381_g2'}
ADDR_KINDS = ['tz1', 'tz2', 'tz3', 'tz4', 'KT1', 'sr1']
KH_KINDS = ['tz1', 'tz2', 'tz3', 'tz4']
KEY_KINDS = ['edpk', 'sppk', 'p2pk', 'BLpk']


# ---------------------------------------------------------------- types
def t_from_micheline(e) -> tuple:
    """Annotation-blind type from a Micheline type expression."""
    p = e['prim']
    args = [t_from_micheline(a) for a in e.get('args', [])]
    if p == 'pair':
        assert len(args) >= 2
        t = args[-1]
        for a in reversed(args[:-1]):
            t = ('pair', a, t)
        return t
    return (p, *args)


def t_to_micheline(t: tuple, annots=None) -> dict:
    e: dict = {'prim': t[0]}
    if len(t) > 1:
        e['args'] = [t_to_micheline(a) for a in t[1:]]
    if annots:
        e['annots'] = list(annots)
    return e


def t_str(t: tuple) -> str:
    if len(t) == 1:
        return t[0]
    return '(' + ' '.join([t[0]] + [t_str(a) for a in t[1:]]) + ')'


def comparable(t) -> bool:
    p = t[0]
    if p in ('int', 'nat', 'string', 'bytes', 'bool', 'unit', 'mutez', 'timestamp', 'address', 'key_hash', 'key',
             'signature', 'chain_id', 'never'):
        return True
    if p in ('pair', 'or', 'option'):
        return all(comparable(a) for a in t[1:])
    return False


def _all(t, bad) -> bool:
    if t[0] in bad:
        return False
    if t[0] == 'lambda':
        return True
    if t[0] == 'contract':
        return True
    return all(_all(a, bad) for a in t[1:])


def packable(t) -> bool:
    return _all(t, {'big_map', 'operation', 'sapling_state', 'ticket'})


def pushable(t) -> bool:
    return _all(t, {'big_map', 'operation', 'sapling_state', 'ticket', 'contract'})


def duplicable(t) -> bool:
    return _all(t, {'ticket'})


def storable(t) -> bool:
    return _all(t, {'operation', 'contract'})


def big_map_value_ok(t) -> bool:
    return _all(t, {'big_map', 'operation', 'sapling_state'})


# ---------------------------------------------------------------- order
def _cmp(a, b) -> int:
    return (a > b) - (a < b)


def compare(t, a, b) -> int:
    """The Michelson total order on comparable types."""
    p = t[0]
    if p in ('int', 'nat', 'mutez', 'timestamp', 'string', 'bytes', 'chain_id', 'signature'):
        return _cmp(a, b)  # signatures: pinned by the statement only among equal lengths
    if p == 'bool':
        return _cmp(int(a), int(b))
    if p in ('unit', 'never'):
        return 0
    if p == 'pair':
        c = compare(t[1], a[0], b[0])
        return c if c else compare(t[2], a[1], b[1])
    if p == 'option':
        if a is None or b is None:
            return _cmp(a is not None, b is not None)
        return compare(t[1], a[1], b[1])
    if p == 'or':
        if a[0] != b[0]:
            return -1 if a[0] == 'L' else 1
        return compare(t[1] if a[0] == 'L' else t[2], a[1], b[1])
    if p == 'key_hash':
        return _cmp((KH_KINDS.index(a[0]), a[1]), (KH_KINDS.index(b[0]), b[1]))
    if p == 'key':
        return _cmp((KEY_KINDS.index(a[0]), a[1]), (KEY_KINDS.index(b[0]), b[1]))
    if p == 'address':
        def k(x):
            kind, h, ep = x
            if kind in KH_KINDS:
                return (0, KH_KINDS.index(kind), h, ep)
            return (1 if kind == 'KT1' else 2, 0, h, ep)
        return _cmp(k(a), k(b))
    raise TypeError(f'not comparable: {t}')


def sort_key(t):
    return cmp_to_key(lambda a, b: compare(t, a, b))


def sorted_set(t_elem, items) -> tuple:
    out = []
    for x in sorted(items, key=sort_key(t_elem)):
        if not out or compare(t_elem, out[-1], x) != 0:
            out.append(x)
    return tuple(out)


def is_strictly_sorted(t_elem, items) -> bool:
    return all(compare(t_elem, items[i], items[i + 1]) < 0 for i in range(len(items) - 1))


# ---------------------------------------------------------------- domain-value text forms
def address_str(a) -> str:
    kind, h, ep = a
    s = b58.enc(kind, h)
    return s + ('%' + ep if ep else '')


def address_bytes(a) -> bytes:
    kind, h, ep = a
    if kind in KH_KINDS:
        body = b'\x00' + bytes([KH_KINDS.index(kind)]) + h
    elif kind == 'KT1':
        body = b'\x01' + h + b'\x00'
    elif kind == 'sr1':
        body = b'\x03' + h + b'\x00'
    else:
        raise ValueError(kind)
    return body + ep.encode()


def key_hash_str(k) -> str:
    return b58.enc(k[0], k[1])


def key_hash_bytes(k) -> bytes:
    return bytes([KH_KINDS.index(k[0])]) + k[1]


def key_str(k) -> str:
    return b58.enc(k[0], k[1])


def key_bytes(k) -> bytes:
    return bytes([KEY_KINDS.index(k[0])]) + k[1]


def sig_str(s: bytes) -> str:
    return b58.enc('BLsig' if len(s) == 96 else 'sig', s)


def chain_id_str(c: bytes) -> str:
    return b58.enc('Net', c)


def parse_address(s: str):
    ep = ''
    if '%' in s:
        s, ep = s.split('%', 1)
    for kind in ADDR_KINDS:
        if s.startswith(kind):
            return (kind, b58.dec(kind, s), '' if ep == 'default' else ep)
    raise ValueError(s)


def parse_address_bytes(b: bytes):
    if len(b) < 22:
        raise ValueError('short address')
    body, ep = b[:22], b[22:].decode()
    if ep == 'default':
        raise ValueError('explicit default entrypoint is not canonical')
    if body[0] == 0:
        if body[1] > 3:
            raise ValueError('bad key hash tag')
        return (KH_KINDS[body[1]], body[2:], ep)
    if body[0] in (1, 3) and body[21] == 0:
        return ('KT1' if body[0] == 1 else 'sr1', body[1:21], ep)
    raise ValueError('bad address')


def parse_key_hash(s: str):
    for kind in KH_KINDS:
        if s.startswith(kind):
            return (kind, b58.dec(kind, s))
    raise ValueError(s)


def parse_key(s: str):
    for kind in KEY_KINDS:
        if s.startswith(kind):
            return (kind, b58.dec(kind, s))
    raise ValueError(s)


KEY_LEN = {'edpk': 32, 'sppk': 33, 'p2pk': 33, 'BLpk': 48}
SIG_PREFIXES = ['edsig', 'spsig1', 'p2sig', 'sig', 'BLsig']


def parse_sig(s: str) -> bytes:
    for p in ('edsig', 'spsig1', 'p2sig', 'BLsig', 'sig'):
        if s.startswith(p):
            return b58.dec(p, s)
    raise ValueError(s)


# ---------------------------------------------------------------- values <-> Micheline
def v_to_micheline(t, v, mode='readable'):
    """mode: 'readable' | 'optimized' (the PACK form: combs >=4 as sequences, domain values as bytes)."""
    p = t[0]
    opt = mode == 'optimized'
    if p in ('int', 'nat', 'mutez', 'timestamp'):
        return {'int': str(v)}
    if p == 'string':
        return {'string': v}
    if p in ('bytes', 'bls12_381_fr', 'bls12_381_g1', 'bls12_381_g2'):
        return {'bytes': v.hex()}
    if p == 'bool':
        return {'prim': 'True' if v else 'False'}
    if p == 'unit':
        return {'prim': 'Unit'}
    if p == 'pair':
        leaves = []
        tt, vv = t, v
        while tt[0] == 'pair':
            leaves.append(v_to_micheline(tt[1], vv[0], mode))
            tt, vv = tt[2], vv[1]
        leaves.append(v_to_micheline(tt, vv, mode))
        if not opt:
            return {'prim': 'Pair', 'args': leaves}
        if len(leaves) >= 4:
            return leaves
        e = leaves[-1]
        for x in reversed(leaves[:-1]):
            e = {'prim': 'Pair', 'args': [x, e]}
        return e
    if p == 'option':
        return {'prim': 'None'} if v is None else {'prim': 'Some', 'args': [v_to_micheline(t[1], v[1], mode)]}
    if p == 'or':
        return {'prim': 'Left' if v[0] == 'L' else 'Right', 'args': [v_to_micheline(t[1] if v[0] == 'L' else t[2], v[1], mode)]}
    if p in ('list', 'set'):
        return [v_to_micheline(t[1], x, mode) for x in v]
    if p in ('map', 'big_map'):
        return [{'prim': 'Elt', 'args': [v_to_micheline(t[1], k, mode), v_to_micheline(t[2], x, mode)]} for k, x in v]
    if p == 'address':
        return {'bytes': address_bytes(v).hex()} if opt else {'string': address_str(v)}
    if p == 'key_hash':
        return {'bytes': key_hash_bytes(v).hex()} if opt else {'string': key_hash_str(v)}
    if p == 'key':
        return {'bytes': key_bytes(v).hex()} if opt else {'string': key_str(v)}
    if p == 'signature':
        return {'bytes': v.hex()} if opt else {'string': sig_str(v)}
    if p == 'chain_id':
        return {'bytes': v.hex()} if opt else {'string': chain_id_str(v)}
    if p == 'lambda':
        if v[0] == 'lam':
            return json.loads(v[1])
        if v[0] == 'lamrec':
            return {'prim': 'Lambda_rec', 'args': [json.loads(v[1])]}
        raise ValueError('applied lambdas have no reference code form')
    raise ValueError(f'no literal form for {t}')


class BadValue(ValueError):
    pass


def v_from_micheline(t, e):
    """Parse a Micheline value at type t, accepting readable and optimized forms, checking well-formedness
    (sortedness of sets/maps, nat >= 0, mutez range, domain encodings).  Raises BadValue otherwise."""
    p = t[0]
    try:
        if p in ('int', 'nat', 'mutez', 'timestamp'):
            if p == 'timestamp' and isinstance(e, dict) and 'string' in e:
                raise BadValue('timestamp strings are outside the reference')
            n = int(_lit(e, 'int'))
            if p == 'nat' and n < 0 or p == 'mutez' and not 0 <= n < 2**63:
                raise BadValue('range')
            return n
        if p == 'string':
            s = _lit(e, 'string')
            if any(not (32 <= ord(c) < 127 or c == '\n') for c in s):
                raise BadValue('string chars')
            return s
        if p == 'bytes':
            return bytes.fromhex(_lit(e, 'bytes'))
        if p == 'bool':
            return {'True': True, 'False': False}[_prim0(e)]
        if p == 'unit':
            if _prim0(e) != 'Unit':
                raise BadValue('unit')
            return ()
        if p == 'pair':
            if isinstance(e, list):
                args = e
            else:
                if e.get('prim') != 'Pair' or e.get('annots'):
                    raise BadValue('Pair expected')
                args = e.get('args', [])
            if len(args) < 2:
                raise BadValue('pair arity')
            a = v_from_micheline(t[1], args[0])
            rest = args[1] if len(args) == 2 else {'prim': 'Pair', 'args': args[1:]}
            return (a, v_from_micheline(t[2], rest))
        if p == 'option':
            if isinstance(e, dict) and e.get('prim') == 'None' and not e.get('args'):
                return None
            if isinstance(e, dict) and e.get('prim') == 'Some' and len(e.get('args', [])) == 1:
                return ('Some', v_from_micheline(t[1], e['args'][0]))
            raise BadValue('option')
        if p == 'or':
            if isinstance(e, dict) and e.get('prim') in ('Left', 'Right') and len(e.get('args', [])) == 1:
                return ('L' if e['prim'] == 'Left' else 'R', v_from_micheline(t[1] if e['prim'] == 'Left' else t[2], e['args'][0]))
            raise BadValue('or')
        if p == 'list':
            if not isinstance(e, list):
                raise BadValue('list')
            return tuple(v_from_micheline(t[1], x) for x in e)
        if p == 'set':
            if not isinstance(e, list):
                raise BadValue('set')
            items = tuple(v_from_micheline(t[1], x) for x in e)
            if not is_strictly_sorted(t[1], items):
                raise BadValue('unsorted or duplicate set elements')
            return items
        if p in ('map', 'big_map'):
            if not isinstance(e, list):
                raise BadValue('map')
            items = []
            for x in e:
                if not (isinstance(x, dict) and x.get('prim') == 'Elt' and len(x.get('args', [])) == 2):
                    raise BadValue('Elt')
                items.append((v_from_micheline(t[1], x['args'][0]), v_from_micheline(t[2], x['args'][1])))
            if not is_strictly_sorted(t[1], [k for k, _ in items]):
                raise BadValue('unsorted or duplicate map keys')
            return tuple(items)
        if p == 'address':
            if 'string' in e:
                return parse_address(e['string'])
            return parse_address_bytes(bytes.fromhex(_lit(e, 'bytes')))
        if p == 'key_hash':
            if 'string' in e:
                return parse_key_hash(e['string'])
            b = bytes.fromhex(_lit(e, 'bytes'))
            if len(b) != 21 or b[0] > 3:
                raise BadValue('key_hash bytes')
            return (KH_KINDS[b[0]], b[1:])
        if p == 'key':
            if 'string' in e:
                k = parse_key(e['string'])
            else:
                b = bytes.fromhex(_lit(e, 'bytes'))
                if not b or b[0] > 3:
                    raise BadValue('key bytes')
                k = (KEY_KINDS[b[0]], b[1:])
            if len(k[1]) != KEY_LEN[k[0]]:
                raise BadValue('key length')
            return k
        if p == 'signature':
            s = parse_sig(e['string']) if 'string' in e else bytes.fromhex(_lit(e, 'bytes'))
            if len(s) not in (64, 96):
                raise BadValue('signature length')
            return s
        if p == 'chain_id':
            c = b58.dec('Net', e['string']) if 'string' in e else bytes.fromhex(_lit(e, 'bytes'))
            if len(c) != 4:
                raise BadValue('chain id length')
            return c
        if p == 'lambda':
            if isinstance(e, list):
                return ('lam', json.dumps(e, sort_keys=True))
            if isinstance(e, dict) and e.get('prim') == 'Lambda_rec' and len(e.get('args', [])) == 1:
                return ('lamrec', json.dumps(e['args'][0], sort_keys=True))
            raise BadValue('lambda')
    except BadValue:
        raise
    except (KeyError, ValueError, TypeError, AttributeError, AssertionError) as ex:
        raise BadValue(str(ex))
    raise BadValue(f'no literal form for {t}')


def _lit(e, k):
    if not isinstance(e, dict) or k not in e or 'prim' in e:
        raise BadValue(f'{k} literal expected')
    return e[k]


def _prim0(e):
    if not isinstance(e, dict) or 'prim' not in e or e.get('args') or e.get('annots'):
        raise BadValue('nullary primitive expected')
    return e['prim']


def pack(t, v) -> bytes:
    return b'\x05' + mich.encode(v_to_micheline(t, v, 'optimized'))


def script_expr_hash(packed: bytes) -> str:
    return b58.enc('expr', hashlib.blake2b(packed, digest_size=32).digest())


def unpack(t, data: bytes):
    """Some value | None, as Michelson's UNPACK at type t (strict binary decoding + value well-formedness)."""
    if not data or data[0] != 5:
        return None
    try:
        e = mich.decode(data[1:])
        return ('Some', v_from_micheline(t, e))
    except (mich.DecodeError, BadValue):
        return None


# ---------------------------------------------------------------- canonical, hashable form of (type, value) for state hashing
def canon(t, v):
    return (t, v)


def v_str(t, v) -> str:
    """Human-readable rendering for samples and violation details."""
    try:
        return json.dumps(v_to_micheline(t, v), sort_keys=True)
    except Exception:
        return repr(v)


# ---------------------------------------------------------------- small value domains (collision-forcing)
H0 = bytes(20)
H1 = bytes([0] * 19 + [1])
HF = bytes([0xff] * 20)
HM = bytes(range(1, 21))


def domain(t, size: int = 3):
    """A small list of values of type t, ordered simplest first.  `size` bounds the number per base type."""
    p = t[0]
    if p == 'int':
        return [0, 1, -1, 2, -2][:max(size, 2)]
    if p == 'nat':
        return [0, 1, 2, 3][:max(size, 2)]
    if p == 'mutez':
        return [0, 1, 2, 2**62][:max(size, 2)]
    if p == 'timestamp':
        return [0, 1, -1, 100][:max(size, 2)]
    if p == 'string':
        return ['', 'a', 'B', 'ab'][:max(size, 2)]
    if p == 'bytes':
        return [b'', b'\x00', b'\xff', b'\x00\x01'][:max(size, 2)]
    if p == 'bool':
        return [False, True]
    if p == 'unit':
        return [()]
    if p == 'never':
        return []
    if p == 'chain_id':
        return [b'\x00\x00\x00\x00', b'\xff\xff\xff\xff', b'\x7a\x06\xa7\x70'][:max(size, 2)]
    if p == 'key_hash':
        return [('tz1', H0), ('tz2', H0), ('tz1', HF), ('tz3', H1), ('tz4', HM)][:max(size, 2)]
    if p == 'address':
        return [('tz1', H0, ''), ('KT1', H0, ''), ('tz2', HF, ''), ('KT1', H0, 'a'), ('sr1', H1, ''), ('tz1', H0, 'b')][:max(size + 1, 3)]
    if p == 'key':
        return [('edpk', bytes(32)), ('sppk', b'\x02' + bytes(32)), ('edpk', b'\xff' * 32), ('p2pk', b'\x02' + b'\x01' * 32)][:max(size, 2)]
    if p == 'signature':
        return [bytes(64), b'\xff' * 64, bytes(63) + b'\x01'][:max(size, 2)]
    if p == 'pair':
        return [(a, b) for a in domain(t[1], size) for b in domain(t[2], size)]
    if p == 'option':
        return [None] + [('Some', x) for x in domain(t[1], size)]
    if p == 'or':
        return [('L', x) for x in domain(t[1], size)] + [('R', x) for x in domain(t[2], size)]
    if p == 'list':
        d = domain(t[1], 2)
        out = [()]
        out += [(x,) for x in d[:2]]
        if len(d) >= 2:
            out.append((d[1], d[0]))
        return out
    if p == 'set':
        d = sorted_set(t[1], domain(t[1], 2)[:3])
        out = [()] + [(x,) for x in d[:2]]
        if len(d) >= 2:
            out.append(tuple(d[:2]))
        return out
    if p == 'map':
        ks = sorted_set(t[1], domain(t[1], 2)[:2])
        vs = domain(t[2], 2)[:2]
        out = [()]
        if ks and vs:
            out.append(((ks[0], vs[0]),))
            if len(ks) > 1:
                out.append(((ks[0], vs[-1]), (ks[1], vs[0])))
        return out
    if p == 'lambda':
        return []
    raise ValueError(f'no domain for {t}')


def selftest() -> int:
    n = 0
    # PACK vectors from the Tezos documentation / Octez test-suite (also used by the repo's opcode tests)
    vec = [
        (('int',), 1, '050001'), (('nat',), 0, '050000'), (('string',), 'foo', '050100000003666f6f'),
        (('unit',), (), '05030b'), (('bool',), True, '05030a'), (('option', ('nat',)), ('Some', 5), '0505090005'),
        (('pair', ('int',), ('int',)), (1, 2), '05070700010002'),
        (('pair', ('int',), ('pair', ('int',), ('int',))), (1, (2, 3)), '050707000107070002' + '0003'),
        (('pair', ('int',), ('pair', ('int',), ('pair', ('int',), ('int',)))), (1, (2, (3, 4))), '050200000008' + '0001000200030004'),
        (('list', ('int',)), (1, 2), '0502000000040001' + '0002'),
        (('key_hash',), ('tz1', H0), '050a00000015' + '00' + H0.hex()),
        (('address',), ('KT1', H0, ''), '050a00000016' + '01' + H0.hex() + '00'),
        (('address',), ('tz1', H0, 'ab'), '050a00000018' + '0000' + H0.hex() + '6162'),
    ]
    for t, v, h in vec:
        assert pack(t, v).hex() == h, (t, v, pack(t, v).hex(), h)
        assert unpack(t, bytes.fromhex(h)) == ('Some', v)
        n += 1
    # order laws on the domains
    for t in [('int',), ('string',), ('address',), ('key_hash',), ('key',), ('pair', ('int',), ('nat',)), ('option', ('int',)),
              ('or', ('int',), ('string',))]:
        d = domain(t, 4)
        for a in d:
            assert compare(t, a, a) == 0
            for b in d:
                assert compare(t, a, b) == -compare(t, b, a)
                n += 1
    assert compare(('pair', ('int',), ('int',)), (1, 5), (2, 3)) == -1
    assert compare(('address',), ('tz3', HF, ''), ('KT1', H0, '')) == -1
    assert compare(('address',), ('KT1', HF, 'z'), ('sr1', H0, '')) == -1
    assert compare(('option', ('int',)), None, ('Some', -5)) == -1
    assert unpack(('int',), bytes.fromhex('05008000')) is None
    assert unpack(('set', ('int',)), pack(('list', ('int',)), (2, 1))) is None
    return n
