"""Reference BIP-39 (plain Python, no pytezos): checksum validation and seed derivation.

The only thing taken from the third-party `mnemonic` package at run time is its *data file*
(wordlist/english.txt, the standard 2048-word list); the logic below is written from BIP-39:

  ENT bits of entropy (128..256, multiple of 32), CS = ENT/32 checksum bits = first CS bits of
  SHA-256(entropy); the ENT+CS bits are cut into 11-bit word indices  ->  MS = (ENT+CS)/11 words,
  MS in {12, 15, 18, 21, 24}.
  seed = PBKDF2-HMAC-SHA512(password = NFKD(mnemonic), salt = "mnemonic" + NFKD(passphrase), 2048 rounds, 64 bytes)

selftest() compares `is_valid` with `mnemonic.Mnemonic.check` over an enumerated set (every last word for
every valid length, every invalid length) and `to_seed` with the published Trezor vector.
"""
from __future__ import annotations

import hashlib
import os
import unicodedata

VALID_LENGTHS = (12, 15, 18, 21, 24)
_WORDS = None
_INDEX = None


def wordlist():
    global _WORDS, _INDEX
    if _WORDS is None:
        import importlib.util
        spec = importlib.util.find_spec('mnemonic')
        path = os.path.join(os.path.dirname(spec.origin), 'wordlist', 'english.txt')
        with open(path, encoding='utf-8') as f:
            words = [w.strip() for w in f.read().split('\n') if w.strip()]
        assert len(words) == 2048 and words == sorted(words) and len(set(words)) == 2048
        assert words[0] == 'abandon' and words[3] == 'about' and words[-1] == 'zoo'
        _WORDS = words
        _INDEX = {w: i for i, w in enumerate(words)}
    return _WORDS


def index(word: str):
    wordlist()
    return _INDEX.get(word)


def is_valid(words) -> bool:
    """words: list of str.  True iff length is a BIP-39 length, every word is known and the checksum matches."""
    wordlist()
    n = len(words)
    if n not in VALID_LENGTHS:
        return False
    acc = 0
    for w in words:
        i = _INDEX.get(w)
        if i is None:
            return False
        acc = (acc << 11) | i
    cs_bits = n // 3                      # (n*11) / 33
    ent_bits = n * 11 - cs_bits
    entropy = (acc >> cs_bits).to_bytes(ent_bits // 8, 'big')
    cs = acc & ((1 << cs_bits) - 1)
    want = hashlib.sha256(entropy).digest()[0] >> (8 - cs_bits)
    return cs == want


def from_entropy(entropy: bytes):
    """entropy -> list of words (used to build valid prefixes)."""
    wordlist()
    ent_bits = len(entropy) * 8
    assert ent_bits in (128, 160, 192, 224, 256)
    cs_bits = ent_bits // 32
    acc = (int.from_bytes(entropy, 'big') << cs_bits) | (hashlib.sha256(entropy).digest()[0] >> (8 - cs_bits))
    n = (ent_bits + cs_bits) // 11
    return [_WORDS[(acc >> (11 * (n - 1 - i))) & 2047] for i in range(n)]


def valid_last_words(prefix) -> int:
    """How many of the 2048 possible last words complete `prefix` (n-1 words) to a valid mnemonic: 2^(11-CS)."""
    n = len(prefix) + 1
    return 1 << (11 - n // 3)


def to_seed(mnemonic: str, passphrase: str = '') -> bytes:
    m = unicodedata.normalize('NFKD', mnemonic).encode('utf-8')
    s = ('mnemonic' + unicodedata.normalize('NFKD', passphrase)).encode('utf-8')
    return hashlib.pbkdf2_hmac('sha512', m, s, 2048, 64)


def selftest() -> int:
    from mnemonic import Mnemonic
    m = Mnemonic('english')
    words = wordlist()
    assert list(m.wordlist) == words
    n = 0
    # published vectors (trezor/python-mnemonic vectors.json)
    v1 = 'abandon abandon abandon abandon abandon abandon abandon abandon abandon abandon abandon about'
    assert is_valid(v1.split()) and from_entropy(bytes(16)) == v1.split()
    assert to_seed(v1, 'TREZOR').hex() == ('c55257c360c07c72029aebc1b53c05ed0362ada38ead3e3e9efa3708e5349553'
                                           '1f09a6987599d18264c1e1c92f2cf141630c7a3c4ab7c81b2f001698e7463b04')
    assert is_valid('legal winner thank year wave sausage worth useful legal winner thank yellow'.split())
    assert from_entropy(b'\x7f' * 16) == 'legal winner thank year wave sausage worth useful legal winner thank yellow'.split()
    assert is_valid('zoo zoo zoo zoo zoo zoo zoo zoo zoo zoo zoo wrong'.split())
    assert from_entropy(b'\xff' * 32)[-1] == 'vote'
    n += 6
    for ent in (16, 20, 24, 28, 32):
        for fill in (b'\x00', b'\xa5', b'\xff'):
            full = from_entropy(fill * ent)
            assert m.check(' '.join(full)) and is_valid(full)
            assert to_seed(' '.join(full), 'p@ss') == Mnemonic.to_seed(' '.join(full), 'p@ss')
            if fill != b'\xa5':
                n += 1
                continue
            prefix = full[:-1]
            ok = 0
            for w in words:
                mine = is_valid(prefix + [w])
                assert mine == m.check(' '.join(prefix + [w])), (prefix, w)
                ok += mine
                n += 1
            assert ok == valid_last_words(prefix), (len(full), ok)
    for ln in range(0, 27):
        cand = ['abandon'] * ln
        assert is_valid(cand) == (m.check(' '.join(cand)) if ln else False), ln
        n += 1
    assert not is_valid(['abandon'] * 11 + ['abouu'])
    assert not m.check(' '.join(['abandon'] * 11 + ['abouu']))
    return n + 1
