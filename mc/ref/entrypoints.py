"""Reference model of Tezos entrypoint semantics over plain Micheline type expressions (dicts).

No pytezos imports.  A parameter type is a Micheline JSON type expression; the *field annotation*
of a node is the single `%name` in its `annots`.

Tezos (script_ir_translator: list_entrypoints / find_entrypoint / well_formed_entrypoints):
  * the entrypoints of a parameter type are the nodes carrying a field annotation that are reachable
    from the root by descending through `or` nodes ONLY (both annotated inner `or` nodes and leaves);
    the root itself is an entrypoint under its own annotation if it has one;
  * names are unique (Duplicate_entrypoint otherwise);
  * `default` resolves to the root unless some node is annotated %default;
  * calling entrypoint e with argument a means: the full parameter is a wrapped in the Left/Right
    constructors that lead from the root to e's node;
  * a leaf is *unreachable* when no node on its path (root included) is annotated; a type that has a
    %default branch and an unreachable leaf is rejected by Tezos (Unreachable_entrypoint).
"""
from __future__ import annotations

import json
import os
from typing import Any, Dict, Iterator, List, Optional, Tuple


def field_annot(node: dict) -> Optional[str]:
    names = [a[1:] for a in node.get('annots', []) if a.startswith('%')]
    return names[0] if names else None


def strip_field_annot(node: dict) -> dict:
    """The node without its OWN field annotation (children untouched)."""
    out = {k: v for k, v in node.items() if k != 'annots'}
    rest = [a for a in node.get('annots', []) if not a.startswith('%')]
    if rest:
        out['annots'] = rest
    return out


def canon_type(node: Any) -> Any:
    """Key-order independent normal form of a type expression (empty annots/args dropped)."""
    if isinstance(node, list):
        return [canon_type(x) for x in node]
    if not isinstance(node, dict):
        return node
    out: Dict[str, Any] = {}
    for k in sorted(node):
        v = node[k]
        if k in ('annots', 'args') and not v:
            continue
        out[k] = canon_type(v) if k == 'args' else v
    # the node prints right combs flat: pair a (pair b c) == pair a b c when the inner pair is not annotated
    if out.get('prim') == 'pair' and out.get('args'):
        last = out['args'][-1]
        if isinstance(last, dict) and last.get('prim') == 'pair' and 'annots' not in last:
            out['args'] = out['args'][:-1] + last['args']
    return out


def iter_nodes(node: dict, path: str = '') -> Iterator[Tuple[str, dict]]:
    """All nodes reachable from `node` through `or` nodes only, root first (pre-order)."""
    yield path, node
    if node.get('prim') == 'or':
        for i, arg in enumerate(node['args']):
            yield from iter_nodes(arg, path + str(i))


def branches(type_expr: dict) -> List[Tuple[str, str, dict]]:
    """[(name, path, node)] for every annotated node below the root (root excluded), pre-order."""
    return [(field_annot(n), p, n) for p, n in iter_nodes(type_expr) if p and field_annot(n) is not None]


def all_names(type_expr: dict) -> List[str]:
    r = field_annot(type_expr)
    return ([r] if r is not None else []) + [name for name, _, _ in branches(type_expr)]


def has_duplicates(type_expr: dict) -> bool:
    names = all_names(type_expr)
    return len(set(names)) != len(names)


def unreachable_leaves(type_expr: dict) -> List[str]:
    """Paths of leaves (non-`or` nodes) with no annotated node on the way from the root (inclusive)."""
    out = []

    def walk(node, path, covered):
        covered = covered or field_annot(node) is not None
        if node.get('prim') == 'or':
            for i, arg in enumerate(node['args']):
                walk(arg, path + str(i), covered)
        elif not covered:
            out.append(path)

    walk(type_expr, '', False)
    return out


def well_formed(type_expr: dict) -> bool:
    """Would Tezos accept the entrypoint layout (no duplicates; no unreachable leaf when %default is a branch)."""
    if has_duplicates(type_expr):
        return False
    if any(name == 'default' for name, _, _ in branches(type_expr)) and field_annot(type_expr) is None \
            and unreachable_leaves(type_expr):
        return False
    return True


def listed(type_expr: dict) -> Dict[str, Tuple[str, dict]]:
    """Entrypoints Tezos lists: name -> (path, type of the node without its own field annotation).
    The root appears only if it is annotated (under that name)."""
    out: Dict[str, Tuple[str, dict]] = {}
    r = field_annot(type_expr)
    if r is not None:
        out[r] = ('', strip_field_annot(type_expr))
    for name, path, node in branches(type_expr):
        out[name] = (path, strip_field_annot(node))
    return out


def default_is_root(type_expr: dict) -> bool:
    return all(name != 'default' for name, _, _ in branches(type_expr))


def resolve(type_expr: dict, entrypoint: str) -> Optional[str]:
    """Path of the node that `entrypoint` addresses, '' for the root, None if Tezos has no such entrypoint."""
    ls = listed(type_expr)
    if entrypoint in ls:
        return ls[entrypoint][0]
    if entrypoint == 'default':
        return ''
    return None


def node_at(type_expr: dict, path: str) -> dict:
    node = type_expr
    for c in path:
        assert node.get('prim') == 'or', 'path leaves the union'
        node = node['args'][int(c)]
    return node


def wrap(path: str, value: Any) -> Any:
    """Full parameter value for argument `value` of the node at `path`."""
    for c in reversed(path):
        value = {'prim': 'Left' if c == '0' else 'Right', 'args': [value]}
    return value


def unwrap(path: str, full: Any) -> Optional[Any]:
    """Argument of the node at `path` inside the full value, None if the value takes another branch."""
    for c in path:
        if not isinstance(full, dict) or full.get('prim') != ('Left' if c == '0' else 'Right'):
            return None
        full = full['args'][0]
    return full


def value_path(type_expr: dict, full: Any) -> str:
    """Path from the root to the leaf (first non-`or` node) the full value selects."""
    path, node = '', type_expr
    while node.get('prim') == 'or':
        c = {'Left': '0', 'Right': '1'}[full['prim']]
        path += c
        node = node['args'][int(c)]
        full = full['args'][0]
    return path


def expressible(type_expr: dict, full: Any) -> bool:
    """Is there a Tezos (entrypoint, argument) pair that denotes the full value?"""
    if field_annot(type_expr) is not None or default_is_root(type_expr):
        return True
    vp = value_path(type_expr, full)
    return any(vp.startswith(p) for _, p, _ in branches(type_expr))


def denotes(type_expr: dict, entrypoint: str, arg: Any, full: Any, extra_root_names=()) -> bool:
    """Does (entrypoint, arg) denote `full`?  `extra_root_names`: library-chosen names for an
    unannotated root that do not collide with any Tezos name of the type."""
    path = resolve(type_expr, entrypoint)
    if path is None and entrypoint in extra_root_names:
        path = ''
    if path is None:
        return False
    return wrap(path, arg) == full


# ---------------------------------------------------------------------------------------------
def _contract_dirs() -> List[str]:
    root = os.path.join(os.environ.get('VERIF_REPO', '/repo'), 'tests', 'contract_tests')
    return sorted(os.path.join(root, d) for d in os.listdir(root)
                  if os.path.exists(os.path.join(root, d, '__entrypoints__.json')))


def _parameter_of(script: dict) -> dict:
    code = script['code']
    return next(s for s in code if s.get('prim') == 'parameter')['args'][0]


def selftest() -> int:
    """Ground truth: the node's own /entrypoints answers recorded for 20 mainnet contracts
    (tests/contract_tests/*/__entrypoints__.json) and the (entrypoint, value) pairs of the recorded
    mainnet transactions next to them."""
    n = 0
    dirs = _contract_dirs()
    assert len(dirs) >= 20, f'ground truth missing: {len(dirs)} contracts'
    for d in dirs:
        with open(os.path.join(d, '__script__.json')) as f:
            param = _parameter_of(json.load(f))
        with open(os.path.join(d, '__entrypoints__.json')) as f:
            rec = json.load(f)
        assert not rec.get('unreachable'), d
        mine = listed(param)
        assert set(mine) == set(rec['entrypoints']), (d, sorted(mine), sorted(rec['entrypoints']))
        assert well_formed(param), d
        for name, ty in rec['entrypoints'].items():
            assert canon_type(mine[name][1]) == canon_type(ty), (d, name, mine[name][1], ty)
            assert canon_type(strip_field_annot(node_at(param, mine[name][0]))) == canon_type(ty)
            n += 1
        for fn in sorted(os.listdir(d)):
            if not fn.endswith('.json') or fn.startswith('__'):
                continue
            with open(os.path.join(d, fn)) as f:
                op = json.load(f)
            p = op.get('parameters') if isinstance(op, dict) else None
            if not p:
                continue
            path = resolve(param, p['entrypoint'])
            assert path is not None, (d, fn, p['entrypoint'])
            full = wrap(path, p['value'])
            assert unwrap(path, full) == p['value'] and value_path(param, full).startswith(path), (d, fn)
            assert denotes(param, p['entrypoint'], p['value'], full) and expressible(param, full)
            n += 1
    # hand vectors for the rules the recorded contracts do not exercise
    I, S = {'prim': 'int'}, {'prim': 'string'}
    t = {'prim': 'or', 'args': [{'prim': 'or', 'annots': ['%a'], 'args': [I, S]},
                                 {'prim': 'pair', 'args': [{'prim': 'or', 'args': [dict(I, annots=['%z']), S]}, I]}]}
    assert set(listed(t)) == {'a'} and resolve(t, 'default') == '' and resolve(t, 'z') is None
    assert unreachable_leaves(t) == ['1'] and well_formed(t)
    l5 = {'prim': 'Left', 'args': [{'prim': 'Left', 'args': [{'int': '5'}]}]}
    assert denotes(t, 'a', {'prim': 'Left', 'args': [{'int': '5'}]}, l5) and denotes(t, 'default', l5, l5)
    assert not denotes(t, 'a', {'int': '5'}, l5)
    t2 = {'prim': 'or', 'args': [dict(I, annots=['%default']), S]}
    assert not default_is_root(t2) and resolve(t2, 'default') == '0' and not well_formed(t2)
    assert not expressible(t2, {'prim': 'Right', 'args': [{'string': 'x'}]})
    assert expressible(t2, {'prim': 'Left', 'args': [{'int': '1'}]})
    t3 = {'prim': 'or', 'annots': ['%r'], 'args': [dict(I, annots=['%r']), S]}
    assert has_duplicates(t3) and not well_formed(t3)
    return n + 9
