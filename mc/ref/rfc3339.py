"""Independent RFC 3339 date-time reader (plain Python, no pytezos, no datetime in the conversion).

`to_unix(s)` -> int seconds since 1970-01-01T00:00:00Z (fractions truncated toward -inf) or raises ValueError.
Strict grammar of RFC 3339 section 5.6: 4-digit year, 'T' (or 't' / ' '), 'Z' or +-hh:mm offset.
The civil-date conversion is the standard days-from-civil algorithm over the proleptic Gregorian calendar.
"""
import re

_RE = re.compile(r'^(\d{4})-(\d{2})-(\d{2})[Tt ](\d{2}):(\d{2}):(\d{2})(\.\d+)?([Zz]|[+-]\d{2}:\d{2})$')


def _days_from_civil(y: int, m: int, d: int) -> int:
    y -= m <= 2
    era = (y if y >= 0 else y - 399) // 400
    yoe = y - era * 400
    doy = (153 * (m + (-3 if m > 2 else 9)) + 2) // 5 + d - 1
    doe = yoe * 365 + yoe // 4 - yoe // 100 + doy
    return era * 146097 + doe - 719468


def _dim(y: int, m: int) -> int:
    if m == 2:
        return 29 if (y % 4 == 0 and (y % 100 != 0 or y % 400 == 0)) else 28
    return 30 if m in (4, 6, 9, 11) else 31


def to_unix(s: str) -> int:
    mt = _RE.match(s)
    if not mt:
        raise ValueError(f'not an RFC 3339 date-time: {s!r}')
    y, mo, d, h, mi, sec = (int(mt.group(i)) for i in range(1, 7))
    if not (1 <= mo <= 12 and 1 <= d <= _dim(y, mo) and h <= 23 and mi <= 59 and sec <= 60):
        raise ValueError(f'field out of range: {s!r}')
    off = 0
    z = mt.group(8)
    if z not in ('Z', 'z'):
        oh, om = int(z[1:3]), int(z[4:6])
        if oh > 23 or om > 59:
            raise ValueError(f'offset out of range: {s!r}')
        off = (oh * 60 + om) * 60 * (1 if z[0] == '+' else -1)
    return _days_from_civil(y, mo, d) * 86400 + h * 3600 + mi * 60 + sec - off


def selftest() -> int:
    vec = [('1970-01-01T00:00:00Z', 0), ('1969-12-31T23:59:59Z', -1), ('2018-06-30T16:07:32Z', 1530374852),
           ('9999-12-31T23:59:59Z', 253402300799), ('1000-01-01T00:00:00Z', -30610224000), ('0001-01-01T00:00:00Z', -62135596800),
           ('0000-01-01T00:00:00Z', -62167219200), ('2000-02-29T12:00:00+01:00', 951822000), ('2001-09-09T01:46:40Z', 1000000000),
           ('1970-01-01T00:00:00.999Z', 0), ('1970-01-01t00:00:00z', 0)]
    for s, t in vec:
        assert to_unix(s) == t, (s, to_unix(s), t)
    n = len(vec)
    for bad in ('999-12-31T23:59:59Z', '1-01-01T00:00:00Z', '10000-01-01T00:00:00Z', '1970-02-30T00:00:00Z', '1970-01-01T24:00:00Z',
                '1970-01-01 00:00:00', '1970-13-01T00:00:00Z', '', '0', '1970-01-01T00:00:00'):
        try:
            to_unix(bad)
        except ValueError:
            n += 1
            continue
        raise AssertionError('accepted ' + bad)
    # cross-check with the standard library over a spread of instants (datetime is independent of pytezos)
    from datetime import datetime, timedelta, timezone
    epoch = datetime(1970, 1, 1, tzinfo=timezone.utc)
    for k in range(-3000, 3000):
        t = k * 98765431 + 12345
        if not -62135596800 <= t <= 253402300799:
            continue
        dt = epoch + timedelta(seconds=t)
        s = f'{dt.year:04d}-{dt.month:02d}-{dt.day:02d}T{dt.hour:02d}:{dt.minute:02d}:{dt.second:02d}Z'
        assert to_unix(s) == t, (s, t)
        n += 1
    return n
