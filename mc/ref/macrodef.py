"""Meaning of the Michelson macros, evaluated directly on Python values (plain Python, no pytezos imports).

This is NOT a macro expander: every macro family is defined by its effect on a stack, as the Michelson reference
("Macros" chapter of the language documentation) specifies it:

  CMP<op>                 a : b : S  =>  (a <op> b) : S
  IF<op> bt bf            n : S      =>  bt / S  if n <op> 0  else  bf / S
  IFCMP<op> bt bf         a : b : S  =>  bt / S  if a <op> b  else  bf / S
  FAIL                    fails with Unit
  ASSERT                  True : S => S ; False : S => fails with Unit
  ASSERT_<op>, ASSERT_CMP<op>                     likewise on  n <op> 0  /  a <op> b
  ASSERT_NONE / ASSERT_SOME / ASSERT_LEFT / ASSERT_RIGHT      unwrap or fail with Unit
  D I^n P code            x1..xn : S =>  x1..xn : code(S)
  D U^n P                 x1..xn : S =>  xn : x1..xn : S
  P<tree>R                the leaves of the tree, read left to right, are the top stack elements top first;
                          the result is the nested pair of the same shape      (tree := P left right; left := A | tree; right := I | tree)
  UNP<tree>R              the inverse
  C[AD]+R                 follow the path (A = first component, D = second)
  SET_C[AD]+R             p : x : S  =>  p with the component at the path replaced by x : S
  MAP_C[AD]+R code        p : S      =>  p with the component c at the path replaced by c' : S'   where  code / c : S => c' : S'
  IF_SOME bt bf           None : S => bf / S ; Some v : S => bt / v : S
  IF_RIGHT bt bf          Right v : S => bt / v : S ; Left v : S => bf / v : S

Values: int, bool, () for Unit, 2-tuples for pairs, None | ('Some', v), ('L', v) | ('R', v).  Stacks: lists, top first.
Code arguments are Python functions stack -> stack (they may raise Failwith).
"""
from __future__ import annotations

import re

OPS = {
    'EQ': lambda c: c == 0, 'NEQ': lambda c: c != 0, 'LT': lambda c: c < 0,
    'GT': lambda c: c > 0, 'LE': lambda c: c <= 0, 'GE': lambda c: c >= 0,
}
_OP = '(EQ|NEQ|LT|GT|LE|GE)'


class Failwith(Exception):
    def __init__(self, value):
        super().__init__(value)
        self.value = value


class Undefined(Exception):
    """The stack does not have the shape the macro is defined on."""


def compare(a, b) -> int:
    return (a > b) - (a < b)


# --- PAIR trees ---------------------------------------------------------------------------------
def parse_tree(letters: str):
    """letters = the macro name without its final R, e.g. 'PAPPAII'.  -> shape or None.
    shape: 'x' for a leaf, (left, right) for a node."""
    def node(i):
        if i >= len(letters) or letters[i] != 'P':
            return None
        left = side(i + 1, 'A')
        if left is None:
            return None
        right = side(left[1], 'I')
        if right is None:
            return None
        return (left[0], right[0]), right[1]

    def side(i, leaf):
        if i < len(letters) and letters[i] == leaf:
            return 'x', i + 1
        return node(i)

    r = node(0)
    if r is None or r[1] != len(letters):
        return None
    return r[0]


def tree_name(shape) -> str:
    """Inverse of parse_tree (without the final R)."""
    def go(s, leaf):
        if s == 'x':
            return leaf
        return 'P' + go(s[0], 'A') + go(s[1], 'I')
    return go(shape, '?')


def shapes(n: int) -> list:
    """All binary tree shapes with n leaves (Catalan(n-1) of them), deterministic order."""
    if n == 1:
        return ['x']
    out = []
    for k in range(1, n):
        for left in shapes(k):
            for right in shapes(n - k):
                out.append((left, right))
    return out


def leaves(shape) -> int:
    return 1 if shape == 'x' else leaves(shape[0]) + leaves(shape[1])


def build(shape, stack: list):
    """Consume leaves(shape) elements from the top of the stack -> (value, rest)."""
    if shape == 'x':
        if not stack:
            raise Undefined()
        return stack[0], stack[1:]
    left, rest = build(shape[0], stack)
    right, rest = build(shape[1], rest)
    return (left, right), rest


def unbuild(shape, value) -> list:
    if shape == 'x':
        return [value]
    if not (isinstance(value, tuple) and len(value) == 2):
        raise Undefined()
    return unbuild(shape[0], value[0]) + unbuild(shape[1], value[1])


# --- paths ----------------------------------------------------------------------------------------
def get_path(v, path: str):
    for c in path:
        if not (isinstance(v, tuple) and len(v) == 2):
            raise Undefined()
        v = v[0] if c == 'A' else v[1]
    return v


def set_path(v, path: str, x):
    if not path:
        return x
    if not (isinstance(v, tuple) and len(v) == 2):
        raise Undefined()
    if path[0] == 'A':
        return (set_path(v[0], path[1:], x), v[1])
    return (v[0], set_path(v[1], path[1:], x))


# --- families ---------------------------------------------------------------------------------------
FAMILIES = [
    ('CMPx', re.compile(f'^CMP{_OP}$'), 0),
    ('IFx', re.compile(f'^IF{_OP}$'), 2),
    ('IFCMPx', re.compile(f'^IFCMP{_OP}$'), 2),
    ('FAIL', re.compile('^(FAIL)$'), 0),
    ('ASSERT', re.compile('^(ASSERT)$'), 0),
    ('ASSERT_x', re.compile(f'^ASSERT_{_OP}$'), 0),
    ('ASSERT_CMPx', re.compile(f'^ASSERT_CMP{_OP}$'), 0),
    ('ASSERT_NONE', re.compile('^(ASSERT_NONE)$'), 0),
    ('ASSERT_SOME', re.compile('^(ASSERT_SOME)$'), 0),
    ('ASSERT_LEFT', re.compile('^(ASSERT_LEFT)$'), 0),
    ('ASSERT_RIGHT', re.compile('^(ASSERT_RIGHT)$'), 0),
    ('DIIP', re.compile('^D(II+)P$'), 1),
    ('DUUP', re.compile('^D(UU+)P$'), 0),
    ('UNPAIR-tree', re.compile('^UN(P[PAI]+)R$'), 0),
    ('PAIR-tree', re.compile('^(P[PAI]+)R$'), 0),
    ('CxR', re.compile('^C([AD]{2,})R$'), 0),
    ('SET_CxR', re.compile('^SET_C([AD]+)R$'), 0),
    ('MAP_CxR', re.compile('^MAP_C([AD]+)R$'), 1),
    ('IF_SOME', re.compile('^(IF_SOME)$'), 2),
    ('IF_RIGHT', re.compile('^(IF_RIGHT)$'), 2),
]


def classify(name: str):
    """-> (family, parameter, number of code arguments) if the reference defines a macro of that name, else None.
    PAIR / UNPAIR themselves (two leaves) are instructions, not macros."""
    for fam, rx, nargs in FAMILIES:
        m = rx.match(name)
        if not m:
            continue
        g = m.group(1)
        if fam in ('PAIR-tree', 'UNPAIR-tree'):
            shape = parse_tree(g)
            if shape is None or leaves(shape) < 3:
                return None
            return fam, shape, nargs
        return fam, g, nargs
    return None


def _need(stack, n):
    if len(stack) < n:
        raise Undefined()


def apply(name: str, code: list, stack: list) -> list:
    """Effect of macro `name` with code arguments `code` (Python functions) on `stack` (top first).
    Raises Failwith(value) where the macro fails, Undefined where the stack is not of matching shape."""
    c = classify(name)
    if c is None:
        raise KeyError(name)
    fam, g, nargs = c
    if len(code) != nargs:
        raise Undefined()
    S = list(stack)
    if fam == 'CMPx':
        _need(S, 2)
        return [OPS[g](compare(S[0], S[1]))] + S[2:]
    if fam == 'IFx':
        _need(S, 1)
        return code[0 if OPS[g](S[0]) else 1](S[1:])
    if fam == 'IFCMPx':
        _need(S, 2)
        return code[0 if OPS[g](compare(S[0], S[1])) else 1](S[2:])
    if fam == 'FAIL':
        raise Failwith(())
    if fam == 'ASSERT':
        _need(S, 1)
        if S[0] is True:
            return S[1:]
        if S[0] is False:
            raise Failwith(())
        raise Undefined()
    if fam == 'ASSERT_x':
        _need(S, 1)
        if OPS[g](S[0]):
            return S[1:]
        raise Failwith(())
    if fam == 'ASSERT_CMPx':
        _need(S, 2)
        if OPS[g](compare(S[0], S[1])):
            return S[2:]
        raise Failwith(())
    if fam in ('ASSERT_NONE', 'ASSERT_SOME', 'IF_SOME'):
        _need(S, 1)
        v = S[0]
        if not (v is None or (isinstance(v, tuple) and v and v[0] == 'Some')):
            raise Undefined()
        if fam == 'ASSERT_NONE':
            if v is None:
                return S[1:]
            raise Failwith(())
        if fam == 'ASSERT_SOME':
            if v is None:
                raise Failwith(())
            return [v[1]] + S[1:]
        return code[1](S[1:]) if v is None else code[0]([v[1]] + S[1:])
    if fam in ('ASSERT_LEFT', 'ASSERT_RIGHT', 'IF_RIGHT'):
        _need(S, 1)
        v = S[0]
        if not (isinstance(v, tuple) and v and v[0] in ('L', 'R')):
            raise Undefined()
        if fam == 'IF_RIGHT':
            return code[0 if v[0] == 'R' else 1]([v[1]] + S[1:])
        if v[0] == ('L' if fam == 'ASSERT_LEFT' else 'R'):
            return [v[1]] + S[1:]
        raise Failwith(())
    if fam == 'DIIP':
        n = len(g)
        _need(S, n)
        return S[:n] + code[0](S[n:])
    if fam == 'DUUP':
        n = len(g)
        _need(S, n)
        return [S[n - 1]] + S
    if fam == 'PAIR-tree':
        v, rest = build(g, S)
        return [v] + rest
    if fam == 'UNPAIR-tree':
        _need(S, 1)
        return unbuild(g, S[0]) + S[1:]
    if fam == 'CxR':
        _need(S, 1)
        return [get_path(S[0], g)] + S[1:]
    if fam == 'SET_CxR':
        _need(S, 2)
        return [set_path(S[0], g, S[1])] + S[2:]
    if fam == 'MAP_CxR':
        _need(S, 1)
        out = code[0]([get_path(S[0], g)] + S[1:])
        _need(out, 1)
        return [set_path(S[0], g, out[0])] + out[1:]
    raise AssertionError(fam)


# --- conformance ------------------------------------------------------------------------------------
def _vectors(repo):
    """(file, storage, parameter[, result]) tuples of the two parameterized tests in test_macros.py, read with ast."""
    import ast
    import os
    src = open(os.path.join(repo, 'tests/unit_tests/test_michelson/test_repl/test_macros.py')).read()
    ok, bad = [], []
    for node in ast.walk(ast.parse(src)):
        if isinstance(node, ast.FunctionDef) and node.name in ('test_macros', 'test_failed_macros'):
            call = node.decorator_list[0]
            vecs = ast.literal_eval(call.args[0])
            (ok if node.name == 'test_macros' else bad).extend(vecs)
    return ok, bad


def _val(text: str):
    """Tiny reader for the literals used by those vectors: ints, Pair with n args, parentheses."""
    toks = re.findall(r'\(|\)|-?\d+|[A-Za-z]+', text)
    pos = 0

    def atom():
        nonlocal pos
        t = toks[pos]
        if t == '(':
            pos += 1
            v = app()
            assert toks[pos] == ')'
            pos += 1
            return v
        pos += 1
        if t == 'Unit':
            return ()
        return int(t)

    def app():
        nonlocal pos
        if toks[pos] == 'Pair':
            pos += 1
            items = []
            while pos < len(toks) and toks[pos] != ')':
                items.append(atom())
            v = items[-1]
            for x in reversed(items[:-1]):
                v = (x, v)
            return v
        return atom()

    return app()


def selftest() -> int:
    """Replays the Octez macro vectors recorded in tests/unit_tests/test_michelson/test_repl/test_macros.py:
    assert_<op>.tz / assert_cmp<op>.tz (pass and fail lists), assert.tz, fail.tz, set_caddaadr.tz, map_caddaadr.tz.
    The contracts reduce to one macro application on a stack that is read off the contract text
    (`CAR; DUP; CAR; DIP{CDR}` leaves a : b)."""
    import os
    repo = os.environ.get('VERIF_REPO', '/repo')
    ok, bad = _vectors(repo)
    n = 0

    def run(fn, param, storage):
        m = re.match(r'^assert_(cmp)?(eq|neq|lt|le|gt|ge)\.tz$', fn)
        if m:
            a, b = _val(param)
            if m.group(1):
                return apply('ASSERT_CMP' + m.group(2).upper(), [], [a, b])
            return apply('ASSERT_' + m.group(2).upper(), [], [compare(a, b)])
        if fn == 'assert.tz':
            return apply('ASSERT', [], [param == 'True'])
        if fn == 'fail.tz':
            return apply('FAIL', [], [])
        if fn == 'set_caddaadr.tz':
            return apply('SET_CADDAADR', [], [_val(storage), _val(param)])
        if fn == 'map_caddaadr.tz':
            out = apply('MAP_CDADDAADR', [lambda s: [s[0] + 1000000] + s[1:]], [((), _val(storage))])
            return [out[0][1]]
        return None

    for fn, storage, param, result in ok:
        try:
            out = run(fn, param, storage)
        except Failwith:
            raise AssertionError(f'{fn} {param}: reference fails, Octez vector succeeds')
        if out is None:
            continue
        if fn in ('set_caddaadr.tz', 'map_caddaadr.tz'):
            assert out == [_val(result)], (fn, out, result)
        n += 1
    for fn, storage, param in bad:
        try:
            out = run(fn, param, storage)
        except Failwith as e:
            assert e.value == ()
            n += 1
            continue
        assert out is None, f'{fn} {param}: reference succeeds, Octez vector fails'
    # internal consistency of the tree grammar
    for k in range(2, 8):
        for s in shapes(k):
            assert parse_tree(tree_name(s)) == s
            n += 1
    assert len(shapes(6)) == 42 and len(shapes(7)) == 132
    assert classify('PAAIR') is None and classify('PAIR') is None and classify('UNPAIR') is None
    assert classify('PAPAIR')[1] == ('x', ('x', 'x')) and classify('PPAIIR')[1] == (('x', 'x'), 'x')
    assert classify('CAR') is None and classify('CADR')[1] == 'AD' and classify('SET_CAR')[1] == 'A'
    assert n >= 40, n
    return n
