"""Reference model of a big_map: a dictionary layered over fixed on-chain contents (plain Python, no pytezos).

`Layered(chain, local)`:
  chain  -- dict key -> value : what the node serves (never changes during a run)
  local  -- dict key -> ('Some', value) | None : overrides and tombstones written during the run
Keys and values are reference-form values of mc.ref.mtypes (hashable).  The model is purely functional:
every operation returns (observation, new_model).

Operations (Michelson semantics of big_map instructions):
  get k                -> option value
  mem k                -> bool
  update k opt         -> no observation
  get_and_update k opt -> option value (the binding before the update)

`final()` is the dictionary a reader sees after the run; a lazy storage diff applied to `chain`
must give exactly this dictionary (`apply_diff`).
"""
from __future__ import annotations

import itertools


class Layered:
    __slots__ = ('chain', 'local')

    def __init__(self, chain, local=None):
        self.chain = dict(chain)
        self.local = dict(local or {})

    # ---- reads
    def get(self, k):
        if k in self.local:
            return self.local[k]
        if k in self.chain:
            return ('Some', self.chain[k])
        return None

    def mem(self, k) -> bool:
        return self.get(k) is not None

    # ---- writes
    def update(self, k, opt):
        """opt: None (remove) | ('Some', v)."""
        new = dict(self.local)
        if opt is None:
            if k in self.chain:
                new[k] = None            # tombstone over the on-chain binding
            else:
                new.pop(k, None)         # nothing underneath: forgetting the key is enough
        else:
            new[k] = opt
        return Layered(self.chain, new)

    def get_and_update(self, k, opt):
        return self.get(k), self.update(k, opt)

    def step(self, op):
        """op = (name, key[, opt]) -> (observation, new model); observation None for UPDATE."""
        name = op[0]
        if name == 'GET':
            return ('opt', self.get(op[1])), self
        if name == 'MEM':
            return ('bool', self.mem(op[1])), self
        if name == 'UPDATE':
            return None, self.update(op[1], op[2])
        if name == 'GET_AND_UPDATE':
            prev, m = self.get_and_update(op[1], op[2])
            return ('opt', prev), m
        raise ValueError(op)

    # ---- views
    def final(self) -> dict:
        out = dict(self.chain)
        for k, o in self.local.items():
            if o is None:
                out.pop(k, None)
            else:
                out[k] = o[1]
        return out

    def status(self, k) -> str:
        """Where the binding of k lives (used to classify failures)."""
        on_chain = k in self.chain
        if k in self.local:
            if self.local[k] is None:
                return 'removed-on-chain-key'
            return 'local-over-chain' if on_chain else 'local-only'
        return 'chain-only' if on_chain else 'absent'

    def canon(self):
        return tuple(sorted(((repr(k), repr(o)) for k, o in self.local.items())))


def apply_diff(base: dict, updates) -> dict:
    """Apply a list of (key, None | ('Some', value)) in order to a copy of `base` (Tezos: later entries win)."""
    out = dict(base)
    for k, o in updates:
        if o is None:
            out.pop(k, None)
        else:
            out[k] = o[1]
    return out


def selftest() -> int:
    """The layered model is observationally a plain dict initialised with the chain contents: exhaustive over all
    histories of length <= 3 on 2 keys x 2 values x every chain content."""
    n = 0
    K, V = ['a', 'b'], [0, 1]
    ops = [(nm, k) for nm in ('GET', 'MEM') for k in K] + \
          [(nm, k, o) for nm in ('UPDATE', 'GET_AND_UPDATE') for k in K for o in [None] + [('Some', v) for v in V]]
    chains = [dict(z for z in zip(K, vs) if z[1] is not None) for vs in itertools.product([None, 5, 0], repeat=len(K))]
    for chain in chains:
        for L in range(4):
            for hist in itertools.product(ops, repeat=L):
                m, d = Layered(chain), dict(chain)
                for op in hist:
                    obs, m = m.step(op)
                    k = op[1]
                    if op[0] == 'GET':
                        exp = ('opt', ('Some', d[k]) if k in d else None)
                    elif op[0] == 'MEM':
                        exp = ('bool', k in d)
                    else:
                        prev = ('Some', d[k]) if k in d else None
                        if op[2] is None:
                            d.pop(k, None)
                        else:
                            d[k] = op[2][1]
                        exp = None if op[0] == 'UPDATE' else ('opt', prev)
                    assert obs == exp, (chain, hist, op, obs, exp)
                    assert m.final() == d, (chain, hist)
                    assert apply_diff(chain, list(m.local.items())) == d
                n += 1
    assert Layered({'a': 1}).update('a', None).status('a') == 'removed-on-chain-key'
    assert Layered({}).update('a', ('Some', 1)).update('a', None).local == {}
    return n
