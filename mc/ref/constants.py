"""Reference for Tezos global constants (plain Python, no pytezos).

  expr_hash(e)      = Base58Check(prefix 0d2c401b, Blake2b-256(binary Micheline of e))   -- the `expr...` hash
  expand(e, table)  = e with every  {"prim": "constant", "args": [{"string": h}]}  replaced by expand(table[h]);
                      UnknownConstant if h is not a key of table.  Nothing else is touched.
Binary Micheline comes from mc.ref.micheline.encode, Base58Check/Blake2b from mc.ref.merkle.
"""
import ast
import os
import re

from mc.ref import merkle
from mc.ref import micheline


class UnknownConstant(Exception):
    pass


def hash_bytes(data: bytes) -> str:
    return merkle.b58check_encode('expr', merkle.H(data))


def expr_hash(expr) -> str:
    return hash_bytes(micheline.encode(expr))


def is_constant(node) -> bool:
    return isinstance(node, dict) and node.get('prim') == 'constant'


def expand(expr, table):
    if isinstance(expr, list):
        return [expand(x, table) for x in expr]
    if not isinstance(expr, dict):
        return expr
    if is_constant(expr):
        h = expr['args'][0]['string']
        if h not in table:
            raise UnknownConstant(h)
        return expand(table[h], table)
    if 'args' in expr:
        out = dict(expr)
        out['args'] = [expand(x, table) for x in expr['args']]
        return out
    return expr


def references(expr):
    """Hashes named by constant nodes, in document order (not following them)."""
    if isinstance(expr, list):
        for x in expr:
            yield from references(x)
    elif isinstance(expr, dict):
        if is_constant(expr):
            yield expr['args'][0]['string']
        else:
            for x in expr.get('args', []):
                yield from references(x)


def selftest() -> int:
    repo = os.environ.get('VERIF_REPO', '/repo')
    n = 0
    # 1. tests/unit_tests/test_michelson/test_repl/test_constants.py: three registered expressions, three hashes in the script
    path = os.path.join(repo, 'tests/unit_tests/test_michelson/test_repl/test_constants.py')
    with open(path) as f:
        text = f.read()
    tree = ast.parse(text)
    registered = []
    for node in ast.walk(tree):
        if isinstance(node, ast.Call) and getattr(node.func, 'attr', '') == 'register_global_constant':
            registered.append(ast.literal_eval(node.args[0]))
    in_script = re.findall(r'constant "(expr[1-9A-HJ-NP-Za-km-z]+)"', text)
    assert len(registered) == 3 and len(in_script) == 3, (registered, in_script)
    assert {expr_hash(e) for e in registered} == set(in_script)
    # the only datum ({"int": "12345"}) is the one pushed by `PUSH int (constant ...)`
    pushed = re.search(r'PUSH int \(constant "(expr\w+)"\)', text).group(1)
    assert expr_hash({'int': '12345'}) == pushed
    n += 3
    # 2. big-map key hashes in test_micheline.py are the same hash over 05 || binary Micheline
    path = os.path.join(repo, 'tests/unit_tests/test_michelson/test_micheline.py')
    with open(path) as f:
        text = f.read()
    for expr, want_re in (({'string': 'Game one!'}, r'\{"string": "Game one!"\}, \{"prim": "string"\}, "(expr\w+)"'),
                          ({'int': '505506'}, r'\{"int": "505506"\}, \{"prim": "int"\}, "(expr\w+)"')):
        want = re.search(want_re, text).group(1)
        assert hash_bytes(b'\x05' + micheline.encode(expr)) == want, (expr, want)
        n += 1
    # 3. expansion
    t = {'h1': {'prim': 'nat'}, 'h2': {'prim': 'pair', 'args': [{'prim': 'constant', 'args': [{'string': 'h1'}]}, {'prim': 'int'}]}}
    c = lambda h: {'prim': 'constant', 'args': [{'string': h}]}
    assert expand([c('h2'), {'int': '1'}], t) == [{'prim': 'pair', 'args': [{'prim': 'nat'}, {'prim': 'int'}]}, {'int': '1'}]
    assert list(references([c('h2'), {'prim': 'x', 'args': [c('h1')]}])) == ['h2', 'h1']
    try:
        expand(c('nope'), t)
        raise AssertionError('unknown constant expanded')
    except UnknownConstant:
        pass
    return n + 3
