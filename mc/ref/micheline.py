"""Reference binary Micheline: encoder, STRICT decoder, normaliser (plain Python, no pytezos).

Expressions use the JSON shape: {'int': '12'} | {'string': s} | {'bytes': hex} | [..] |
{'prim': p, 'args': [...], 'annots': [...]}.
"""
PRIMS = [
    'parameter', 'storage', 'code', 'False', 'Elt', 'Left', 'None', 'Pair', 'Right', 'Some', 'True', 'Unit',
    'PACK', 'UNPACK', 'BLAKE2B', 'SHA256', 'SHA512', 'ABS', 'ADD', 'AMOUNT', 'AND', 'BALANCE', 'CAR', 'CDR',
    'CHECK_SIGNATURE', 'COMPARE', 'CONCAT', 'CONS', 'CREATE_ACCOUNT', 'CREATE_CONTRACT', 'IMPLICIT_ACCOUNT', 'DIP',
    'DROP', 'DUP', 'EDIV', 'EMPTY_MAP', 'EMPTY_SET', 'EQ', 'EXEC', 'FAILWITH', 'GE', 'GET', 'GT', 'HASH_KEY', 'IF',
    'IF_CONS', 'IF_LEFT', 'IF_NONE', 'INT', 'LAMBDA', 'LE', 'LEFT', 'LOOP', 'LSL', 'LSR', 'LT', 'MAP', 'MEM', 'MUL',
    'NEG', 'NEQ', 'NIL', 'NONE', 'NOT', 'NOW', 'OR', 'PAIR', 'PUSH', 'RIGHT', 'SIZE', 'SOME', 'SOURCE', 'SENDER', 'SELF',
    'STEPS_TO_QUOTA', 'SUB', 'SWAP', 'TRANSFER_TOKENS', 'SET_DELEGATE', 'UNIT', 'UPDATE', 'XOR', 'ITER', 'LOOP_LEFT',
    'ADDRESS', 'CONTRACT', 'ISNAT', 'CAST', 'RENAME', 'bool', 'contract', 'int', 'key', 'key_hash', 'lambda', 'list',
    'map', 'big_map', 'nat', 'option', 'or', 'pair', 'set', 'signature', 'string', 'bytes', 'mutez', 'timestamp', 'unit',
    'operation', 'address', 'SLICE', 'DIG', 'DUG', 'EMPTY_BIG_MAP', 'APPLY', 'chain_id', 'CHAIN_ID', 'LEVEL',
    'SELF_ADDRESS', 'never', 'NEVER', 'UNPAIR', 'VOTING_POWER', 'TOTAL_VOTING_POWER', 'KECCAK', 'SHA3', 'PAIRING_CHECK',
    'bls12_381_g1', 'bls12_381_g2', 'bls12_381_fr', 'sapling_state', 'sapling_transaction_deprecated',
    'SAPLING_EMPTY_STATE', 'SAPLING_VERIFY_UPDATE', 'ticket', 'TICKET_DEPRECATED', 'READ_TICKET', 'SPLIT_TICKET',
    'JOIN_TICKETS', 'GET_AND_UPDATE', 'chest', 'chest_key', 'OPEN_CHEST', 'VIEW', 'view', 'constant', 'SUB_MUTEZ',
    'tx_rollup_l2_address', 'MIN_BLOCK_TIME', 'sapling_transaction', 'EMIT', 'Lambda_rec', 'LAMBDA_REC', 'TICKET',
    'BYTES', 'NAT', 'Ticket', 'IS_IMPLICIT_ACCOUNT',
]
TAG = {p: i for i, p in enumerate(PRIMS)}
# names under which an implementation may know deprecated primitives
ALIASES = {'__CREATE_ACCOUNT__': 'CREATE_ACCOUNT', '__STEPS_TO_QUOTA__': 'STEPS_TO_QUOTA'}



_CH = 10 ** 600


def int_of(s: str) -> int:
    """int(str) that does not depend on the interpreter's int<->str digit limit (a process-global setting)."""
    s = s.strip()
    neg = s.startswith('-')
    if s[:1] in '+-':
        s = s[1:]
    if not s.isdigit():
        raise ValueError(f'not an integer literal: {s[:40]!r}')
    n = 0
    for i in range(0, len(s), 600):
        chunk = s[i:i + 600]
        n = n * 10 ** len(chunk) + int(chunk)
    return -n if neg else n


def dec_of(n: int) -> str:
    """str(int) independent of the interpreter's digit limit."""
    if n < 0:
        return '-' + dec_of(-n)
    parts = []
    while n >= _CH:
        n, r = divmod(n, _CH)
        parts.append(str(r).zfill(600))
    parts.append(str(n))
    return ''.join(reversed(parts))

def enc_zint(v: int) -> bytes:
    a = abs(v)
    out = bytearray([(a & 0x3F) | (0x40 if v < 0 else 0)])
    a >>= 6
    while a:
        out[-1] |= 0x80
        out.append(a & 0x7F)
        a >>= 7
    return bytes(out)


def enc_nat(v: int) -> bytes:
    assert v >= 0
    out = bytearray([v & 0x7F])
    v >>= 7
    while v:
        out[-1] |= 0x80
        out.append(v & 0x7F)
        v >>= 7
    return bytes(out)


def _arr(b: bytes) -> bytes:
    return len(b).to_bytes(4, 'big') + b


def encode(e, zint=enc_zint) -> bytes:
    """`zint` may be replaced by a caller that wants a particular (e.g. non-minimal) integer spelling."""
    if isinstance(e, list):
        return b'\x02' + _arr(b''.join(encode(x, zint) for x in e))
    if 'int' in e:
        return b'\x00' + zint(int_of(e['int']))
    if 'string' in e:
        return b'\x01' + _arr(e['string'].encode())
    if 'bytes' in e:
        return b'\x0a' + _arr(bytes.fromhex(e['bytes']))
    args = e.get('args') or []
    annots = e.get('annots') or []
    tag = bytes([TAG[ALIASES.get(e['prim'], e['prim'])]])
    ann = _arr(' '.join(annots).encode())
    n = len(args)
    if n == 0:
        return (b'\x04' + tag + ann) if annots else (b'\x03' + tag)
    if n == 1:
        return (b'\x06' if annots else b'\x05') + tag + encode(args[0], zint) + (ann if annots else b'')
    if n == 2:
        return (b'\x08' if annots else b'\x07') + tag + encode(args[0], zint) + encode(args[1], zint) + (ann if annots else b'')
    return b'\x09' + tag + _arr(b''.join(encode(x, zint) for x in args)) + ann


class DecodeError(ValueError):
    """`kind` names the rule that rejected the input: truncated | overrun | nonminimal | negzero | unknown-prim |
    unknown-tag | utf8 | trailing."""

    def __init__(self, msg, kind=None):
        super().__init__(msg)
        self.kind = kind


def decode(data: bytes, lenient=False):
    """Strict decoder: rejects unknown tags / prim tags, inconsistent or truncated length prefixes,
    trailing bytes and non-minimal integers (a final group of zero bits).
    It also rejects two things the data-encoding layer of Octez is NOT known to reject (a zero with the sign bit
    set, and string/annotation bytes that are not UTF-8, which JSON Micheline cannot carry); `lenient=True` accepts
    the former and decodes the latter with errors='surrogateescape', so that a caller can tell "rejected only by
    these extra rules" (=> no verdict) from "rejected by a rule Tezos certainly has"."""
    pos = 0

    def need(n):
        if pos + n > len(data):
            raise DecodeError('truncated', 'truncated')

    def u8():
        nonlocal pos
        need(1)
        b = data[pos]
        pos += 1
        return b

    def arr():
        nonlocal pos
        need(4)
        n = int.from_bytes(data[pos:pos + 4], 'big')
        pos += 4
        need(n)
        b = data[pos:pos + n]
        pos += n
        return b

    def seq_of(n_end):
        out = []
        while pos < n_end:
            out.append(node())
        if pos != n_end:
            raise DecodeError('sequence overruns its length prefix', 'overrun')
        return out

    def seq():
        nonlocal pos
        need(4)
        n = int.from_bytes(data[pos:pos + 4], 'big')
        pos += 4
        need(n)
        return seq_of(pos + n)

    def zint():
        b = u8()
        neg = bool(b & 0x40)
        v = b & 0x3F
        shift = 6
        last = b
        first = True
        while last & 0x80:
            last = u8()
            first = False
            v |= (last & 0x7F) << shift
            shift += 7
        if not first and last == 0:
            raise DecodeError('non-minimal integer (trailing zero group)', 'nonminimal')
        if neg and v == 0 and not lenient:
            raise DecodeError('negative zero', 'negzero')
        return -v if neg else v

    def prim():
        t = u8()
        if t >= len(PRIMS):
            raise DecodeError(f'unknown primitive tag {t}', 'unknown-prim')
        return PRIMS[t]

    def annots_of(b):
        try:
            s = b.decode('utf-8', 'surrogateescape' if lenient else 'strict')
        except UnicodeDecodeError:
            raise DecodeError('annotation bytes', 'utf8')
        return s.split(' ') if s else []

    def node():
        t = u8()
        if t == 0:
            return {'int': dec_of(zint())}
        if t == 1:
            try:
                return {'string': arr().decode('utf-8', 'surrogateescape' if lenient else 'strict')}
            except UnicodeDecodeError:
                raise DecodeError('string bytes', 'utf8')
        if t == 2:
            return seq()
        if t == 0x0a:
            return {'bytes': arr().hex()}
        if 3 <= t <= 9:
            e = {'prim': prim()}
            if t in (5, 6):
                e['args'] = [node()]
            elif t in (7, 8):
                e['args'] = [node(), node()]
            elif t == 9:
                e['args'] = seq()
            if t in (4, 6, 8, 9):
                a = annots_of(arr())
                if a:
                    e['annots'] = a
            return e
        raise DecodeError(f'unknown tag {t}', 'unknown-tag')

    r = node()
    if pos != len(data):
        raise DecodeError('trailing bytes', 'trailing')
    return r


def normalize(e):
    """Integer spelling normalised, empty args/annots lists dropped, aliases resolved."""
    if isinstance(e, list):
        return [normalize(x) for x in e]
    if 'int' in e:
        return {'int': dec_of(int_of(e['int']))}
    if 'string' in e:
        return {'string': e['string']}
    if 'bytes' in e:
        return {'bytes': e['bytes'].lower()}
    out = {'prim': ALIASES.get(e['prim'], e['prim'])}
    if e.get('args'):
        out['args'] = [normalize(x) for x in e['args']]
    if e.get('annots'):
        out['annots'] = list(e['annots'])
    return out


def selftest() -> int:
    # Octez pack vectors (05 || binary Micheline) that appear as literals in the repo's opcode tests / docs
    v = [
        ({'int': '0'}, '0000'), ({'int': '-1'}, '0041'), ({'int': '64'}, '008001'), ({'int': '-64'}, '00c001'),
        ({'int': '1000000'}, '0080897a'),
        ({'string': 'foo'}, '0100000003666f6f'), ({'bytes': 'deadbeef'}, '0a00000004deadbeef'),
        ({'prim': 'Unit'}, '030b'), ({'prim': 'True'}, '030a'), ({'prim': 'None'}, '0306'),
        ({'prim': 'Pair', 'args': [{'int': '1'}, {'int': '2'}]}, '070700010002'),
        ({'prim': 'Some', 'args': [{'prim': 'Unit'}]}, '0509030b'),
        ([{'int': '1'}], '02000000020001'),
        ({'prim': 'pair', 'args': [{'prim': 'int'}, {'prim': 'nat'}], 'annots': ['%a']}, '0865035b036200000002' + b'%a'.hex()),
        ({'prim': 'Pair', 'args': [{'int': '1'}, {'int': '2'}, {'int': '3'}]}, '090700000006000100020003' + '00000000'),
        ({'prim': 'LAMBDA', 'args': [{'prim': 'unit'}, {'prim': 'unit'}, []]}, '0931000000090' + '36c036c0200000000' + '00000000'),
    ]
    for e, h in v:
        assert encode(e).hex() == h, (e, encode(e).hex(), h)
        assert decode(bytes.fromhex(h)) == normalize(e)
    assert TAG['IS_IMPLICIT_ACCOUNT'] == 0x9e and TAG['Ticket'] == 0x9d and TAG['constant'] == 0x92 and TAG['pair'] == 0x65
    for bad in ('008000', '0040', '0100000004666f6f', '030b00', '0b', '03ff', '0200000003000100'):
        try:
            decode(bytes.fromhex(bad))
        except DecodeError:
            continue
        raise AssertionError('strict decoder accepted ' + bad)
    n = len(v) + 7
    # Octez vector of tests/unit_tests/test_michelson/test_repl/test_opcodes.py (packunpack.tz): the first literal
    # unpacks on Octez, the second (same bytes + 0004) is expected to fail there (trailing bytes)
    toto = {'prim': 'Pair', 'args': [{'prim': 'Pair', 'args': [{'string': 'toto'}, [{'int': '3'}, {'int': '7'}, {'int': '9'}, {'int': '1'}]]},
                                     [{'int': '1'}, {'int': '2'}, {'int': '3'}]]}
    h = '070707070100000004746f746f020000000800030007000900010200000006000100020003'
    assert encode(toto).hex() == h and decode(bytes.fromhex(h)) == toto
    try:
        decode(bytes.fromhex(h + '0004'))
        raise AssertionError('trailing bytes accepted')
    except DecodeError as e:
        assert e.kind == 'trailing'
    n += 2
    # lenient mode differs from strict mode only on the two extra rules
    assert decode(bytes.fromhex('0040'), lenient=True) == {'int': '0'}
    assert decode(bytes.fromhex('0100000001ff'), lenient=True) == {'string': '\udcff'}
    n += 2
    # code and storage of the recorded mainnet contracts: encode -> decode -> encode is the identity
    import glob
    import json
    import os
    repo = os.environ.get('VERIF_REPO', '/repo')
    for path in sorted(glob.glob(os.path.join(repo, 'tests/contract_tests/*/__script__.json'))):
        with open(path) as f:
            script = json.load(f)
        for part in ('code', 'storage'):
            e = script[part]
            b = encode(e)
            assert decode(b) == normalize(e), path
            assert encode(decode(b)) == b, path
            n += 1
    return n
