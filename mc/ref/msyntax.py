"""Sort grammar of Michelson over Micheline (plain Python, no pytezos imports).

Answers one question for C18: does a Micheline expression *denote Michelson code, a type or data*?
It is a purely syntactic recogniser -- primitive classes, arities and the sort of every argument
(type / data / instruction sequence / int literal / string literal / script) -- not a type checker.

    root_sort(expr) -> 'type' | 'data' | 'instr' | 'code' | 'script' | None

None means "outside the statement" (ill-sorted application, annotated data constructor, a primitive that
is not Michelson such as the TZT/REPL keywords, a one-section script ...): C18 gives such expressions no verdict.
"""
from __future__ import annotations

import re

# --- primitive classes --------------------------------------------------------------------------
TYPES0 = ['bool', 'int', 'key', 'key_hash', 'nat', 'signature', 'string', 'bytes', 'mutez', 'timestamp', 'unit',
          'operation', 'address', 'chain_id', 'never', 'bls12_381_g1', 'bls12_381_g2', 'bls12_381_fr',
          'chest', 'chest_key', 'tx_rollup_l2_address']
TYPES_N = {'contract': 1, 'list': 1, 'option': 1, 'set': 1, 'ticket': 1, 'lambda': 2, 'map': 2, 'big_map': 2, 'or': 2}
TYPES_PAIR = 'pair'                                        # 2 or more type arguments
TYPES_INT = ['sapling_state', 'sapling_transaction', 'sapling_transaction_deprecated']   # one int literal

DATA0 = ['False', 'None', 'True', 'Unit']
DATA1 = ['Left', 'Right', 'Some']
# 'Pair' (>= 2 data), 'Elt' (2 data, only as a sequence element), 'Lambda_rec' (one code sequence),
# 'Ticket' (ticketer, content type, content, amount)

# instruction -> admissible argument signatures; T type, D data, C code sequence, N int literal, S string literal,
# X script (sequence of sections)
I0 = ['PACK', 'BLAKE2B', 'SHA256', 'SHA512', 'ABS', 'ADD', 'AMOUNT', 'AND', 'BALANCE', 'CAR', 'CDR', 'CHECK_SIGNATURE',
      'COMPARE', 'CONCAT', 'CONS', 'IMPLICIT_ACCOUNT', 'DROP', 'DUP', 'EDIV', 'EQ', 'EXEC', 'FAILWITH', 'GE', 'GET', 'GT',
      'HASH_KEY', 'INT', 'LE', 'LSL', 'LSR', 'LT', 'MEM', 'MUL', 'NEG', 'NEQ', 'NOT', 'NOW', 'OR', 'PAIR', 'SIZE', 'SOME',
      'SOURCE', 'SENDER', 'SELF', 'STEPS_TO_QUOTA', 'SUB', 'SWAP', 'TRANSFER_TOKENS', 'SET_DELEGATE', 'UNIT', 'UPDATE',
      'XOR', 'ADDRESS', 'ISNAT', 'RENAME', 'SLICE', 'APPLY', 'CHAIN_ID', 'LEVEL', 'SELF_ADDRESS', 'NEVER', 'UNPAIR',
      'VOTING_POWER', 'TOTAL_VOTING_POWER', 'KECCAK', 'SHA3', 'PAIRING_CHECK', 'SAPLING_VERIFY_UPDATE',
      'TICKET_DEPRECATED', 'READ_TICKET', 'SPLIT_TICKET', 'JOIN_TICKETS', 'GET_AND_UPDATE', 'OPEN_CHEST', 'SUB_MUTEZ',
      'MIN_BLOCK_TIME', 'TICKET', 'BYTES', 'NAT', 'IS_IMPLICIT_ACCOUNT', 'EMIT']
INSTR: dict[str, list[str]] = {p: [''] for p in I0}
for _p in ['DROP', 'DUP', 'GET', 'UPDATE', 'PAIR', 'UNPAIR']:
    INSTR[_p].append('N')
INSTR.update({
    'DIG': ['N'], 'DUG': ['N'], 'SAPLING_EMPTY_STATE': ['N'],
    'UNPACK': ['T'], 'EMPTY_SET': ['T'], 'NIL': ['T'], 'NONE': ['T'], 'LEFT': ['T'], 'RIGHT': ['T'], 'CONTRACT': ['T'],
    'CAST': ['T'], 'EMIT': ['', 'T'],
    'EMPTY_MAP': ['TT'], 'EMPTY_BIG_MAP': ['TT'],
    'PUSH': ['TD'], 'LAMBDA': ['TTC'], 'LAMBDA_REC': ['TTC'],
    'DIP': ['C', 'NC'], 'LOOP': ['C'], 'LOOP_LEFT': ['C'], 'ITER': ['C'], 'MAP': ['C'],
    'IF': ['CC'], 'IF_CONS': ['CC'], 'IF_LEFT': ['CC'], 'IF_NONE': ['CC'],
    'CREATE_CONTRACT': ['X'], 'VIEW': ['ST'],
})
SECTIONS = {'parameter': 'T', 'storage': 'T', 'code': 'C', 'view': 'STTC'}
CONSTANT = 'constant'     # `constant "expr..."` may stand for any type, datum or instruction

# primitives of pytezos' tag table that are not Michelson code/type/data: TZT unit-test keywords, REPL helper
# pseudo-instructions, and the placeholder of the removed CREATE_ACCOUNT (whose name is not even a Michelson token)
OUTSIDE = ['Stack_elt', 'Big_map', 'input', 'output', 'sender', 'amount', 'balance', 'self', 'now', 'source', 'big_maps',
           'DUMP', 'PRINT', 'DEBUG', 'DROP_ALL', 'BEGIN', 'COMMIT', 'RUN', 'EXPAND', 'PATCH', 'RESET', 'BIG_MAP_DIFF',
           '__CREATE_ACCOUNT__']

TYPE_PRIMS = TYPES0 + list(TYPES_N) + [TYPES_PAIR] + TYPES_INT
DATA_PRIMS = DATA0 + DATA1 + ['Pair', 'Elt', 'Lambda_rec', 'Ticket']
INSTR_PRIMS = list(INSTR)
ALL_CLASSIFIED = TYPE_PRIMS + DATA_PRIMS + INSTR_PRIMS + list(SECTIONS) + [CONSTANT] + OUTSIDE

# annotation syntax of the Michelson reference: @%|@%%|%@|[@:%][_0-9a-zA-Z][_0-9a-zA-Z\.%@]*  (and the empty ones)
ANNOT_RE = re.compile(r'^(@%|@%%|%@|[@:%]([_0-9a-zA-Z][_0-9a-zA-Z.%@]*)?)$')
INT_RE = re.compile(r'^(0|-?[1-9][0-9]*)$')
HEX_RE = re.compile(r'^([0-9a-fA-F]{2})*$')


def _annots_ok(node: dict) -> bool:
    if 'annots' not in node:
        return True
    a = node['annots']
    return isinstance(a, list) and len(a) > 0 and all(isinstance(x, str) and ANNOT_RE.match(x) for x in a)


def _keys_ok(node: dict) -> bool:
    return set(node) <= {'prim', 'args', 'annots'} and ('args' not in node or (isinstance(node['args'], list) and node['args']))


def printable(s: str) -> bool:
    return all(0x20 <= ord(c) <= 0x7e or c == '\n' for c in s)


def is_int(e) -> bool:
    return isinstance(e, dict) and set(e) == {'int'} and isinstance(e['int'], str) and bool(INT_RE.match(e['int']))


def is_string(e) -> bool:
    return isinstance(e, dict) and set(e) == {'string'} and isinstance(e['string'], str) and printable(e['string'])


def is_bytes(e) -> bool:
    return isinstance(e, dict) and set(e) == {'bytes'} and isinstance(e['bytes'], str) and bool(HEX_RE.match(e['bytes']))


def is_constant(e) -> bool:
    return (isinstance(e, dict) and e.get('prim') == CONSTANT and set(e) == {'prim', 'args'}
            and len(e['args']) == 1 and is_string(e['args'][0]))


def _prim(e):
    if isinstance(e, dict) and isinstance(e.get('prim'), str) and _keys_ok(e):
        return e['prim'], e.get('args', [])
    return None, None


def is_type(e) -> bool:
    if is_constant(e):
        return True
    p, args = _prim(e)
    if p is None or not _annots_ok(e):
        return False
    if p in TYPES0:
        return not args
    if p in TYPES_N:
        return len(args) == TYPES_N[p] and all(is_type(a) for a in args)
    if p == TYPES_PAIR:
        return len(args) >= 2 and all(is_type(a) for a in args)
    if p in TYPES_INT:
        return len(args) == 1 and is_int(args[0]) and not args[0]['int'].startswith('-')
    return False


def is_elt(e) -> bool:
    p, args = _prim(e)
    return p == 'Elt' and 'annots' not in e and len(args) == 2 and all(is_data(a) for a in args)


def is_data(e) -> bool:
    if is_int(e) or is_string(e) or is_bytes(e) or is_constant(e):
        return True
    if isinstance(e, list):
        return all(is_data(x) for x in e) or all(is_elt(x) for x in e) or is_code(e)
    p, args = _prim(e)
    if p is None or 'annots' in e:          # Michelson rejects annotations on data constructors
        return False
    if p in DATA0:
        return not args
    if p in DATA1:
        return len(args) == 1 and is_data(args[0])
    if p == 'Pair':
        return len(args) >= 2 and all(is_data(a) for a in args)
    if p == 'Lambda_rec':
        return len(args) == 1 and is_code(args[0])
    if p == 'Ticket':
        return len(args) == 4 and is_data(args[0]) and is_type(args[1]) and is_data(args[2]) and is_data(args[3])
    return False


def _arg_ok(sort: str, a) -> bool:
    if sort == 'T':
        return is_type(a)
    if sort == 'D':
        return is_data(a)
    if sort == 'C':
        return is_code(a)
    if sort == 'N':
        return is_int(a) and not a['int'].startswith('-')
    if sort == 'S':
        return is_string(a)
    if sort == 'X':
        return is_script(a)
    raise AssertionError(sort)


def is_instr(e) -> bool:
    """One instruction: a primitive application, a nested sequence, or a global constant."""
    if isinstance(e, list):
        return is_code(e)
    if is_constant(e):
        return True
    p, args = _prim(e)
    if p is None or p not in INSTR or not _annots_ok(e):
        return False
    return any(len(sig) == len(args) and all(_arg_ok(s, a) for s, a in zip(sig, args)) for sig in INSTR[p])


def is_code(e) -> bool:
    return isinstance(e, list) and all(is_instr(x) for x in e)


def is_section(e) -> bool:
    p, args = _prim(e)
    if p not in SECTIONS or 'annots' in e:
        return False
    sig = SECTIONS[p]
    return len(sig) == len(args) and all(_arg_ok(s, a) for s, a in zip(sig, args))


def is_script(e) -> bool:
    """parameter, storage and code exactly once each (any order) plus any number of views."""
    if not isinstance(e, list) or not all(is_section(x) for x in e):
        return False
    names = [x['prim'] for x in e]
    return all(names.count(s) == 1 for s in ('parameter', 'storage', 'code'))


def root_sort(e):
    """Sort under which the whole expression denotes Michelson, or None.  Order matters only for the label:
    an empty sequence is labelled 'code', a literal 'data'."""
    if is_type(e) and not is_constant(e):
        return 'type'
    if isinstance(e, list):
        if is_script(e):
            return 'script'
        if is_code(e):
            return 'code'
        if is_data(e):
            return 'data'
        return None
    if is_constant(e):
        return 'constant'
    if is_instr(e):
        return 'instr'
    if is_data(e):
        return 'data'
    return None


# --- conformance --------------------------------------------------------------------------------
def _read_prim_tags(repo: str) -> list[str]:
    import ast
    import os
    src = open(os.path.join(repo, 'src/pytezos/michelson/tags.py')).read()
    for node in ast.parse(src).body:
        if isinstance(node, ast.Assign) and getattr(node.targets[0], 'id', None) == 'prim_tags':
            return [k.value for k in node.value.keys]  # type: ignore
    raise AssertionError('prim_tags not found')


def selftest() -> int:
    """(1) every primitive of the repository's tag table is classified exactly once here, and nothing else is;
    (2) the code of the 20 recorded mainnet contracts is a script and their storage is data under this grammar --
    i.e. the recogniser does not reject real Michelson."""
    import glob
    import json
    import os
    repo = os.environ.get('VERIF_REPO', '/repo')
    tags = _read_prim_tags(repo)
    assert sorted(tags) == sorted(ALL_CLASSIFIED), (sorted(set(tags) ^ set(ALL_CLASSIFIED)),
                                                    [p for p in ALL_CLASSIFIED if ALL_CLASSIFIED.count(p) > 1])
    n = len(tags)
    files = sorted(glob.glob(repo + '/tests/contract_tests/*/__script__.json'))
    assert len(files) >= 20, len(files)
    for f in files:
        d = json.load(open(f))
        assert root_sort(d['code']) == 'script', f
        assert is_data(d['storage']), f
        n += 2
    # a few negative vectors: what the statement does not cover
    for bad in [[{'prim': 'parameter', 'args': [{'prim': 'unit'}]}],
                {'prim': 'Pair', 'annots': ['%a'], 'args': [{'int': '1'}, {'int': '2'}]},
                {'prim': 'int', 'args': [{'prim': 'nat'}]},
                {'prim': 'Some', 'args': [{'prim': 'DROP'}]},
                {'prim': 'DIP', 'args': [{'prim': 'DROP'}]},
                {'prim': 'Stack_elt', 'args': [{'prim': 'int'}, {'int': '1'}]},
                {'prim': 'int', 'annots': ['%%']},
                {'int': '-0'}, {'string': 'café'}]:
        assert root_sort(bad) is None, bad
        n += 1
    for good, s in [({'prim': 'int', 'annots': ['%a%b']}, 'type'), ([], 'code'), ({'int': '-1'}, 'data'),
                    ([{'prim': 'Elt', 'args': [{'int': '1'}, {'int': '2'}]}], 'data'),
                    ({'prim': 'DROP'}, 'instr'), ({'prim': 'constant', 'args': [{'string': 'x'}]}, 'constant')]:
        assert root_sort(good) == s, good
        n += 1
    return n
