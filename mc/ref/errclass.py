"""Reference for C27: which registered key decides the class of a node error.

Plain Python, no pytezos imports.  The statement, verbatim:
  matches are tried on (1) the full identifier, (2) the identifier without its protocol prefix
  (`proto.<P>.`), (3) its final component, (4) its category; generic error when nothing matches.

What the statement does not pin down is *which* component is "the category" once the de-prefixed
identifier has more than two components (`contract.manager.unregistered_delegate`: `contract` or
`manager`?).  `readings()` therefore returns every admissible reading; a caller judges a case only
if all readings give the same answer.
"""
from __future__ import annotations

import ast
import os

KINDS = ('full', 'deprefixed', 'final', 'category')
GENERIC = 'generic'


def split_prefix(error_id: str):
    """-> (has_protocol_prefix, components without the prefix)"""
    chunks = error_id.split('.')
    if len(chunks) >= 3 and chunks[0] == 'proto':
        return True, chunks[2:]
    return False, chunks


def readings(error_id: str):
    """-> list of readings; a reading is the ordered list [(kind, key), ...] of lookups the statement prescribes."""
    has_prefix, rest = split_prefix(error_id)
    base = [('full', error_id)]
    if has_prefix:
        base.append(('deprefixed', '.'.join(rest)))
    if len(rest) >= 2:
        base.append(('final', rest[-1]))
    if len(rest) < 2:
        return [base]                     # a bare name has no category
    if len(rest) == 2:
        return [base + [('category', rest[0])]]
    # three or more components: first component, the one before the name, or the whole dotted path before the name
    cats = []
    for c in (rest[0], rest[-2], '.'.join(rest[:-1])):
        if c not in cats:
            cats.append(c)
    return [base + [('category', c)] for c in cats]


def lookup(keys, registry: dict):
    """First registered key in order -> (kind, key, value); (GENERIC, None, None) when nothing matches."""
    for kind, key in keys:
        if key in registry:
            return kind, key, registry[key]
    return GENERIC, None, None


def expected(error_ids, registry: dict):
    """Error list (identifiers, last = innermost) -> set of admissible (kind, value) answers, one per reading."""
    if not error_ids:
        return {(GENERIC, None)}
    out = set()
    for keys in readings(error_ids[-1]):
        kind, _, val = lookup(keys, registry)
        out.add((kind, val))
    return out


def order_sensitive(error_id: str, registry: dict) -> bool:
    """True when at least two candidate keys of the identifier are registered to different values (so order matters)."""
    vals = set()
    for keys in readings(error_id):
        for _, key in keys:
            if key in registry:
                vals.add(registry[key])
    return len(vals) >= 2


# --- node errors delivered inside an operation group (receipt) -------------------------------------------------------
# A rejected group carries its node errors on the results of its operations: the result of every content followed by
# the results of that content's internal operations, in the order of the receipt.  `slots` is that flattened sequence of
# (status, error identifiers | None).  What the statement does not pin down is whether errors attached to a result
# whose encoding has no error field ("skipped") belong to the list, hence two readings; "applied" results carry none.
ERROR_STATUSES_STRICT = ('failed', 'backtracked')


def group_error_lists(slots):
    """-> admissible readings (deduplicated) of the list of node errors of a group, outermost first."""
    every = [i for status, ids in slots if status != 'applied' for i in (ids or [])]
    strict = [i for status, ids in slots if status in ERROR_STATUSES_STRICT for i in (ids or [])]
    return [every] if every == strict else [every, strict]


def expected_group(slots, registry: dict):
    """-> set of admissible (kind, value) answers for the exception raised for a rejected group."""
    out = set()
    for ids in group_error_lists(slots):
        out |= expected(ids, registry)
    return out


def shipped_registry(repo: str | None = None) -> dict:
    """error_id -> class name, read from rpc/errors.py with ast (not imported)."""
    repo = repo or os.environ.get('VERIF_REPO', '/repo')
    with open(os.path.join(repo, 'src', 'pytezos', 'rpc', 'errors.py')) as f:
        tree = ast.parse(f.read())
    reg = {}
    for node in tree.body:
        if isinstance(node, ast.ClassDef):
            for kw in node.keywords:
                if kw.arg == 'error_id':
                    v = ast.literal_eval(kw.value)
                    for eid in (v if isinstance(v, list) else [v]):
                        reg[eid] = node.name
    return reg


def selftest() -> int:
    n = 0
    # the statement's order, spelled out on the identifier named in the property's rationale
    assert readings('proto.alpha.michelson_v1.script_rejected') == [[
        ('full', 'proto.alpha.michelson_v1.script_rejected'), ('deprefixed', 'michelson_v1.script_rejected'),
        ('final', 'script_rejected'), ('category', 'michelson_v1')]]; n += 1
    assert readings('michelson_v1.script_rejected') == [[
        ('full', 'michelson_v1.script_rejected'), ('final', 'script_rejected'), ('category', 'michelson_v1')]]; n += 1
    assert readings('script_rejected') == [[('full', 'script_rejected')]]; n += 1
    assert readings('proto.alpha.script_rejected') == [[
        ('full', 'proto.alpha.script_rejected'), ('deprefixed', 'script_rejected')]]; n += 1
    assert len(readings('proto.alpha.contract.manager.unregistered_delegate')) == 3; n += 1
    assert expected([], {'x': 1}) == {(GENERIC, None)}; n += 1
    # ground truth in the repository: the registry of rpc/errors.py and the property's rationale
    # ("FAILWITH errors are to be raised as the script-rejected class, not the generic Michelson error")
    reg = shipped_registry()
    assert reg.get('script_rejected') == 'MichelsonScriptRejected' and reg.get('michelson_v1') == 'MichelsonError', reg
    for p in ('alpha', '016-PtMumbai'):
        assert expected([f'proto.{p}.michelson_v1.script_rejected'], reg) == {('final', 'MichelsonScriptRejected')}; n += 1
        assert expected([f'proto.{p}.michelson_v1.bad_contract_parameter'], reg) == \
            {('deprefixed', 'MichelsonBadContractParameter')}; n += 1
        assert expected([f'proto.{p}.michelson_v1.runtime_error'], reg) == {('category', 'MichelsonError')}; n += 1
        assert expected([f'proto.{p}.tez.subtraction_underflow'], reg) == {('category', 'TezArithmeticError')}; n += 1
        assert expected([f'proto.{p}.contract.balance_too_low'], reg) == {(GENERIC, None)}; n += 1
        assert expected(['x.y', f'proto.{p}.michelson_v1.bad_return'], reg) == {('deprefixed', 'MichelsonBadReturn')}; n += 1
    # depth: the final component is the last one and the category never lies left of the de-prefixed identifier
    for eid in ('a.b.c.d.michelson_v1.script_rejected', 'proto.alpha.a.b.c.michelson_v1.script_rejected'):
        assert expected([eid], reg) == {('final', 'MichelsonScriptRejected')}, eid; n += 1
    assert expected(['proto.alpha.a.b.c.tez.subtraction_underflow'], reg) == \
        {('category', 'TezArithmeticError'), (GENERIC, None)}; n += 1   # "tez" is the category in one reading only
    assert expected(['tez.a.b.c.ua.ub'], reg) == {('category', 'TezArithmeticError'), (GENERIC, None)}; n += 1
    assert expected(['a.tez.b.c.ua.ub'], reg) == {(GENERIC, None)}; n += 1
    # operation groups: errors of every non-applied result, in receipt order; the last one decides
    sr, su = 'proto.alpha.michelson_v1.script_rejected', 'proto.alpha.tez.subtraction_underflow'
    assert group_error_lists([('applied', None), ('failed', [sr, su])]) == [[sr, su]]; n += 1
    assert group_error_lists([('failed', [su]), ('backtracked', [sr])]) == [[su, sr]]; n += 1
    assert group_error_lists([('backtracked', None), ('failed', [sr]), ('skipped', [su])]) == [[sr, su], [sr]]; n += 1
    assert expected_group([('failed', [su]), ('backtracked', [sr])], reg) == {('final', 'MichelsonScriptRejected')}; n += 1
    assert expected_group([('backtracked', [sr]), ('failed', [su]), ('skipped', None)], reg) == \
        {('category', 'TezArithmeticError')}; n += 1
    assert expected_group([('failed', [sr]), ('skipped', [su])], reg) == \
        {('category', 'TezArithmeticError'), ('final', 'MichelsonScriptRejected')}; n += 1
    assert expected_group([('failed', None), ('skipped', None)], reg) == {(GENERIC, None)}; n += 1
    assert order_sensitive('proto.alpha.michelson_v1.script_rejected', reg); n += 1
    assert not order_sensitive('proto.alpha.michelson_v1.runtime_error', reg); n += 1
    return n
