"""Reference Tezos Merkle root over Blake2b-256 leaves + tiny Base58Check (plain Python, no pytezos).

The construction is the one the property statement gives (and Octez `Blake2B.Make_merkle_tree` computes):
  * empty list            -> H("")
  * leaves                 = H(item) for every item
  * pad the leaves to the next power of two with copies of the LAST leaf
  * reduce pairwise  node(l, r) = H(l || r)  until one hash is left
H = Blake2b with a 32-byte digest.  Nothing is shared with pytezos' in-place array algorithm.
"""
import ast
import hashlib
import os

B58 = '123456789ABCDEFGHJKLMNPQRSTUVWXYZabcdefghijkmnopqrstuvwxyz'
_IDX = {c: i for i, c in enumerate(B58)}

# binary prefixes of the Tezos Base58 kinds used here (Octez lib_crypto/base58.ml)
PREFIX = {
    'o': bytes([5, 116]),            # operation hash, 32 bytes
    'B': bytes([1, 52]),             # block hash
    'Lo': bytes([133, 233]),         # operation list hash
    'LLo': bytes([29, 159, 109]),    # operation list list hash
    'vh': bytes([1, 106, 242]),      # block payload hash
    'expr': bytes([13, 44, 64, 27]),  # script expression hash
}


def H(data: bytes) -> bytes:
    return hashlib.blake2b(data, digest_size=32).digest()


def _checksum(raw: bytes) -> bytes:
    return hashlib.sha256(hashlib.sha256(raw).digest()).digest()[:4]


def b58check_encode(kind: str, payload: bytes) -> str:
    raw = PREFIX[kind] + payload
    raw += _checksum(raw)
    n = int.from_bytes(raw, 'big')
    out = ''
    while n:
        n, r = divmod(n, 58)
        out = B58[r] + out
    zeros = len(raw) - len(raw.lstrip(b'\0'))
    return '1' * zeros + out


def b58check_decode(kind: str, text: str) -> bytes:
    n = 0
    for c in text:
        n = n * 58 + _IDX[c]
    zeros = len(text) - len(text.lstrip('1'))
    raw = b'\0' * zeros + (n.to_bytes((n.bit_length() + 7) // 8, 'big') if n else b'')
    body, chk = raw[:-4], raw[-4:]
    if _checksum(body) != chk:
        raise ValueError('bad checksum')
    p = PREFIX[kind]
    if body[:len(p)] != p:
        raise ValueError('wrong prefix')
    return body[len(p):]


def merkle_root(items) -> bytes:
    """Tezos Merkle root of a list of byte strings."""
    items = list(items)
    if not items:
        return H(b'')
    level = [H(x) for x in items]
    size = 1
    while size < len(level):
        size *= 2
    level = level + [level[-1]] * (size - len(level))
    while len(level) > 1:
        level = [H(level[i] + level[i + 1]) for i in range(0, len(level), 2)]
    return level[0]


def operation_list_hash(ops) -> str:
    """ops: list of raw 32-byte operation hashes."""
    return b58check_encode('Lo', merkle_root(ops))


def operation_list_list_hash(lists) -> str:
    """lists: list of lists of raw 32-byte operation hashes."""
    return b58check_encode('LLo', merkle_root([merkle_root(l) for l in lists]))


def block_payload_hash(predecessor: bytes, payload_round: int, ops) -> str:
    """Block_payload_repr.hash: H(predecessor || round as int32 big endian || operation list hash)."""
    return b58check_encode('vh', H(predecessor + payload_round.to_bytes(4, 'big') + merkle_root(ops)))


def _literals(path):
    """Module-level `name = <literal>` assignments of a test file, read with ast (the file is not imported)."""
    with open(path) as f:
        tree = ast.parse(f.read())
    out = {}
    for node in tree.body:
        if isinstance(node, ast.Assign):
            tgt, val = node.targets[0], node.value
        elif isinstance(node, ast.AnnAssign) and node.value is not None:
            tgt, val = node.target, node.value
        else:
            continue
        if isinstance(tgt, ast.Name):
            try:
                out[tgt.id] = ast.literal_eval(val)
            except ValueError:
                pass
    return out


def selftest() -> int:
    repo = os.environ.get('VERIF_REPO', '/repo')
    lit = _literals(os.path.join(repo, 'tests/unit_tests/test_crypto/test_hashes.py'))
    n = 0
    # mainnet block 2223648: four validation passes with 44, 0, 0 and 22 operations
    lists = [[b58check_decode('o', h) for h in l] for l in lit['operation_hashes']]
    assert [len(l) for l in lists] == [44, 0, 0, 22]
    assert operation_list_list_hash(lists) == lit['operation_hashes_llo']
    n += 1
    # ithacanet blocks 288671 (one operation) and 10000 (no operation)
    for i in ('1', '2'):
        pred = b58check_decode('B', lit['predecessor_' + i])
        ops = [b58check_decode('o', h) for h in lit['operation_hashes_' + i]]
        assert block_payload_hash(pred, 0, ops) == lit['block_payload_hash_' + i]
        n += 1
    # base58 round trip of every literal hash in that file
    for l in lit['operation_hashes']:
        for h in l:
            assert b58check_encode('o', b58check_decode('o', h)) == h
            n += 1
    # the padded construction agrees with the textbook recursive one on a few lengths
    def rec(leaves, size):
        if size == 1:
            return leaves[0]
        half = size // 2
        left, right = leaves[:half], leaves[half:]
        if not right:
            right = [left[-1]]
        left = left + [left[-1]] * (half - len(left))
        right = right + [right[-1]] * (half - len(right))
        return H(rec(left, half) + rec(right, half))
    for k in range(1, 40):
        items = [bytes([i]) * 32 for i in range(k)]
        size = 1
        while size < k:
            size *= 2
        assert merkle_root(items) == rec([H(x) for x in items], size)
        n += 1
    assert merkle_root([]) == H(b'')
    return n + 1
