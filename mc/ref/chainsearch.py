"""Reference for C29: what a search over a value history must report.

Plain Python, no pytezos imports.  A history is a dict level -> value for every level in [last, head].
`equals` decides whether two values are "the same" (the search functions take it as a parameter).
"""
from __future__ import annotations


def changes(history: dict, last: int, head: int, equals=lambda x, y: x == y):
    """Each level in (last, head] whose value differs from the previous level's, with the new value, increasing."""
    return [(lv, history[lv]) for lv in range(last + 1, head + 1) if not equals(history[lv], history[lv - 1])]


def first_change(history: dict, last: int, head: int, equals=lambda x, y: x == y):
    """First level after `last` whose value differs from the value at `last`; None when there is none."""
    for lv in range(last + 1, head + 1):
        if not equals(history[lv], history[last]):
            return lv, history[lv]
    return None


def never_returns(history: dict, last: int, head: int, equals=lambda x, y: x == y) -> bool:
    """The property's premise: once the value has changed it never equals an earlier value again."""
    runs = []
    for lv in range(last, head + 1):
        if not runs or not equals(history[lv], runs[-1]):
            if any(equals(history[lv], r) for r in runs):
                return False
            runs.append(history[lv])
    return True


def sampled_levels(head: int, last: int, step: int):
    """Levels head, head-step, ... strictly above `last` (used only to CLASSIFY a miss, never to judge)."""
    return list(range(head, last, -step))


def slice_range(start: int, stop, head_level: int):
    """(first level, last level) that the block slice `blocks[start:stop]` denotes on a chain whose head is at
    `head_level` (BlocksQuery.__getitem__ docstring: an int is a block level, or an offset from the head if negative;
    an empty stop is the head).  start == 0 is not defined here (callers do not use it)."""
    assert start != 0
    first = start if start > 0 else max(0, head_level + start)
    last = head_level if stop is None else stop
    return first, last


def selftest() -> int:
    n = 0
    assert slice_range(1, None, 97) == (1, 97); n += 1
    assert slice_range(-5, None, 97) == (92, 97); n += 1
    assert slice_range(-200, None, 97) == (0, 97); n += 1
    assert slice_range(3, 40, 97) == (3, 40); n += 1
    h = {0: 'a', 1: 'a', 2: 'b', 3: 'b', 4: 'c'}
    assert changes(h, 0, 4) == [(2, 'b'), (4, 'c')]; n += 1
    assert changes(h, 2, 4) == [(4, 'c')]; n += 1
    assert changes(h, 0, 1) == []; n += 1
    assert first_change(h, 0, 4) == (2, 'b'); n += 1
    assert first_change(h, 2, 3) is None; n += 1
    assert first_change(h, 1, 4) == (2, 'b'); n += 1
    assert never_returns(h, 0, 4); n += 1
    assert not never_returns({0: 'a', 1: 'b', 2: 'a'}, 0, 2); n += 1
    h5 = {lv + 5: v for lv, v in h.items()}
    assert changes(h5, 5, 9) == [(7, 'b'), (9, 'c')]; n += 1
    eq = lambda x, y: x['v'] == y['v']
    hn = {lv: {'v': v, 'noise': lv} for lv, v in h.items()}
    assert changes(hn, 0, 4, eq) == [(2, {'v': 'b', 'noise': 2}), (4, {'v': 'c', 'noise': 4})]; n += 1
    assert changes(hn, 0, 4) == [(lv, hn[lv]) for lv in (1, 2, 3, 4)]; n += 1
    assert sampled_levels(10, 0, 3) == [10, 7, 4, 1] and sampled_levels(10, 0, 5) == [10, 5]; n += 1
    assert sampled_levels(10, 0, 11) == [10]; n += 1
    return n
