"""Reference codec for the Tezos operation-group binary format (plain Python, no pytezos).

A group is the JSON shape used by the Tezos RPC: {'branch': 'B...', 'contents': [{'kind': ..., ...}, ...]}.
Binary form (protocol `operation.unsigned` encoding): branch (32 bytes) followed by the concatenated contents;
each content is a one-byte tag followed by the kind's fields.  The codec is schema driven: every kind is a list
of (field name, field codec) and the same table drives `encode` and the STRICT `decode`, which accepts exactly
the canonical encodings (minimal zarith numbers, 0x00/0xff booleans, reserved entrypoints only by their tag,
no default/Unit parameters, no trailing bytes).

Layout facts and where they come from (see selftest):
  backed by recorded operations in the repository (hash of bytes||signature equals the recorded `o...` hash):
      manager header (tz1/tz2 source, zarith fee/counter/limits), transaction (KT1 destination, named entrypoint,
      parameter), reveal without the proof field (Lima, docs/source/quick_start.rst), transfer_ticket,
      smart_rollup_add_messages, smart_rollup_execute_outbox_message; failing_noop by the signature pinned in
      tests/unit_tests/test_operation/test_failing_noop.py (Ed25519 is deterministic)
  from the protocol sources (operation_repr.ml, entrypoint_repr.ml, contract_repr.ml, signature encodings) as known
  to the author, NOT backed by a vector in the repository:
      origination, delegation, register_global_constant, activate_account, the reveal `proof` option
      (presence byte + 4-byte length + 96-byte BLS signature), tz3/tz4 tags (2, 3), implicit destinations,
      the reserved entrypoint tags 0..9, smart-rollup (sr1) destination tag 3 (transaction_destination encoding).
"""
import hashlib
import os
import re

from mc.ref import base58 as b58
from mc.ref import micheline as mi

OP_TAG = {
    'activate_account': 4, 'failing_noop': 17, 'reveal': 107, 'transaction': 108, 'origination': 109,
    'delegation': 110, 'register_global_constant': 111, 'transfer_ticket': 158,
    'smart_rollup_add_messages': 201, 'smart_rollup_execute_outbox_message': 206,
}
ENTRYPOINT_TAG = {
    'default': 0, 'root': 1, 'do': 2, 'set_delegate': 3, 'remove_delegate': 4, 'deposit': 5, 'stake': 6,
    'unstake': 7, 'finalize_unstake': 8, 'set_delegate_parameters': 9,
}
ENTRYPOINT_OF_TAG = {v: k for k, v in ENTRYPOINT_TAG.items()}
PKH_KINDS = ['tz1', 'tz2', 'tz3', 'tz4']
PK_KINDS = [('edpk', 32), ('sppk', 33), ('p2pk', 33), ('BLpk', 48)]
SRC1 = bytes([17, 165, 134, 138])  # smart rollup commitment hash
UNIT = {'prim': 'Unit'}


class DecodeError(ValueError):
    """code = short machine-readable class, used by drivers for descriptors."""

    def __init__(self, code, msg=''):
        super().__init__(f'{code}: {msg}' if msg else code)
        self.code = code


class Reader:
    def __init__(self, data: bytes):
        self.d = data
        self.p = 0

    def take(self, n: int) -> bytes:
        if n < 0 or self.p + n > len(self.d):
            raise DecodeError('truncated', f'need {n} bytes at {self.p}, have {len(self.d) - self.p}')
        b = self.d[self.p:self.p + n]
        self.p += n
        return b

    def u8(self) -> int:
        return self.take(1)[0]

    def done(self) -> bool:
        return self.p == len(self.d)


# --------------------------------------------------------------------------- field codecs
def _b58_any(s, kinds):
    raw = b58.b58check_decode(s)
    for k in kinds:
        p = b58.PREFIX[k] if k != 'src1' else SRC1
        if raw[:len(p)] == p and s.startswith(k):
            return k, raw[len(p):]
    raise ValueError(f'{s!r} is none of {kinds}')


def _b58_enc(kind, payload):
    return b58.b58check_encode(SRC1 if kind == 'src1' else b58.PREFIX[kind], payload)


class Nat:
    """zarith natural: 7 bits per byte, little endian, high bit = continuation."""

    def enc(self, v):
        v = int(v)
        if v < 0:
            raise ValueError('negative natural')
        return mi.enc_nat(v)

    def dec(self, r):
        v, shift = 0, 0
        n = 0
        while True:
            b = r.u8()
            n += 1
            v |= (b & 0x7F) << shift
            shift += 7
            if not b & 0x80:
                if b == 0 and n > 1:
                    raise DecodeError('non-minimal-number')
                return str(v)

    def norm(self, v):
        return str(int(v))


class Fixed58:
    """Fixed-size base58 payload without a tag (branch, rollup address, commitment, activation pkh)."""

    def __init__(self, kind, size):
        self.kind, self.size = kind, size

    def enc(self, v):
        k, p = _b58_any(v, [self.kind])
        assert len(p) == self.size
        return p

    def dec(self, r):
        return _b58_enc(self.kind, r.take(self.size))

    def norm(self, v):
        return v


class Pkh:
    """public_key_hash: tag 0..3 (ed25519, secp256k1, p256, bls) + 20 bytes."""

    def enc(self, v):
        k, p = _b58_any(v, PKH_KINDS)
        assert len(p) == 20
        return bytes([PKH_KINDS.index(k)]) + p

    def dec(self, r):
        t = r.u8()
        if t >= len(PKH_KINDS):
            raise DecodeError('bad-pkh-tag', str(t))
        return _b58_enc(PKH_KINDS[t], r.take(20))

    def norm(self, v):
        return v


class ContractId:
    """22 bytes: 00 + pkh(21) | 01 + hash(20) + 00 padding | (destination only) 03 + rollup hash(20) + 00."""

    def __init__(self, rollup_ok=False):
        self.rollup_ok = rollup_ok

    def enc(self, v):
        k, p = _b58_any(v, PKH_KINDS + ['KT1'] + (['sr1'] if self.rollup_ok else []))
        assert len(p) == 20
        if k == 'KT1':
            return b'\x01' + p + b'\x00'
        if k == 'sr1':
            return b'\x03' + p + b'\x00'
        return b'\x00' + bytes([PKH_KINDS.index(k)]) + p

    def dec(self, r):
        t = r.u8()
        if t == 0:
            return Pkh().dec(r)
        if t == 1 or (t == 3 and self.rollup_ok):
            h = r.take(20)
            if r.u8() != 0:
                raise DecodeError('bad-contract-padding')
            return _b58_enc('KT1' if t == 1 else 'sr1', h)
        raise DecodeError('bad-contract-tag', str(t))

    def norm(self, v):
        return v


class PublicKey:
    def enc(self, v):
        k, p = _b58_any(v, [k for k, _ in PK_KINDS])
        i = [k for k, _ in PK_KINDS].index(k)
        assert len(p) == PK_KINDS[i][1]
        return bytes([i]) + p

    def dec(self, r):
        t = r.u8()
        if t >= len(PK_KINDS):
            raise DecodeError('bad-public-key-tag', str(t))
        k, n = PK_KINDS[t]
        return _b58_enc(k, r.take(n))

    def norm(self, v):
        return v


class Dyn:
    """4-byte big-endian length + inner value that must consume exactly that many bytes."""

    def __init__(self, inner):
        self.inner = inner

    def enc(self, v):
        b = self.inner.enc(v)
        return len(b).to_bytes(4, 'big') + b

    def dec(self, r):
        n = int.from_bytes(r.take(4), 'big')
        sub = Reader(r.take(n))
        v = self.inner.dec(sub)
        if not sub.done():
            raise DecodeError('length-prefix-mismatch')
        return v

    def norm(self, v):
        return self.inner.norm(v)


class Rest:
    """helpers for values that take the whole of the enclosing Dyn"""

    def dec_all(self, r):
        return r.take(len(r.d) - r.p)


class Micheline(Rest):
    def enc(self, v):
        return mi.encode(v)

    def dec(self, r):
        try:
            return mi.decode(self.dec_all(r))
        except mi.DecodeError as e:
            raise DecodeError('bad-micheline', str(e))

    def norm(self, v):
        return mi.normalize(v)


class Text(Rest):
    def enc(self, v):
        return v.encode()

    def dec(self, r):
        try:
            return self.dec_all(r).decode()
        except UnicodeDecodeError:
            raise DecodeError('bad-utf8')

    def norm(self, v):
        return v


class HexBytes(Rest):
    def enc(self, v):
        return bytes.fromhex(v)

    def dec(self, r):
        return self.dec_all(r).hex()

    def norm(self, v):
        return v.lower()


class BlsSig(Rest):
    def enc(self, v):
        b = b58.dec('BLsig', v)
        assert len(b) == 96
        return b

    def dec(self, r):
        b = self.dec_all(r)
        if len(b) != 96:
            raise DecodeError('bad-bls-signature-length', str(len(b)))
        return b58.enc('BLsig', b)

    def norm(self, v):
        return v


class HexFixed:
    def __init__(self, n):
        self.n = n

    def enc(self, v):
        b = bytes.fromhex(v)
        assert len(b) == self.n
        return b

    def dec(self, r):
        return r.take(self.n).hex()

    def norm(self, v):
        return v.lower()


class MessageList(Rest):
    """sequence of Dyn(bytes) filling the enclosing Dyn"""

    def enc(self, v):
        return b''.join(Dyn(HexBytes()).enc(m) for m in v)

    def dec(self, r):
        out = []
        while not r.done():
            out.append(Dyn(HexBytes()).dec(r))
        return out

    def norm(self, v):
        return [m.lower() for m in v]


class Opt:
    """presence byte 0xff/0x00 + value; absent fields are left out of the dict"""

    def __init__(self, inner):
        self.inner = inner

    def enc(self, v):
        return b'\x00' if v is None else b'\xff' + self.inner.enc(v)

    def dec(self, r):
        f = r.u8()
        if f == 0:
            return None
        if f != 0xFF:
            raise DecodeError('bad-bool', hex(f))
        return self.inner.dec(r)

    def norm(self, v):
        return None if v is None else self.inner.norm(v)


class Parameters:
    """entrypoint (tag 0..9 reserved | 0xff + 1-byte length + name, 1..31 bytes) + Dyn(Micheline).
    default/Unit is the encoding's "absent" and is therefore never present."""

    def enc(self, v):
        ep = v['entrypoint']
        if ep in ENTRYPOINT_TAG:
            e = bytes([ENTRYPOINT_TAG[ep]])
        else:
            raw = ep.encode()
            if not 0 < len(raw) <= 31:
                raise ValueError('entrypoint name length')
            e = b'\xff' + bytes([len(raw)]) + raw
        return e + Dyn(Micheline()).enc(v['value'])

    def dec(self, r):
        t = r.u8()
        if t in ENTRYPOINT_OF_TAG:
            ep = ENTRYPOINT_OF_TAG[t]
        elif t == 0xFF:
            n = r.u8()
            try:
                ep = r.take(n).decode()
            except UnicodeDecodeError:
                raise DecodeError('bad-utf8')
            if ep in ENTRYPOINT_TAG:
                raise DecodeError('reserved-entrypoint-as-named', ep)
            if not 0 < n <= 31:
                raise DecodeError('bad-entrypoint-length', str(n))
        else:
            raise DecodeError('bad-entrypoint-tag', str(t))
        value = Dyn(Micheline()).dec(r)
        if ep == 'default' and value == UNIT:
            raise DecodeError('default-unit-parameters-present')
        return {'entrypoint': ep, 'value': value}

    def norm(self, v):
        if not v:
            return None
        out = {'entrypoint': v['entrypoint'], 'value': mi.normalize(v['value'])}
        return None if out == {'entrypoint': 'default', 'value': UNIT} else out


class Script:
    def enc(self, v):
        return Dyn(Micheline()).enc(v['code']) + Dyn(Micheline()).enc(v['storage'])

    def dec(self, r):
        code = Dyn(Micheline()).dec(r)
        return {'code': code, 'storage': Dyn(Micheline()).dec(r)}

    def norm(self, v):
        return {'code': mi.normalize(v['code']), 'storage': mi.normalize(v['storage'])}


N = Nat()
MANAGER = [('source', Pkh()), ('fee', N), ('counter', N), ('gas_limit', N), ('storage_limit', N)]
SCHEMA = {
    'activate_account': [('pkh', Fixed58('tz1', 20)), ('secret', HexFixed(20))],
    'failing_noop': [('arbitrary', Dyn(Text()))],
    'reveal': MANAGER + [('public_key', PublicKey()), ('proof', Opt(Dyn(BlsSig())))],
    'transaction': MANAGER + [('amount', N), ('destination', ContractId(rollup_ok=True)), ('parameters', Opt(Parameters()))],
    'origination': MANAGER + [('balance', N), ('delegate', Opt(Pkh())), ('script', Script())],
    'delegation': MANAGER + [('delegate', Opt(Pkh()))],
    'register_global_constant': MANAGER + [('value', Dyn(Micheline()))],
    'transfer_ticket': MANAGER + [('ticket_contents', Dyn(Micheline())), ('ticket_ty', Dyn(Micheline())),
                                  ('ticket_ticketer', ContractId()), ('ticket_amount', N),
                                  ('destination', ContractId()), ('entrypoint', Dyn(Text()))],
    'smart_rollup_add_messages': MANAGER + [('message', Dyn(MessageList()))],
    'smart_rollup_execute_outbox_message': MANAGER + [('rollup', Fixed58('sr1', 20)),
                                                      ('cemented_commitment', Fixed58('src1', 32)),
                                                      ('output_proof', Dyn(HexBytes()))],
}
KIND_OF_TAG = {v: k for k, v in OP_TAG.items()}
BRANCH = Fixed58('B', 32)
MANAGER_KINDS = [k for k, f in SCHEMA.items() if f[:5] == MANAGER]


def _fields(kind, proof_field=True):
    f = SCHEMA[kind]
    if kind == 'reveal' and not proof_field:
        f = f[:-1]  # protocols before the tz4 proof of possession (<= Rio) have no `proof` field at all
    return f


def normalise_content(c, proof_field=True):
    kind = c['kind']
    out = {'kind': kind}
    for name, codec in _fields(kind, proof_field):
        v = c.get(name)
        if isinstance(codec, Opt):
            v = codec.norm(v if v not in ('', None) else None)
            if v is not None:
                out[name] = v
        else:
            out[name] = codec.norm(v)
    return out


def normalise(g, proof_field=True):
    """The group as the Tezos decoder would return it: numbers as decimal strings, absent options left out,
    default/Unit parameters left out, Micheline normalised, keys that are not part of the encoding dropped."""
    return {'branch': g['branch'], 'contents': [normalise_content(c, proof_field) for c in g['contents']]}


def encode_content(c, proof_field=True) -> bytes:
    c = normalise_content(c, proof_field)
    out = [bytes([OP_TAG[c['kind']]])]
    for name, codec in _fields(c['kind'], proof_field):
        out.append(codec.enc(c.get(name)))
    return b''.join(out)


def encode(g, proof_field=True) -> bytes:
    if not g['contents']:
        raise ValueError('empty contents')
    return BRANCH.enc(g['branch']) + b''.join(encode_content(c, proof_field) for c in g['contents'])


def decode(data: bytes, proof_field=True):
    r = Reader(data)
    g = {'branch': BRANCH.dec(r), 'contents': []}
    while not r.done():
        t = r.u8()
        if t not in KIND_OF_TAG:
            raise DecodeError('unknown-operation-tag', f'{t} at content #{len(g["contents"])}')
        kind = KIND_OF_TAG[t]
        c = {'kind': kind}
        for name, codec in _fields(kind, proof_field):
            try:
                v = codec.dec(r)
            except DecodeError as e:
                e.where = (len(g['contents']), kind, name)
                raise
            if v is not None:
                c[name] = v
        g['contents'].append(c)
    if not g['contents']:
        raise DecodeError('empty-contents')
    return g


def operation_hash(forged: bytes, signature: bytes) -> str:
    return b58.enc('o', hashlib.blake2b(forged + signature, digest_size=32).digest())


# --------------------------------------------------------------------------- selftest
def _repo():
    return os.environ.get('VERIF_REPO', '/repo')


DOC_REVEAL = {  # docs/source/quick_start.rst (Lima: reveal has no proof field); presence of the literals is checked
    'hash': 'oo6e7UjGkvoqXG49VRNuN5cEAjo5TqyiRJtVhTvXETbYDDahDNR',
    'branch': 'BLvDnmxUXwLMB3UyREj8ckLDdSBgzajyxZJfmoCrifZXhaRaHAL',
    'contents': [{'kind': 'reveal', 'source': 'tz1QeVeCHFMBd3fRj5aPxwqcAaqUDiARjwJp', 'fee': '370',
                  'counter': '15404829', 'gas_limit': '1000', 'storage_limit': '0',
                  'public_key': 'edpkvHehVYEFJss7VxieJydkdbAwbSNqV9hN4SHo2P6WtsceZ24eaj'}],
    'signature': 'siggMmepBSUQuavD2ws99CQtt4jRapf5HDiJM3Um26n619Y1ojCcRhxoLampysAMZZDEqVdbUXqGUXLpHzDRaTdRdCZD4p5W',
}


def selftest() -> int:
    import json
    n = 0
    repo = _repo()
    # 1. recorded groups: Blake2b-256(reference bytes || signature) must be the recorded operation hash
    ddir = os.path.join(repo, 'tests/unit_tests/test_operation/data')
    kinds_seen = set()
    for fn in sorted(os.listdir(ddir)):
        with open(os.path.join(ddir, fn)) as f:
            d = json.load(f)
        g = {'branch': d['branch'], 'contents': d['contents']}
        old = d['protocol'].startswith(('PtJakart', 'PtLima', 'PtMumbai'))
        raw = encode(g, proof_field=not old)
        assert operation_hash(raw, b58.dec('sig', d['signature'])) == d['hash'] == fn[:-5], fn
        assert decode(raw, proof_field=not old) == normalise(g, proof_field=not old), fn
        kinds_seen |= {c['kind'] for c in d['contents']}
        n += 1
    assert kinds_seen >= {'transaction', 'transfer_ticket', 'smart_rollup_add_messages',
                          'smart_rollup_execute_outbox_message'}, kinds_seen
    # 2. the reveal recorded in the documentation
    with open(os.path.join(repo, 'docs/source/quick_start.rst')) as f:
        rst = f.read()
    for lit in (DOC_REVEAL['hash'], DOC_REVEAL['branch'], DOC_REVEAL['signature'], DOC_REVEAL['contents'][0]['public_key'],
                DOC_REVEAL['contents'][0]['counter'], 'PtLimaPtLMwfNinJi9rCfDPWea8dFgTZ1MeJ9f1m2SRic6ayiwW'):
        assert lit in rst, lit
    raw = encode(DOC_REVEAL, proof_field=False)
    assert operation_hash(raw, b58.dec('sig', DOC_REVEAL['signature'])) == DOC_REVEAL['hash']
    # current protocols: the same reveal followed by the `proof` presence byte
    assert encode(DOC_REVEAL) == raw + b'\x00' and decode(raw + b'\x00') == normalise(DOC_REVEAL)
    n += 1
    # 3. failing_noop: the signature pinned by test_failing_noop.py over 03 || branch || 0x11 || len || text
    with open(os.path.join(repo, 'tests/unit_tests/test_operation/test_failing_noop.py')) as f:
        t = f.read()
    m = re.search(r"'bootstrap1',\s*'(\w+)',\s*'(B\w+)',\s*'(edsig\w+)'", t)
    assert m, 'failing_noop vector not found'
    msg, block, sig = m.groups()
    with open(os.path.join(repo, 'src/pytezos/context/mixin.py')) as f:
        sk = re.search(r"'bootstrap1': '(edsk\w+)'", f.read()).group(1)
    from cryptography.hazmat.primitives.asymmetric.ed25519 import Ed25519PrivateKey
    raw = encode({'branch': block, 'contents': [{'kind': 'failing_noop', 'arbitrary': msg}]})
    digest = hashlib.blake2b(b'\x03' + raw, digest_size=32).digest()
    assert Ed25519PrivateKey.from_private_bytes(b58.dec('edsk32', sk)).sign(digest) == b58.dec('edsig', sig)
    n += 1
    # 4. strictness of the decoder on hand-made non-canonical encodings
    br = b58.dec('B', block)
    tz = b'\x00' + bytes(20)
    head = br + bytes([108]) + tz + b'\x01\x02\x03\x04' + b'\x05' + b'\x00' + tz
    unit = (2).to_bytes(4, 'big') + b'\x03\x0b'
    ok = head + b'\xff' + b'\x06' + unit
    assert decode(ok)['contents'][0]['parameters'] == {'entrypoint': 'stake', 'value': UNIT}
    assert decode(head + b'\xff\xff\x01a' + unit)['contents'][0]['parameters']['entrypoint'] == 'a'
    assert decode(head + b'\x00')['contents'][0] == {
        'kind': 'transaction', 'source': b58.enc('tz1', bytes(20)), 'fee': '1', 'counter': '2', 'gas_limit': '3',
        'storage_limit': '4', 'amount': '5', 'destination': b58.enc('tz1', bytes(20))}
    bad = {
        'reserved-entrypoint-as-named': head + b'\xff\xff\x05stake' + unit,
        'default-unit-parameters-present': head + b'\xff\x00' + unit,
        'bad-entrypoint-tag': head + b'\xff\x0a' + unit,
        'bad-entrypoint-length': head + b'\xff\xff\x00' + unit,
        'bad-bool': head + b'\x01',
        'non-minimal-number': br + bytes([108]) + tz + b'\x81\x00\x02\x03\x04\x05' + b'\x00' + tz + b'\x00',
        'truncated': head,
        'unknown-operation-tag': head + b'\x00' + b'\x07',
        'bad-pkh-tag': br + bytes([108]) + b'\x04' + bytes(20) + b'\x01\x02\x03\x04\x05' + b'\x00' + tz + b'\x00',
        'bad-contract-padding': br + bytes([108]) + tz + b'\x01\x02\x03\x04\x05' + b'\x01' + bytes(20) + b'\x01' + b'\x00',
        'bad-contract-tag': br + bytes([108]) + tz + b'\x01\x02\x03\x04\x05' + b'\x02' + bytes(21) + b'\x00',
        'length-prefix-mismatch': head + b'\xff\x06' + (3).to_bytes(4, 'big') + b'\x03\x0b\x00',
        'empty-contents': br,
    }
    for code, raw in bad.items():
        try:
            decode(raw)
        except DecodeError as e:
            assert e.code == code or (code == 'length-prefix-mismatch' and e.code == 'bad-micheline'), (code, e.code)
            n += 1
            continue
        raise AssertionError('strict decoder accepted ' + code)
    # 5. decode(encode(g)) == normalise(g) and injectivity on a small universe of every kind
    seen = {}
    for g in _mini_universe():
        raw = encode(g)
        ng = normalise(g)
        assert decode(raw) == ng, g
        key = json.dumps(ng, sort_keys=True)
        assert seen.setdefault(raw, key) == key, 'reference encoder not injective'
        n += 1
    return n


def _mini_universe():
    h = [bytes(20), bytes([1] * 19 + [0]), bytes([255] * 20)]
    br = b58.enc('B', bytes(range(32)))
    pkhs = [b58.enc(k, x) for k in PKH_KINDS for x in h[:2]]
    nums = [0, 127, 128, 2 ** 64 + 1]
    vals = [UNIT, {'int': '-65'}, {'prim': 'Pair', 'args': [{'string': 'a'}, {'bytes': '00'}], 'annots': ['%x']}]
    script = {'code': [{'prim': 'parameter', 'args': [{'prim': 'unit'}]}, {'prim': 'storage', 'args': [{'prim': 'unit'}]},
                       {'prim': 'code', 'args': [[{'prim': 'CDR'}, {'prim': 'NIL', 'args': [{'prim': 'operation'}]}, {'prim': 'PAIR'}]]}],
              'storage': UNIT}
    for src in pkhs:
        for x in nums:
            m = {'source': src, 'fee': str(x), 'counter': x, 'gas_limit': '1', 'storage_limit': str(x)}
            cs = []
            for ep in list(ENTRYPOINT_TAG) + ['a', 'x' * 31]:
                for v in vals:
                    for dst in (b58.enc('KT1', h[1]), b58.enc('sr1', h[2]), pkhs[-1]):
                        cs.append({'kind': 'transaction', **m, 'amount': str(x), 'destination': dst,
                                   'parameters': {'entrypoint': ep, 'value': v}})
            cs.append({'kind': 'transaction', **m, 'amount': '0', 'destination': src})
            for d in (None, pkhs[3], pkhs[6]):
                cs.append({'kind': 'delegation', **m, 'delegate': d})
                cs.append({'kind': 'origination', **m, 'balance': str(x), 'delegate': d, 'script': script})
            for i, (k, sz) in enumerate(PK_KINDS):
                cs.append({'kind': 'reveal', **m, 'public_key': b58.enc(k, bytes([i]) * sz)})
                cs.append({'kind': 'reveal', **m, 'public_key': b58.enc(k, bytes([i]) * sz), 'proof': b58.enc('BLsig', bytes([7]) * 96)})
            cs.append({'kind': 'register_global_constant', **m, 'value': vals[2]})
            cs.append({'kind': 'transfer_ticket', **m, 'ticket_contents': vals[1], 'ticket_ty': {'prim': 'int'},
                       'ticket_ticketer': b58.enc('KT1', h[0]), 'ticket_amount': str(x), 'destination': pkhs[1], 'entrypoint': 'default'})
            for msgs in ([], [''], ['00', ''], ['0000']):
                cs.append({'kind': 'smart_rollup_add_messages', **m, 'message': msgs})
            cs.append({'kind': 'smart_rollup_execute_outbox_message', **m, 'rollup': b58.enc('sr1', h[1]),
                       'cemented_commitment': _b58_enc('src1', bytes(32)), 'output_proof': 'ff' * x if x < 200 else ''})
            cs.append({'kind': 'failing_noop', 'arbitrary': 'm' * (x % 300)})
            cs.append({'kind': 'activate_account', 'pkh': b58.enc('tz1', h[x % 3]), 'secret': '%040x' % (x % 2 ** 160)})
            for c in cs:
                yield {'branch': br, 'contents': [c]}
            yield {'branch': br, 'contents': cs[-6:]}
