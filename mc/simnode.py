"""Simulated Tezos node: an `RpcNode` whose get/post are answered from an in-memory world (no HTTP), to be
placed behind the REAL `pytezos.rpc.shell.ShellQuery`, so the real path builder and client code run:

    node = SimNode(); ctx = ExecutionContext(shell=ShellQuery(node=node), key=Key.from_encoded_key(...))
    OperationGroup(context=ctx).transaction(destination=..., amount=1).autofill().sign().inject()

World state: per-account counter, mempool (accepted injections, served under `applied`, which is where
`ExecutionContext.get_counter_offset` looks), head level (hashes derived from the level), protocol constants,
the answers `run_operation` gives (configured by the driver) and an injection policy (accept / reject).
Injected bytes are decoded with the independent decoder mc/ref/mgrops.py; every injection is logged with the
account counter `c` and the number `p` of the account's pending contents at that moment.

An RPC path the simulation does not know raises `SimNodeGap` (NOT RpcError), so that a gap in the simulation shows up
as a harness error instead of being swallowed by client-side `except RpcError`.
"""
from __future__ import annotations

import hashlib
import re

from pytezos.rpc.node import RpcError, RpcNode

from mc.ref import base58 as rb58
from mc.ref import mgrops

PROTOCOL = 'PsRiotumaAMotcRoDWW1bysEhQy2n1M5fy8JgRp8jjRfHGmfeA7'  # any valid protocol hash; the client only copies it
CHAIN_ID = 'NetXdQprcVkpaWU'
SIG_LEN = {'tz1': 64, 'tz2': 64, 'tz3': 64, 'tz4': 96}
PKH_PREFIX = {'tz1': bytes([6, 161, 159]), 'tz2': bytes([6, 161, 161]), 'tz3': bytes([6, 161, 164]), 'tz4': bytes([6, 161, 166])}

DEFAULT_CONSTANTS = {
    'hard_gas_limit_per_operation': '1040000',
    'hard_gas_limit_per_block': '1386666',
    'hard_storage_limit_per_operation': '60000',
    'cost_per_byte': '250',
    'origination_size': 257,
    'minimal_block_delay': '8',
    'max_operations_time_to_live': 450,
}


class SimNodeGap(Exception):
    """The client asked for something the simulation does not implement."""


def block_hash(level: int) -> str:
    return rb58.b58check_encode(bytes([1, 52]), hashlib.blake2b(b'simblock%d' % level, digest_size=32).digest())


def op_hash(data: bytes) -> str:
    return rb58.b58check_encode(bytes([5, 116]), hashlib.blake2b(data, digest_size=32).digest())


def pkh_of(source_tag: int, source_hash: bytes) -> str:
    return rb58.b58check_encode(PKH_PREFIX[mgrops.CURVE_PREFIX[source_tag]], source_hash)


class SimNode(RpcNode):
    def __init__(self, counters=None, constants=None, level=1000, sandboxed=False, mempool_key='applied',
                 check_counters=False):
        super().__init__('http://simnode.invalid')
        self.counters = dict(counters or {})         # pkh -> counter of the last included operation
        self.constants = dict(DEFAULT_CONSTANTS)
        self.constants.update(constants or {})
        self.level = level
        self.sandboxed = sandboxed
        self.mempool_key = mempool_key
        self.mempool = []                            # [{'hash', 'branch', 'contents':[{kind, source, counter, ...}]}]
        self.reject_next = False                     # next injection is refused with an RPC error (node-side reason)
        self.check_counters = check_counters         # refuse injections whose counters are not c+p+1.. (like a real node)
        self.sim = {}                                # run_operation answers, see _run_operation
        self.injections = []                         # log: dicts (see _inject)
        self.calls = []                              # (method, path) log
        self.included = []                           # operations included in blocks by bake()

    # ---- state helpers ---------------------------------------------------------------------------
    def pending(self, pkh: str) -> int:
        return sum(1 for op in self.mempool for c in op['contents'] if c['source'] == pkh)

    def bake(self) -> int:
        """Include every mempool operation in a new block: counters advance, the mempool empties. Returns #contents."""
        n = 0
        for op in self.mempool:
            for c in op['contents']:
                self.counters[c['source']] = max(self.counters.get(c['source'], 0), int(c['counter']))
                n += 1
            self.included.append(op)
        self.mempool = []
        self.level += 1
        return n

    def snapshot(self):
        return {'level': self.level, 'counters': dict(sorted(self.counters.items())),
                'mempool': [[(c['source'], int(c['counter'])) for c in op['contents']] for op in self.mempool]}

    # ---- RPC surface -------------------------------------------------------------------------------
    def request(self, method, path, **kwargs):  # nothing may reach the HTTP layer
        raise SimNodeGap(f'raw request {method} {path}')

    def get(self, path, params=None, timeout=None):
        self.calls.append(('GET', path))
        if path == '/version':
            return {'version': {'major': 22, 'minor': 0}, 'network_version': {
                'chain_name': 'SANDBOXED_TEZOS' if self.sandboxed else 'TEZOS_MAINNET',
                'distributed_db_version': 2, 'p2p_version': 1}}
        if path == '/chains/main/chain_id':
            return CHAIN_ID
        m = re.fullmatch(r'/chains/main/blocks/([^/]+)(/.*)?', path)
        if m:
            return self._block_get(m.group(1), m.group(2) or '')
        if path == '/chains/main/mempool/pending_operations':
            ops = [{'hash': op['hash'], 'branch': op['branch'], 'contents': [dict(c) for c in op['contents']],
                    'signature': op['signature']} for op in self.mempool]
            out = {'applied': [], 'validated': [], 'refused': [], 'outdated': [], 'branch_refused': [],
                   'branch_delayed': [], 'unprocessed': []}
            if self.mempool_key == 'applied':
                del out['validated']
            else:
                del out['applied']
            out[self.mempool_key] = ops
            return out
        raise SimNodeGap(f'GET {path}')

    def _level_of(self, block_id: str) -> int:
        if block_id == 'head':
            return self.level
        m = re.fullmatch(r'head~(\d+)', block_id)
        if m:
            return max(0, self.level - int(m.group(1)))
        if block_id.isdigit():
            return int(block_id)
        for lv in range(self.level, max(-1, self.level - 500), -1):
            if block_hash(lv) == block_id:
                return lv
        raise RpcError(f'Not found: block {block_id}')

    def _block_get(self, block_id: str, rest: str):
        lv = self._level_of(block_id)
        if rest == '/hash':
            return block_hash(lv)
        if rest == '/header':
            return {'protocol': PROTOCOL, 'chain_id': CHAIN_ID, 'hash': block_hash(lv), 'level': lv, 'proto': 1,
                    'predecessor': block_hash(max(0, lv - 1)), 'timestamp': '2024-01-01T00:00:00Z'}
        if rest == '/protocols':
            return {'protocol': PROTOCOL, 'next_protocol': PROTOCOL}
        if rest == '/context/constants':
            return dict(self.constants)
        m = re.fullmatch(r'/context/contracts/([^/]+)(/counter|/manager_key|/balance)?', rest)
        if m:
            pkh, sub = m.group(1), m.group(2)
            counter = str(self.counters.get(pkh, 0))
            if sub == '/counter':
                return counter
            if sub == '/balance':
                return '1000000000000'
            if sub == '/manager_key':
                return None
            return {'balance': '1000000000000', 'counter': counter}
        raise SimNodeGap(f'GET block {block_id}{rest}')

    def post(self, path, params=None, json=None, timeout=None):
        self.calls.append(('POST', path))
        if re.fullmatch(r'/chains/main/blocks/[^/]+/helpers/scripts/run_operation', path):
            return self._run_operation(json)
        if path == '/injection/operation':
            return self._inject(json)
        raise SimNodeGap(f'POST {path}')

    # ---- run_operation -------------------------------------------------------------------------------
    def _run_operation(self, body):
        """Echo the contents with `metadata.operation_result` per content.  self.sim keys (each a list indexed by
        content position, the last element is reused for further contents):
          milligas [int]  storage_diff [int]  allocated [bool]  internal [[milligas, storage_diff, allocated]...]
          status   [str]  (default 'applied'; others come with an `errors` list)"""
        def pick(key, i, default):
            xs = self.sim.get(key)
            if not xs:
                return default
            return xs[i] if i < len(xs) else xs[-1]
        op = body['operation']
        out = []
        for i, c in enumerate(op['contents']):
            c = dict(c)
            status = pick('status', i, 'applied')
            res = {'status': status, 'consumed_milligas': str(pick('milligas', i, 100000))}
            if status != 'applied':
                res['errors'] = [{'kind': 'temporary', 'id': 'proto.alpha.sim.failed'}]
            sd = pick('storage_diff', i, 0)
            if sd:
                res['paid_storage_size_diff'] = str(sd)
            if pick('allocated', i, False):
                if c['kind'] == 'origination':
                    res['originated_contracts'] = ['KT1BEqzn5Wx8uJrZNvuS9DVHmLvG9td3fDLi']
                else:
                    res['allocated_destination_contract'] = True
            meta = {'balance_updates': [], 'operation_result': res}
            internal = pick('internal', i, None)
            if internal:
                meta['internal_operation_results'] = [
                    {'kind': 'transaction', 'source': 'KT1BEqzn5Wx8uJrZNvuS9DVHmLvG9td3fDLi', 'nonce': j,
                     'amount': '0', 'destination': 'KT1BEqzn5Wx8uJrZNvuS9DVHmLvG9td3fDLi',
                     'result': dict({'status': 'applied', 'consumed_milligas': str(mg)},
                                    **({'paid_storage_size_diff': str(s)} if s else {}),
                                    **({'allocated_destination_contract': True} if al else {}))}
                    for j, (mg, s, al) in enumerate(internal)]
            c['metadata'] = meta
            out.append(c)
        return {'contents': out, 'signature': op.get('signature')}

    # ---- injection -------------------------------------------------------------------------------------
    def _inject(self, hexdata):
        data = bytes.fromhex(hexdata)
        entry = {'bytes': data, 'accepted': False, 'decoded': None, 'error': None}
        self.injections.append(entry)
        dec = None
        for sig_len in (64, 96):  # the source curve (first content) tells which length is right
            try:
                d = mgrops.decode(data, sig_len)
            except mgrops.DecodeError as e:
                entry['error'] = str(e)
                continue
            if SIG_LEN[mgrops.CURVE_PREFIX[d['contents'][0]['source_tag']]] == sig_len:
                dec = d
                break
        if dec is None:
            entry['error'] = entry['error'] or 'signature length does not match the source curve'
            raise RpcError({'kind': 'permanent', 'id': 'node.sim.undecodable_operation', 'msg': entry['error']})
        entry['error'] = None
        contents = [{'kind': c['kind'], 'source': pkh_of(c['source_tag'], c['source_hash']), 'fee': str(c['fee']),
                     'counter': str(c['counter']), 'gas_limit': str(c['gas_limit']),
                     'storage_limit': str(c['storage_limit'])} for c in dec['contents']]
        src = contents[0]['source']
        c0, p0 = self.counters.get(src, 0), self.pending(src)
        entry.update(decoded=contents, source=src, c=c0, p=p0, counters=[int(c['counter']) for c in contents],
                     expected=[c0 + p0 + 1 + i for i in range(len(contents))], level=self.level)
        if self.reject_next:
            self.reject_next = False
            entry['error'] = 'rejected by driver'
            raise RpcError({'kind': 'temporary', 'id': 'node.sim.injection_refused'})
        if self.check_counters and entry['counters'] != entry['expected']:
            entry['error'] = 'counter mismatch'
            kind = 'counter_in_the_past' if entry['counters'][0] < entry['expected'][0] else 'counter_in_the_future'
            raise RpcError({'kind': 'branch', 'id': f'proto.alpha.contract.{kind}', 'contract': src,
                            'expected': str(entry['expected'][0]), 'found': str(entry['counters'][0])})
        h = op_hash(data)
        self.mempool.append({'hash': h, 'branch': rb58.b58check_encode(bytes([1, 52]), dec['branch']),
                             'contents': contents,
                             'signature': rb58.b58check_encode(bytes([4, 130, 43]), dec['signature'][:64])})
        entry['accepted'] = True
        entry['hash'] = h
        return h


def disable_query_docstrings():
    """Every RpcQuery object renders a help text for Jupyter in its constructor (`format_docstring`), which is 75% of the
    cost of a fill()/autofill() against the simulated node.  The text never reaches a request; drivers that build millions
    of queries stub the renderer.  Paths, parameters and dispatch of the real query classes are untouched."""
    import pytezos.rpc.query as q
    q.format_docstring = lambda class_type, query_path: ''
