"""Shared explicit-state exploration of the interpreter for C01 (results) and C02 (types).

State  = a concrete stack in reference form: tuple of (type, value), top first.
Moves  = every instruction instance (from a finite generator driven by the reference typing rules) that is
         well-typed on the state's stack.  Each move runs on the REAL instruction classes (stack rebuilt from the
         state) and on the reference evaluator in lock-step.
Search = BFS from a list of seed stacks with canonical-state deduplication, to a depth bound.
"""
from __future__ import annotations

import itertools
import json
from collections import deque

from mc import adapter as A
from mc import impl as M
from mc.engine.report import Result
from mc.impl import I, P, PUSH, TY
from mc.ref import meval as E
from mc.ref import mtypes as T

INT, NAT, STRING, BYTES, BOOL, UNIT, MUTEZ, TS, ADDRESS = E.INT, E.NAT, E.STRING, E.BYTES, E.BOOL, E.UNIT, E.MUTEZ, E.TS, E.ADDRESS
PII = ('pair', INT, INT)
OI = ('option', INT)
LI = ('list', INT)


def lam(a, b, code):
    return (('lambda', a, b), ('lam', json.dumps(code, sort_keys=True)))


# ---------------------------------------------------------------- seeds (non-initial states)
SEEDS = [
    [],
    [(INT, 0)],
    [(INT, 1), (INT, -1)],
    [(NAT, 2), (NAT, 0)],
    [(INT, -2), (NAT, 3)],
    [(MUTEZ, 2**62), (MUTEZ, 2**62)],
    [(MUTEZ, 1), (MUTEZ, 2)],
    [(TS, 10), (INT, -20)],
    [(STRING, 'ab'), (STRING, '')],
    [(NAT, 1), (NAT, 1), (STRING, 'ab')],
    [(NAT, 0), (NAT, 0), (STRING, '')],
    [(NAT, 2), (NAT, 0), (BYTES, b'\x01\x02')],
    [(BYTES, b'\x00\xff'), (BYTES, b'')],
    [(BOOL, True), (INT, 2)],
    [(BOOL, False), (BOOL, True)],
    [(UNIT, ())],
    [(PII, (1, 5)), (PII, (2, 3))],
    [(('pair', INT, ('pair', NAT, STRING)), (1, (2, 'x')))],
    [(('pair', INT, ('pair', NAT, ('pair', STRING, BOOL))), (-1, (0, ('a', True)))), (NAT, 7)],
    [(OI, None), (OI, ('Some', 3))],
    [(('option', OI), ('Some', None))],
    [(('or', INT, STRING), ('L', 4)), (('or', INT, STRING), ('R', 'a'))],
    [(('or', ('or', INT, NAT), STRING), ('L', ('R', 1)))],
    [(LI, ()), (LI, (3, 1, 2))],
    [(INT, 9), (LI, (1,))],
    [(('list', PII), ((1, 5), (2, 3)))],
    [(('list', STRING), ('a', 'b', ''))],
    [(('list', BYTES), (b'\x01', b''))],
    [(('set', INT), ()), (('set', INT), (-1, 0, 4))],
    [(INT, 0), (('set', INT), (-1, 0, 4))],
    [(PII, (1, 5)), (('set', PII), ((1, -5), (1, 5), (2, 3)))],
    [(('map', INT, STRING), ()), (('map', INT, STRING), ((1, 'a'), (2, 'b')))],
    [(INT, 2), (('map', INT, STRING), ((1, 'a'), (2, 'b')))],
    [(('map', PII, NAT), (((1, -5), 0), ((1, 5), 1), ((2, 3), 2)))],
    [(PII, (1, 5)), (('option', NAT), ('Some', 9)), (('map', PII, NAT), (((1, -5), 0), ((1, 5), 1)))],
    [(('map', OI, INT), ((None, 0), (('Some', -1), 1)))],
    [(('map', STRING, ('list', INT)), ())],
    [(INT, 3), lam(INT, INT, [PUSH(INT, 1), P('ADD')])],
    [(INT, 1), lam(PII, INT, [P('UNPAIR'), P('SUB')])],
    [(PII, (7, 2)), lam(PII, INT, [P('UNPAIR'), P('SUB')])],
    [(ADDRESS, ('tz1', T.HM, '')), (ADDRESS, ('KT1', T.H1, 'ep'))],
    [(('key_hash',), ('tz1', T.HM)), (('chain_id',), b'\x7a\x06\xa7\x70')],
    [(BYTES, T.pack(PII, (1, 5))), (BYTES, T.pack(INT, 1)[:-1] + b'\x80\x00')],
    # a new component whose type has the head constructor of the one it replaces but other arguments (UPDATE n / PAIR / CONS re-derive types)
    [(('option', STRING), ('Some', 'x')), (('pair', OI, STRING), (('Some', 1), 'a'))],
    [(('list', STRING), ('x',)), (('pair', NAT, ('pair', LI, BOOL)), (1, ((2, 3), True)))],
    [(('or', STRING, BYTES), ('R', b'\x00')), (('pair', NAT, ('pair', ('or', INT, NAT), BOOL)), (1, (('L', 2), True)))],
    # bindings whose value is a falsy Python object ("" / False) next to "absent"
    [(INT, 2), (('option', STRING), ('Some', '')), (('map', INT, STRING), ((1, ''), (2, '')))],
    [(STRING, ''), (('option', BOOL), ('Some', False)), (('map', STRING, BOOL), (('', False), ('a', True)))],
]

TYPE_ARGS = [INT, NAT, STRING, PII, OI, LI]
PUSHES = [(INT, 0), (INT, 1), (INT, -1), (NAT, 0), (NAT, 1), (NAT, 2), (STRING, 'a'), (STRING, ''), (BOOL, True), (BOOL, False),
          (BYTES, b'\x00'), (UNIT, ()), (MUTEZ, 1), (OI, None), (OI, ('Some', 1)), (PII, (1, 5)), (LI, (2, 1)),
          (('set', INT), (0, 1)), (('map', INT, STRING), ((0, 'z'),)), (('or', INT, STRING), ('L', 0)), (TS, 5)]
NULLARY = ['DROP', 'DUP', 'SWAP', 'UNIT', 'SOME', 'PAIR', 'UNPAIR', 'CAR', 'CDR', 'CONS', 'SIZE', 'MEM', 'GET', 'UPDATE', 'GET_AND_UPDATE',
           'EXEC', 'APPLY', 'FAILWITH', 'COMPARE', 'EQ', 'NEQ', 'LT', 'GT', 'LE', 'GE', 'ADD', 'SUB', 'SUB_MUTEZ', 'MUL', 'EDIV', 'ABS',
           'NEG', 'ISNAT', 'INT', 'NAT', 'BYTES', 'LSL', 'LSR', 'AND', 'OR', 'XOR', 'NOT', 'CONCAT', 'SLICE', 'PACK', 'BLAKE2B', 'SHA256',
           'SHA512', 'SHA3', 'KECCAK', 'RENAME', 'NEVER']
ENV_READERS = list(E.ENV)
REDUCED_NULLARY = ['DROP', 'DUP', 'SWAP', 'SOME', 'PAIR', 'UNPAIR', 'CAR', 'CDR', 'CONS', 'SIZE', 'MEM', 'GET', 'UPDATE', 'GET_AND_UPDATE',
                   'EXEC', 'APPLY', 'COMPARE', 'EQ', 'GT', 'ADD', 'SUB', 'MUL', 'EDIV', 'ABS', 'ISNAT', 'CONCAT', 'SLICE', 'PACK']

# body library: short code sequences; control instructions use every combination that typechecks
BODIES = [
    [],
    [P('DROP')],
    [PUSH(INT, 1)],
    [P('DROP'), PUSH(INT, 1)],
    [PUSH(INT, 1), P('ADD')],
    [PUSH(NAT, 1), P('ADD')],
    [P('CAR')],
    [P('CDR')],
    [P('SOME')],
    [P('DUP'), P('PAIR')],
    [P('SWAP')],
    [P('ADD')],
    [P('CONS')],
    [P('DROP'), P('DROP')],
    [P('UNPAIR'), P('ADD')],
    [PUSH(STRING, 'boom'), P('FAILWITH')],
    [P('FAILWITH')],
    [P('DROP'), PUSH(STRING, 'x')],
    [P('DROP'), PUSH(BOOL, False)],
    # stack-cursor instructions inside bodies: under DIP they must work relative to the protected prefix
    [P('DUP', I(2))],
    [P('DIG', I(1))],
    [P('DUG', I(1))],
    [P('DROP', I(1))],
    [P('DUP', I(2)), P('DROP')],
    [P('DIP', [P('DUP')])],
    [P('DIP', I(2), [P('DUP')])],
    [P('PAIR', I(2))],
    [P('UNPAIR', I(2))],
    [P('GET', I(1))],
]
LOOP_BODIES = [
    [PUSH(BOOL, False)],
    [PUSH(INT, -1), P('ADD'), P('DUP'), P('GT')],          # counting loop on an int
    [PUSH(STRING, 'l'), P('FAILWITH')],
]
LOOP_LEFT_BODIES = [
    [P('RIGHT', TY(INT))], [P('RIGHT', TY(STRING))],
    [PUSH(INT, -1), P('ADD'), P('DUP'), P('GT'), P('IF', [P('LEFT', TY(INT))], [P('RIGHT', TY(INT))])],
    [P('DROP'), PUSH(('or', INT, STRING), ('R', 'done'))],
    [PUSH(STRING, 'll'), P('FAILWITH')],
]
REC_BODY = [P('DUP'), P('GT'), P('IF', [PUSH(INT, -1), P('ADD'), P('EXEC')], [P('SWAP'), P('DROP')])]
LAMBDAS = [
    P('LAMBDA', TY(INT), TY(INT), [PUSH(INT, 2), P('MUL')]),
    P('LAMBDA', TY(PII), TY(INT), [P('UNPAIR'), P('ADD')]),
    P('LAMBDA', TY(INT), TY(INT), [PUSH(STRING, 'in lambda'), P('FAILWITH')]),
    P('LAMBDA', TY(('pair', STRING, INT)), TY(STRING), [P('CAR')]),
    P('LAMBDA_REC', TY(INT), TY(INT), [P('SWAP'), P('DROP')]),
    P('LAMBDA_REC', TY(INT), TY(INT), REC_BODY),
]


def instances(types, reduced=False):
    """All instruction instances of the alphabet that are well-typed on a stack of these types (simplest first)."""
    n = len(types)
    cands = [P(x) for x in (REDUCED_NULLARY if reduced else NULLARY)]
    if not reduced:
        cands += [P(x) for x in ENV_READERS]
    for k in range(0, n + 2):
        cands += [P('DROP', I(k)), P('DIG', I(k)), P('DUG', I(k))]
        if k >= 1:
            cands.append(P('DUP', I(k)))
        if k >= 2:
            cands += [P('PAIR', I(k)), P('UNPAIR', I(k))]
    for k in range(0, 6):
        cands += [P('GET', I(k)), P('UPDATE', I(k))]
    targs = TYPE_ARGS[:3] if reduced else TYPE_ARGS
    for t in targs:
        cands += [P('NONE', TY(t)), P('LEFT', TY(t)), P('RIGHT', TY(t)), P('NIL', TY(t)), P('UNPACK', TY(t))]
        if not reduced:
            cands += [P('EMPTY_SET', TY(t)), P('EMPTY_MAP', TY(t), TY(STRING))]
    if types and types[0] == BYTES:
        # the same bytes unpacked at several types that share a head constructor (results must not be confused)
        cands += [P('UNPACK', TY(('pair', NAT, NAT))), P('UNPACK', TY(('list', NAT))), P('UNPACK', TY(('option', NAT)))]
    if types:
        cands.append(P('CAST', TY(types[0])))
        if not reduced:
            cands.append(P('UNPACK', TY(types[0])) if T.packable(types[0]) else P('UNIT'))
    for t, v in (PUSHES[:8] if reduced else PUSHES):
        cands.append(PUSH(t, v))
    bodies = (BODIES[:10] + BODIES[19:23]) if reduced else BODIES
    for b1, b2 in itertools.product(bodies, repeat=2):
        cands += [P('IF', b1, b2), P('IF_NONE', b1, b2), P('IF_LEFT', b1, b2), P('IF_CONS', b1, b2)]
    for b in bodies:
        cands += [P('DIP', b), P('MAP', b), P('ITER', b)]
        for k in range(0, n + 1):
            if k != 1:
                cands.append(P('DIP', I(k), b))
    cands += [P('LOOP', b) for b in LOOP_BODIES] + [P('LOOP_LEFT', b) for b in LOOP_LEFT_BODIES]
    cands += LAMBDAS
    out = []
    for c in cands:
        try:
            E.typecheck(c, types)
        except E.IllTyped:
            continue
        out.append(c)
    return out


_INST_CACHE: dict = {}


def instances_cached(types, reduced):
    k = (tuple(types), reduced)
    r = _INST_CACHE.get(k)
    if r is None:
        r = _INST_CACHE[k] = instances(list(types), reduced)
    return r


# ---------------------------------------------------------------- running one move on both sides
def ref_move(code, state, env=None, rev=False):
    try:
        res = E.run(code, list(state), env, fuel=3000, rec_reversed=rev)
        if rev:
            # under the non-Michelson reversed convention a well-typed body can leave an ill-typed result: the implementation's
            # dynamic type assertions turn that into a run-time error
            static = E.typecheck(code, [t for t, _ in state])
            if static is not E.FAILS and [t for t, _ in res] != static:
                return ('fail', 'ill-typed result under the reversed LAMBDA_REC convention')
        return ('ok', res)
    except E.Failwith as f:
        return ('failwith', (f.t, f.v))
    except E.RuntimeFail as f:
        return ('fail', str(f))
    except E.Fuel:
        return ('fuel',)
    except ValueError as e:
        if 'no reference code form' in str(e):   # PACK of a partially applied lambda: representation not pinned
            return ('fuel',)
        raise
    except (KeyError, TypeError, IndexError, AssertionError, AttributeError):
        if rev:   # the non-Michelson reversed convention makes well-typed bodies ill-typed: that is a run-time error there
            return ('fail', 'ill-typed under the reversed LAMBDA_REC convention')
        raise


SIMPLE_REPR = {'int', 'nat', 'string', 'unit', 'bool'}


def _repr_faithful(t):
    return t[0] in SIMPLE_REPR or (t[0] == 'pair' and _repr_faithful(t[1]) and _repr_faithful(t[2]))


def same_value(t, obj, refv, ctx, depth=0, rev=False):
    """Compare an implementation object with a reference value of type t.  Returns None or a description.
    Lambdas are compared extensionally (EXEC over the argument domain) unless their code is literally equal."""
    p = t[0]
    if p == 'lambda':
        try:
            got = A.from_impl(obj, t)
        except Exception as e:
            return f'unreadable lambda: {e}'
        if refv[0] in ('lam', 'lamrec') and got == refv:
            return None
        if depth > 1:
            return None
        try:
            dom = T.domain(t[1], 2)[:4]
        except ValueError:
            return None
        from pytezos.michelson.stack import MichelsonStack
        for a in dom:
            r = ref_move(P('EXEC'), [(t[1], a), (t, refv)], None, rev)
            if r[0] == 'fuel':
                continue
            st = MichelsonStack([A.to_impl(t[1], a), obj])
            out = M.run_on_stack(P('EXEC'), st, ctx)
            if r[0] == 'ok':
                if r[1][0][0] != t[2]:   # ill-typed result (only under rev=True): the implementation's type assertion rejects it
                    if out[0] == 'ok':
                        return f'lambda applied to {a!r}: accepts an ill-typed result'
                    continue
                if out[0] != 'ok':
                    return f'lambda applied to {a!r}: implementation {out}, reference {r[1][0][1]!r}'
                d = same_value(t[2], st.items[0], r[1][0][1], ctx, depth + 1, rev)
                if d:
                    return f'lambda applied to {a!r}: {d}'
            elif r[0] == 'failwith':
                if out[0] != 'failwith':
                    return f'lambda applied to {a!r}: implementation {out}, reference FAILWITH {r[1][1]!r}'
            else:
                if out[0] != 'error':
                    return f'lambda applied to {a!r}: implementation {out}, reference fails'
        return None
    if obj.prim != p:
        return f'value of class {obj.prim} where {p} expected'
    if p == 'pair':
        return same_value(t[1], obj.items[0], refv[0], ctx, depth, rev) or same_value(t[2], obj.items[1], refv[1], ctx, depth, rev)
    if p == 'option':
        if (obj.item is None) != (refv is None):
            return f'option: {"None" if obj.item is None else "Some"} vs {"None" if refv is None else "Some"}'
        return None if refv is None else same_value(t[1], obj.item, refv[1], ctx, depth, rev)
    if p == 'or':
        side = 'L' if obj.is_left() else 'R'
        if side != refv[0]:
            return f'or: {side} vs {refv[0]}'
        return same_value(t[1] if side == 'L' else t[2], obj.items[0 if side == 'L' else 1], refv[1], ctx, depth, rev)
    if p == 'list':
        if len(obj.items) != len(refv):
            return f'list length {len(obj.items)} vs {len(refv)}'
        for o, r in zip(obj.items, refv):
            d = same_value(t[1], o, r, ctx, depth, rev)
            if d:
                return d
        return None
    if p == 'map' and not T.comparable(t[2]):
        if len(obj.items) != len(refv):
            return f'map size {len(obj.items)} vs {len(refv)}'
        for (ok, ov), (rk, rv) in zip(obj.items, refv):
            if A.from_impl(ok, t[1]) != rk:
                return f'map key {A.from_impl(ok, t[1])!r} vs {rk!r}'
            d = same_value(t[2], ov, rv, ctx, depth, rev)
            if d:
                return d
        return None
    try:
        got = A.from_impl(obj, t)
    except Exception as e:
        return f'unreadable value: {type(e).__name__}: {e}'
    return None if got == refv else f'{got!r} vs reference {refv!r}'


def classify(code):
    """Descriptor class of a move: its primitive (+ arity, + body shape for control instructions)."""
    p = code['prim']
    a = code.get('args', [])
    if p in ('DROP', 'DUP', 'DIG', 'DUG', 'PAIR', 'UNPAIR', 'GET', 'UPDATE') and a:
        return f'{p} n'
    if p == 'DIP' and len(a) == 2:
        return 'DIP n'
    return p


def top_shape(types):
    return T.t_str(types[0]).split(' ')[0].strip('()') if types else 'empty'


def _compare(mode, cls, types, ref, out, stack, ctx, rev=False):
    viol = []
    if mode == 'C01':
        if ref[0] == 'ok':
            if out[0] != 'ok':
                viol.append((f'{cls} on {top_shape(types)}: implementation fails ({out[0]}) where the reference succeeds', f'{out} / reference {ref[1]!r}'))
            elif len(stack.items) != len(ref[1]):
                viol.append((f'{cls}: stack depth differs', f'{len(stack.items)} vs {len(ref[1])}'))
            else:
                for i, (obj, (t, v)) in enumerate(zip(stack.items, ref[1])):
                    d = same_value(t, obj, v, ctx, 0, rev)
                    if d:
                        viol.append((f'{cls} on {top_shape(types)}: wrong result', f'slot {i}: {d}'))
                        break
        elif ref[0] == 'failwith':
            if out[0] != 'failwith':
                viol.append((f'{cls} on {top_shape(types)}: reference FAILWITH, implementation {out[0]}', f'{out} / reference FAILWITH {ref[1]!r}'))
            elif _repr_faithful(ref[1][0]):
                exp = repr(A.to_impl(*ref[1]))
                if out[1] != exp:
                    viol.append((f'{cls}: wrong FAILWITH value', f'implementation reports {out[1]!r}, reference value renders as {exp!r}'))
        else:
            if out[0] != 'error':
                viol.append((f'{cls} on {top_shape(types)}: reference fails at run time, implementation {out[0]}', f'{out} / reference {ref}'))
    else:  # C02
        if ref[0] == 'ok' and out[0] == 'ok' and len(stack.items) != len(ref[1]):
            viol.append((f'{cls} on {top_shape(types)}: result stack has {len(stack.items)} slots, the typing rules give {len(ref[1])}',
                         f'implementation {[T.t_str(A.impl_type(o)) for o in stack.items]} vs static {[T.t_str(t) for t, _ in ref[1]]}'))
        if ref[0] == 'ok' and out[0] == 'ok' and len(stack.items) == len(ref[1]):
            for i, (obj, (t, _)) in enumerate(zip(stack.items, ref[1])):
                probs = A.consistent(obj, t)
                if probs:
                    empty = ' (empty collection)' if _is_empty_coll(obj) else ''
                    viol.append((f'{cls} on {top_shape(types)}: result slot has the wrong type{empty}', f'slot {i}: {probs[0]}'))
                    break
    return viol


def judge(mode, code, state, ctx, env=None):
    """One move.  Returns (ref_result, [(descriptor, detail)]) or (ref, None) when there is no verdict.  mode: 'C01' | 'C02'."""
    ref = ref_move(code, state, env)
    if ref[0] == 'fuel':
        return ref, None
    from pytezos.michelson.stack import MichelsonStack
    try:
        stack = MichelsonStack([A.to_impl(t, v) for t, v in state])
    except Exception as e:
        return ref, [(f'cannot build the input stack ({type(e).__name__})', f'state {state!r}: {e}')]
    out = M.run_on_stack(code, stack, ctx)
    cls = classify(code)
    types = [t for t, _ in state]
    viol = _compare(mode, cls, types, ref, out, stack, ctx)
    if viol and mode == 'C01' and cls == 'PACK' and 'lamrec' in repr(state[0]):
        viol = [('PACK of a recursive lambda is not the packed Lambda_rec form', viol[0][1])]
    if viol and mode == 'C01' and ('lamrec' in repr(state) or 'LAMBDA_REC' in json.dumps(code)):
        # Is this the (known) reversed LAMBDA_REC convention and nothing else?  Re-judge against the reference run with
        # the body started on [lambda ; argument] instead of Michelson's [argument ; lambda].
        ref2 = ref_move(code, state, env, rev=True)
        if ref2[0] != 'fuel' and not _compare(mode, cls, types, ref2, out, stack, ctx, rev=True):
            viol = [('LAMBDA_REC convention reversed (body runs with the lambda above its argument)', viol[0][1])]
    return ref, viol


def _is_empty_coll(obj):
    return obj.prim in ('list', 'set', 'map') and len(obj.items) == 0


def state_key(state):
    return tuple(state)


def explore(mode, seed_idx, chunk, nchunks, depth, reduced_from, r: Result):
    """BFS from one seed; the first-level moves are split over `nchunks` shards."""
    ctx = M.make_context(E.DEFAULT_ENV)
    seed = SEEDS[seed_idx]
    seen = {state_key(seed)}
    frontier = deque([(tuple(seed), [])])
    r.state(('s', state_key(seed)))
    while frontier:
        state, hist = frontier.popleft()
        d = len(hist)
        types = [t for t, _ in state]
        moves = instances_cached(types, d >= reduced_from)
        for mi, code in enumerate(moves):
            if d == 0 and mi % nchunks != chunk:
                continue
            ref, viol = judge(mode, code, state, ctx)
            if viol is None:
                r.no_verdict += 1
                continue
            r.transitions += 1
            r.traces += 1
            r.out(f'{classify(code)}:{ref[0]}')
            if viol:
                case = {'seed': seed_idx, 'history': hist, 'move': code, 'mode': mode}
                for desc, detail in viol:
                    r.viol(desc, case, f'state {_show(state)} move {json.dumps(code)}: {detail}')
            if ref[0] == 'ok' and d + 1 < depth:
                nxt = tuple(ref[1])
                if len(nxt) <= 6 and _small(nxt):
                    k = state_key(nxt)
                    if k not in seen:
                        seen.add(k)
                        r.state(('s', k))
                        frontier.append((nxt, hist + [code]))
            elif ref[0] == 'ok':
                r.state(('s', state_key(tuple(ref[1]))))
    return r


def _small(state):
    """Keep the space finite: stop expanding states whose values have grown large."""
    return len(repr(state)) < 1500


def _show(state):
    return '[' + ' : '.join(f'{T.t_str(t)}={v!r}' for t, v in state)[:600] + ']'


def replay_case(mode, case):
    state = tuple(SEEDS[case['seed']])
    for code in case['history']:
        ref = ref_move(code, state)
        if ref[0] != 'ok':
            return [('replay: history does not reproduce', str(ref))]
        state = tuple(ref[1])
    _, viol = judge(mode, case['move'], state, M.make_context(E.DEFAULT_ENV))
    return viol or []


def observe_case(mode, case):
    state = tuple(SEEDS[case['seed']])
    for code in case['history']:
        state = tuple(ref_move(code, state)[1])
    from pytezos.michelson.stack import MichelsonStack
    stack = MichelsonStack([A.to_impl(t, v) for t, v in state])
    out = M.run_on_stack(case['move'], stack, M.make_context(E.DEFAULT_ENV))
    return [list(out), [repr(x) for x in stack.items]]
