"""Driving the real pytezos instruction classes from reference-form stacks."""
from __future__ import annotations

from functools import lru_cache
import json

from mc import adapter as A
from mc.ref import mtypes as T


def make_context(env=None):
    from pytezos.context.impl import ExecutionContext
    if not env:
        return ExecutionContext()
    kw = {}
    if 'amount' in env:
        kw['amount'] = env['amount']
    if 'balance' in env:
        kw['balance'] = env['balance']
    if 'sender' in env:
        kw['sender'] = T.address_str(env['sender'])
    if 'source' in env:
        kw['source'] = T.address_str(env['source'])
    if 'now' in env:
        kw['now'] = env['now']
    if 'level' in env:
        kw['level'] = env['level']
    if 'chain_id' in env:
        kw['chain_id'] = T.chain_id_str(env['chain_id'])
    if 'self_address' in env:
        kw['address'] = T.address_str(env['self_address'])
    if 'min_block_time' in env:
        kw['min_block_time'] = env['min_block_time']
    if 'total_voting_power' in env:
        kw['total_voting_power'] = env['total_voting_power']
    return ExecutionContext(**kw)


@lru_cache(maxsize=100000)
def _match(code_json: str):
    from pytezos.michelson.micheline import Micheline
    return Micheline.match(json.loads(code_json))


def match(code):
    return _match(json.dumps(code, sort_keys=True))


def run_on_stack(code, stack, ctx):
    """Execute code (instruction or sequence) on a real MichelsonStack in place.
    Returns ('ok',) | ('failwith', repr_of_value) | ('error', args) | ('crash', exc_name, msg)."""
    from pytezos.michelson.micheline import MichelsonRuntimeError
    try:
        cls = match(code)
        cls.execute(stack, [], ctx)
        return ('ok',)
    except MichelsonRuntimeError as e:
        if 'FAILWITH' in e.args:
            return ('failwith', e.args[-1])
        return ('error', tuple(str(a) for a in e.args))
    except RecursionError:
        raise
    except Exception as e:  # anything escaping the MichelsonRuntimeError wrapper
        return ('crash', type(e).__name__, str(e)[:200])


def run_impl(code, slots, ctx=None):
    """slots: [(type, value)] top first -> (outcome tuple, real stack object)."""
    stack = A.mk_stack(slots)
    out = run_on_stack(code, stack, ctx or make_context())
    return out, stack


def P(prim, *args, annots=None):
    e = {'prim': prim}
    if args:
        e['args'] = list(args)
    if annots:
        e['annots'] = list(annots)
    return e


def I(n):
    return {'int': str(n)}


def TY(t):
    return T.t_to_micheline(t)


def PUSH(t, v):
    return P('PUSH', TY(t), T.v_to_micheline(t, v))
