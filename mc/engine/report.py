"""Result accumulation, evidence files, VIOLATION / KNOWN-FINDING reporting.

A driver's shard function fills a `Result`; the runner merges the shard results,
matches violations against /verif/known_findings.json (read-only), writes
/verif/evidence/<id>.json and /verif/violations/<id>-<n>.json and decides the exit code.
"""
from __future__ import annotations

import hashlib
import json
import os
from collections import Counter
from typing import Any

VERIF = os.path.dirname(os.path.dirname(os.path.dirname(os.path.abspath(__file__))))
MAX_CASES_PER_DESCRIPTOR = 3
MAX_SAMPLES = 12


def _limit_free(x: Any) -> Any:
    """Same structure with every int spelled in hexadecimal: repr()/str() of a large int depends on the interpreter's
    int<->str digit limit, a process-global setting that the code under test may change."""
    if isinstance(x, bool) or x is None or isinstance(x, (str, bytes, float)):
        return x
    if isinstance(x, int):
        return hex(x) if abs(x) >= 10 ** 300 else x
    if isinstance(x, (list, tuple)):
        return tuple(_limit_free(i) for i in x)
    if isinstance(x, dict):
        return tuple((k, _limit_free(v)) for k, v in x.items())
    if isinstance(x, (set, frozenset)):
        return tuple(sorted((_limit_free(i) for i in x), key=repr))
    return x


def h64(key: Any) -> int:
    if not isinstance(key, (bytes, str)):
        key = repr(_limit_free(key))
    if isinstance(key, str):
        key = key.encode('utf-8', 'surrogatepass')
    return int.from_bytes(hashlib.blake2b(key, digest_size=8).digest(), 'big')


def jsonable(x: Any) -> Any:
    """Best-effort conversion of a case to something json.dump accepts (bytes -> {'hex':..})."""
    if isinstance(x, (str, int, float, bool)) or x is None:
        if isinstance(x, int) and not isinstance(x, bool) and abs(x) >= 2**63:
            return {'__bigint__': hex(x)}
        return x
    if isinstance(x, bytes):
        return {'hex': x.hex()}
    if isinstance(x, (list, tuple)):
        return [jsonable(i) for i in x]
    if isinstance(x, (set, frozenset)):
        return sorted((jsonable(i) for i in x), key=repr)
    if isinstance(x, dict):
        return {str(k): jsonable(v) for k, v in x.items()}
    return repr(x)


def unjson(x: Any) -> Any:
    """Inverse of jsonable for the encodings it introduces (lists stay lists)."""
    if isinstance(x, dict):
        if set(x) == {'hex'}:
            return bytes.fromhex(x['hex'])
        if set(x) == {'__bigint__'}:
            return int(x['__bigint__'], 16) if 'x' in x['__bigint__'] else int(x['__bigint__'])
        return {k: unjson(v) for k, v in x.items()}
    if isinstance(x, list):
        return [unjson(i) for i in x]
    return x


class Result:
    def __init__(self) -> None:
        self.evaluations = 0
        self.nontrivial: set[int] = set()
        self.outcomes: Counter = Counter()
        self.violations: dict[str, dict] = {}   # descriptor -> {count, cases:[{case, detail}]}
        self.samples: list = []
        self.state_hashes: set[int] = set()
        self.transitions = 0
        self.traces = 0
        self.no_verdict = 0
        self.extra: Counter = Counter()
        self.caps: list[str] = []
        self.notes: list[str] = []
        self.first_case = None
        self.last_case = None

    # --- recording -----------------------------------------------------
    def ev(self, n: int = 1) -> None:
        self.evaluations += n

    def nt(self, key: Any) -> None:
        self.nontrivial.add(h64(key))

    def out(self, label: str, n: int = 1) -> None:
        self.outcomes[label] += n

    def state(self, canon: Any) -> bool:
        """Record a canonical state; True if it is new (in this shard)."""
        k = h64(canon)
        if k in self.state_hashes:
            return False
        self.state_hashes.add(k)
        return True

    def viol(self, descriptor: str, case: Any, detail: str = '') -> None:
        v = self.violations.setdefault(descriptor, {'count': 0, 'cases': []})
        v['count'] += 1
        if len(v['cases']) < MAX_CASES_PER_DESCRIPTOR:
            v['cases'].append({'case': jsonable(case), 'detail': str(detail)[:2000]})

    def sample(self, case: Any) -> None:
        case = jsonable(case)
        if self.first_case is None:
            self.first_case = case
        self.last_case = case
        if len(self.samples) < MAX_SAMPLES:
            self.samples.append(case)

    def cap(self, what: str) -> None:
        if what not in self.caps:
            self.caps.append(what)

    # --- merging -------------------------------------------------------
    def merge(self, o: 'Result') -> None:
        self.evaluations += o.evaluations
        self.nontrivial |= o.nontrivial
        self.outcomes.update(o.outcomes)
        for d, v in o.violations.items():
            mine = self.violations.setdefault(d, {'count': 0, 'cases': []})
            mine['count'] += v['count']
            for c in v['cases']:
                if len(mine['cases']) < MAX_CASES_PER_DESCRIPTOR:
                    mine['cases'].append(c)
        for s in o.samples:
            if len(self.samples) < MAX_SAMPLES:
                self.samples.append(s)
        self.state_hashes |= o.state_hashes
        self.transitions += o.transitions
        self.traces += o.traces
        self.no_verdict += o.no_verdict
        self.extra.update(o.extra)
        for c in o.caps:
            self.cap(c)
        for n in o.notes:
            if n not in self.notes:
                self.notes.append(n)
        if self.first_case is None:
            self.first_case = o.first_case
        if o.last_case is not None:
            self.last_case = o.last_case


def load_known(prop: str) -> list[dict]:
    path = os.path.join(VERIF, 'known_findings.json')
    if not os.path.exists(path):
        return []
    with open(path) as f:
        data = json.load(f)
    return [e for e in data.get('findings', []) if e.get('property') == prop and e.get('status') == 'known']


def finish(driver, res: Result, tier: str, seed: int, wall: float) -> int:
    """Write evidence + violation files, print the verdict lines, return the exit code."""
    prop = driver.ID
    known = load_known(prop)
    known_desc: dict[str, dict] = {}
    for e in known:
        for d in e.get('descriptors', []):
            known_desc[d] = e
    reported_known: dict[str, list[str]] = {}
    new: list[tuple[str, dict]] = []
    for d in sorted(res.violations):
        if d in known_desc:
            reported_known.setdefault(known_desc[d]['id'], []).append(d)
        else:
            new.append((d, res.violations[d]))

    out = os.environ.get('VERIF_OUT') or VERIF   # VERIF_OUT: tools/seeded.py points runs against scratch trees elsewhere
    vdir = os.path.join(out, 'violations')
    os.makedirs(vdir, exist_ok=True)
    # remove stale replay files of this property
    for fn in os.listdir(vdir):
        if fn.startswith(prop + '-') and fn.endswith('.json'):
            os.unlink(os.path.join(vdir, fn))
    lines = []
    for n, (d, v) in enumerate(new, 1):
        path = os.path.join(vdir, f'{prop}-{n}.json')
        with open(path, 'w') as f:
            json.dump({'property': prop, 'descriptor': d, 'count': v['count'],
                       'case': v['cases'][0]['case'], 'detail': v['cases'][0]['detail'],
                       'more_cases': v['cases'][1:]}, f, indent=1)
        lines.append(f'VIOLATION property={prop} replay={path}')
    for e in known:
        if e['id'] in reported_known:
            print(f"KNOWN-FINDING: property={prop} {e['id']}: {e['what']} "
                  f"[{len(reported_known[e['id']])}/{len(e.get('descriptors', []))} listed descriptors observed]")

    level = driver.LEVEL
    cov: dict[str, Any] = {
        'evaluations': res.evaluations,
        'distinct_nontrivial': len(res.nontrivial),
        'rule': getattr(driver, 'RULE', ''),
        'samples': res.samples[:MAX_SAMPLES],
        'exhaustive': not res.caps,
        'distinct_outcomes': len(res.outcomes),
        'outcomes': dict(sorted(res.outcomes.items(), key=lambda kv: -kv[1])[:40]),
        'skipped_no_verdict': res.no_verdict,
        'bound': getattr(driver, 'BOUND', {}).get(tier, ''),
    }
    if level == 'model_checking':
        cov['states'] = len(res.state_hashes)
        cov['transitions'] = res.transitions
        cov['traces_validated_against_impl'] = res.traces
    if res.caps:
        cov['caps_hit'] = res.caps
    if res.extra:
        cov['extra'] = dict(res.extra)
    if res.notes:
        cov['notes'] = res.notes
    if reported_known:
        cov['known_findings_observed'] = {k: sorted(v) for k, v in reported_known.items()}
    ev = {
        'property_id': prop, 'tier': tier, 'seed': seed, 'level': level, 'coverage': cov,
        'assumptions': list(getattr(driver, 'ASSUMPTIONS', [])),
        'wall_s': round(wall, 2), 'violations': len(new),
    }
    edir = os.path.join(out, 'evidence')
    os.makedirs(edir, exist_ok=True)
    with open(os.path.join(edir, f'{prop}.json'), 'w') as f:
        json.dump(ev, f, indent=1, sort_keys=True)
        f.write('\n')

    st = f"states={cov.get('states')} transitions={cov.get('transitions')} " if level == 'model_checking' else ''
    print(f"{prop} tier={tier} seed={seed} level={level} evaluations={res.evaluations} "
          f"distinct_nontrivial={len(res.nontrivial)} {st}outcomes={len(res.outcomes)} "
          f"no_verdict={res.no_verdict} exhaustive={not res.caps} wall={wall:.1f}s")
    for d, v in new[:25]:
        print(f"  violating descriptor ({v['count']}x): {d}\n    {v['cases'][0]['detail'][:300]}")
    for ln in lines[:25]:
        print(ln)
    if len(lines) > 25:
        print(f'... {len(lines) - 25} more VIOLATION files under {vdir}')
    return 1 if new else 0
