"""C31 — operation list / list-list / block payload hashes follow the Tezos Merkle construction.

Small-scope exhaustive input enumeration.  Every list length up to the bound (distinct leaves), every
word up to a length bound over a tiny hash alphabet (repeated leaves, all-zero / all-ones hashes), and every
list-of-lists shape up to 4 x 4 is pushed through the real `operation_list_hash`,
`operation_list_list_hash`, `block_payload_hash` (base58 in, base58 out) and the underlying
`_reduce_operation_hashes`, and compared with the plain-Python reference in mc/ref/merkle.py (pad to a
power of two with copies of the last leaf, reduce pairwise; own Base58Check).

"All hash values" includes values that look special to the encoding layer underneath: a further family plants every
binary kind prefix of the Base58 kinds involved (o, B, Lo, LLo, vh), a zero pair and a ones pair at EVERY offset of an
operation hash (first / last / every position of lists of several lengths) and of the predecessor block hash, and uses inner
lists whose own list hash contains the Lo prefix (found by enumeration with the reference).
"""
from __future__ import annotations

import itertools

from mc.engine.report import Result
from mc.ref import merkle as ref

ID = 'C31'
LEVEL = 'exploration'
RULE = ('cases = (function, input list) pairs; inputs: every length 0..N with distinct leaves, every word of length '
        '<=L over the hash alphabet {00*32, ff*32[, third]}, every list-of-lists shape (outer<=4, inner<=4) with distinct '
        'leaves and every list of <=K inner words of length <=2 over {00*32, ff*32}; payload rounds/predecessors from a '
        'small set; every (pattern, offset) with pattern in {binary prefixes of o B Lo LLo vh, 0000, ffff} planted into an '
        'operation hash at first/last/all positions of lists of length 1,2,3,5 and into the predecessor with 0,1,3 operations; '
        'list-of-lists containing the first inner lists (singleton, pair) whose Lo hash contains the Lo prefix.  '
        'Non-trivial = the input needs padding (some length is not a power of two) or repeats a leaf or carries a planted pattern; '
        'distinct by (function, input, round, predecessor)')
BOUND = {
    'quick': 'lengths 0..260 (crosses 2^8); words <=10 over 2 hashes; list-lists 4x4 shapes + <=3 inner words; rounds {0,1,2^31-1}; '
             '7 patterns x every offset x 8 placements + predecessor x 3 lengths; 4 self-prefixed inner lists x 5 placements',
    'thorough': 'lengths 0..1100 (crosses 2^10); words <=12 over 2 hashes and <=7 over 3; list-lists 4x4 shapes + <=4 '
                'inner words; rounds {0,1,255,256,65536,2^31-1}; 3 predecessors; planted patterns as quick on 3 carrier hashes; '
                '8 self-prefixed inner lists',
}
ASSUMPTIONS = [
    'reference Merkle root = the construction in the property statement (validated against the three mainnet/ithacanet '
    'literals of tests/unit_tests/test_crypto/test_hashes.py by mc.ref.merkle.selftest)',
    'payload rounds outside int32 (negative or >= 2^31) are not part of the statement and are not explored',
]
LEVEL_TEXT = ('exhaustive over all list lengths up to the bound and all small words over a collision-forcing hash alphabet; '
              'says nothing about lengths beyond the bound, but the algorithm has no length-dependent branch other than '
              'parity of the level size, all of which occur below 2^10')

LETTERS = {'A': b'\x00' * 32, 'B': b'\xff' * 32, 'C': ref.H(b'verif-c31-letter-C')}
PREDS = [b'\x00' * 32, b'\xff' * 32, ref.H(b'verif-c31-predecessor')]
ROUNDS = {'quick': [0, 1, 2**31 - 1], 'thorough': [0, 1, 255, 256, 65536, 2**31 - 1]}
_LEAVES: list = []


def leaves(n):
    while len(_LEAVES) < n:
        _LEAVES.append(ref.H(b'verif-c31-leaf' + len(_LEAVES).to_bytes(4, 'big')))
    return _LEAVES[:n]


def shape(n):
    if n == 0:
        return 'empty'
    if n == 1:
        return 'single'
    if n & (n - 1) == 0:
        return 'power-of-two'
    return 'odd' if n % 2 else 'even-non-power-of-two'


def needs_padding(n):
    return n > 1 and n & (n - 1) != 0


PATTERNS = sorted({ref.PREFIX[k] for k in ('o', 'B', 'Lo', 'LLo', 'vh')} | {b'\x00\x00', b'\xff\xff'})
PLACEMENTS = [(1, 'first'), (2, 'first'), (2, 'last'), (3, 'last'), (3, 'all'), (5, 'first'), (5, 'last'), (5, 'all')]
_CARRIERS: list = []
_SELFPREF: dict = {}


def planted(pat, off, carrier=0):
    """32-byte hash = carrier hash with `pat` written at offset `off`."""
    while len(_CARRIERS) <= carrier:
        _CARRIERS.append(ref.H(b'verif-c31-carrier' + bytes([len(_CARRIERS)])))
    b = bytearray(_CARRIERS[carrier])
    b[off:off + len(pat)] = pat
    assert len(b) == 32
    return bytes(b)


def selfprefixed(count):
    """First `count` inner lists (singletons then pairs of pool leaves) whose Merkle root contains the Lo kind prefix."""
    if count not in _SELFPREF:
        found, i, p = [], 0, ref.PREFIX['Lo']
        while len(found) < count:
            for cand in ([i], [i, i + 1]):
                pool = leaves(i + 2)
                if p in ref.merkle_root([pool[j] for j in cand]) and len(found) < count:
                    found.append(cand)
            i += 1
        _SELFPREF[count] = found
    return _SELFPREF[count]


def inputs_of(case):
    """Concrete (function, variant, args) evaluations of one case.  Lists are raw 32-byte hashes."""
    k = case['kind']
    out = []
    if k == 'len':
        ops = leaves(case['n'])
        n = len(ops)
        out.append(('reduce', None, ops))
        out.append(('olh', None, ops))
        for rnd in case['rounds']:
            out.append(('bph', (0, rnd), ops))
        for p in range(1, case['preds']):
            out.append(('bph', (p, 0), ops))
        out.append(('ollh', 'whole', [ops]))
        out.append(('ollh', 'halves', [ops[:n // 2], ops[n // 2:]]))
        out.append(('ollh', 'singletons', [[o] for o in ops]))
    elif k == 'word':
        ops = [LETTERS[c] for c in case['word']]
        out.append(('reduce', None, ops))
        out.append(('olh', None, ops))
        out.append(('bph', (1, 1), ops))
        out.append(('ollh', 'whole', [[], ops]))
        out.append(('ollh', 'singletons', [[o] for o in ops]))
    elif k == 'll':
        pool = leaves(sum(case['lens']))
        lists, i = [], 0
        for ln in case['lens']:
            lists.append(pool[i:i + ln])
            i += ln
        out.append(('ollh', 'shape', lists))
    elif k == 'llw':
        out.append(('ollh', 'words', [[LETTERS[c] for c in w] for w in case['words']]))
    elif k == 'embed':
        special = planted(bytes(case['pat']), case['off'], case['carrier'])
        n, pos = case['n'], case['pos']
        if pos == 'pred':
            out.append(('bph', (special, 2), leaves(n)))
            return out
        plain = leaves(n)
        ops = [special if (pos == 'all' or (pos == 'first' and i == 0) or (pos == 'last' and i == n - 1)) else plain[i]
               for i in range(n)]
        out.append(('olh', None, ops))
        out.append(('bph', (0, 1), ops))
        out.append(('ollh', 'mixed', [ops, [], [], ops[:1]]))
    elif k == 'selfpref':
        pool = leaves(max(case['idx']) + 1)
        inner = [pool[j] for j in case['idx']]
        other = leaves(3)
        out.append(('ollh', 'selfpref', {'alone': [inner], 'first': [inner, other], 'last': [other, [], inner],
                                         'twice': [inner, inner], 'middle': [[], inner, other[:1], []]}[case['place']]))
    else:
        raise ValueError(k)
    return out


def impl(func, variant, arg):
    from pytezos.crypto import hash as h
    from pytezos.crypto.encoding import base58_encode
    enc = lambda b: base58_encode(b, b'o').decode()
    if func == 'reduce':
        return h._reduce_operation_hashes(list(arg))
    if func == 'olh':
        return h.operation_list_hash([enc(o) for o in arg])
    if func == 'ollh':
        return h.operation_list_list_hash([[enc(o) for o in l] for l in arg])
    if func == 'bph':
        p, rnd = variant
        return h.block_payload_hash(base58_encode(pred_of(p), b'B').decode(), rnd, [enc(o) for o in arg])
    raise ValueError(func)


def reference(func, variant, arg):
    if func == 'reduce':
        return ref.merkle_root(arg)
    if func == 'olh':
        return ref.operation_list_hash(arg)
    if func == 'ollh':
        return ref.operation_list_list_hash(arg)
    p, rnd = variant
    return ref.block_payload_hash(pred_of(p), rnd, arg)


def pred_of(p):
    return PREDS[p] if isinstance(p, int) else p


FUNC_NAME = {'reduce': '_reduce_operation_hashes', 'olh': 'operation_list_hash', 'ollh': 'operation_list_list_hash',
             'bph': 'block_payload_hash'}


def vtxt(variant):
    if isinstance(variant, tuple):
        return tuple(v.hex() if isinstance(v, bytes) else v for v in variant)
    return variant


def evaluate(case):
    """-> list of (func, variant, shape label, nontrivial?, descriptor-or-None, detail)."""
    res = []
    for func, variant, arg in inputs_of(case):
        if func == 'ollh':
            lens = [len(l) for l in arg]
            sh = f'outer {shape(len(arg))}' + (', some inner padded' if any(needs_padding(x) for x in lens) else '')
            flat = [o for l in arg for o in l]
            nt = needs_padding(len(arg)) or any(needs_padding(x) for x in lens) or len(set(flat)) < len(flat) \
                or len(set(map(tuple, arg))) < len(arg)
        else:
            sh = shape(len(arg))
            nt = needs_padding(len(arg)) or len(set(arg)) < len(arg)
        if case['kind'] == 'embed':
            sh += ', planted ' + ('predecessor' if case['pos'] == 'pred' else 'operation hash')
            nt = True
        elif case['kind'] == 'selfpref':
            sh += ', inner hash contains its kind prefix'
            nt = True
        want = reference(func, variant, arg)
        try:
            got = impl(func, variant, arg)
        except Exception as e:  # noqa
            res.append((func, variant, sh, nt, f'{FUNC_NAME[func]} raises on {sh} list',
                        f'{type(e).__name__}: {e}'))
            continue
        if got != want:
            g = got.hex() if isinstance(got, bytes) else got
            w = want.hex() if isinstance(want, bytes) else want
            res.append((func, variant, sh, nt, f'{FUNC_NAME[func]} differs from the Merkle root on {sh} list',
                        f'variant={vtxt(variant)} got={g} expected={w}'))
        else:
            res.append((func, variant, sh, nt, None, ''))
    return res


# ---------------------------------------------------------------------------------------------------------------
def words(alphabet, maxlen):
    for ln in range(maxlen + 1):
        for w in itertools.product(alphabet, repeat=ln):
            yield ''.join(w)


def all_cases(tier):
    """Deterministic, simplest-first stream of (group, case)."""
    thorough = tier == 'thorough'
    rounds = ROUNDS[tier]
    for n in range(0, (1100 if thorough else 260) + 1):
        yield {'kind': 'len', 'n': n, 'rounds': rounds, 'preds': 3 if thorough else 2}
    for w in words('AB', 12 if thorough else 10):
        yield {'kind': 'word', 'word': w}
    if thorough:
        for w in words('ABC', 7):
            if 'C' in w:
                yield {'kind': 'word', 'word': w}
    for outer in range(0, 5):
        for lens in itertools.product(range(0, 5), repeat=outer):
            yield {'kind': 'll', 'lens': list(lens)}
    inner = list(words('AB', 2))
    for outer in range(0, (4 if thorough else 3) + 1):
        for ws in itertools.product(inner, repeat=outer):
            yield {'kind': 'llw', 'words': list(ws)}
    for carrier in range(3 if thorough else 1):
        for pat in PATTERNS:
            for off in range(0, 32 - len(pat) + 1):
                for n, pos in PLACEMENTS:
                    yield {'kind': 'embed', 'pat': pat, 'off': off, 'carrier': carrier, 'n': n, 'pos': pos}
                for n in (0, 1, 3):
                    yield {'kind': 'embed', 'pat': pat, 'off': off, 'carrier': carrier, 'n': n, 'pos': 'pred'}
    for idx in selfprefixed(8 if thorough else 4):
        for place in ('alone', 'first', 'last', 'twice', 'middle'):
            yield {'kind': 'selfpref', 'idx': idx, 'place': place}


NSHARDS = {'quick': 16, 'thorough': 64}


def shards(tier, seed):
    return [(k, NSHARDS[tier]) for k in range(NSHARDS[tier])]


def run_shard(spec, tier):
    k, m = spec
    r = Result()
    last = None
    for i, case in enumerate(all_cases(tier)):
        # interleaved split keeps the O(n) 'len' cases balanced over the workers
        if i % m != k:
            continue
        for func, variant, sh, nt, desc, detail in evaluate(case):
            r.ev()
            if nt:
                r.nt((func, variant, case['kind'], case.get('n'), case.get('word'), tuple(case.get('lens', ())),
                      tuple(case.get('words', ())), case.get('pat'), case.get('off'), case.get('carrier'), case.get('pos'),
                      tuple(case.get('idx', ())), case.get('place')))
            r.out(f'{func}: {sh}: ' + ('equal' if desc is None else 'MISMATCH'))
            if desc is not None:
                r.viol(desc, case, detail)
        if last is None and k == 0:
            r.sample(case)
        elif case['kind'] == 'len' and case['n'] in (3, 5, 1024 + k) or case.get('word') in ('AAB', 'ABABA'):
            if len(r.samples) < 3:
                r.sample(case)
        last = case
    if last is not None and k == m - 1:
        r.sample(last)
    return r


def replay(case):
    return [(d, detail) for _, _, _, _, d, detail in evaluate(case) if d is not None]


def observe(case):
    out = []
    for func, variant, arg in inputs_of(case):
        try:
            got = impl(func, variant, arg)
        except Exception as e:  # noqa
            got = f'raise {type(e).__name__}'
        out.append([func, vtxt(variant), got])
    return out
