"""C31 — operation list / list-list / block payload hashes follow the Tezos Merkle construction.

Small-scope exhaustive input enumeration.  Every list length up to the bound (distinct leaves), every
word up to a length bound over a tiny hash alphabet (repeated leaves, all-zero / all-ones hashes), and every
list-of-lists shape up to 4 x 4 is pushed through the real `operation_list_hash`,
`operation_list_list_hash`, `block_payload_hash` (base58 in, base58 out) and the underlying
`_reduce_operation_hashes`, and compared with the plain-Python reference in mc/ref/merkle.py (pad to a
power of two with copies of the last leaf, reduce pairwise; own Base58Check).
"""
from __future__ import annotations

import itertools

from mc.engine.report import Result
from mc.ref import merkle as ref

ID = 'C31'
LEVEL = 'exploration'
RULE = ('cases = (function, input list) pairs; inputs: every length 0..N with distinct leaves, every word of length '
        '<=L over the hash alphabet {00*32, ff*32[, third]}, every list-of-lists shape (outer<=4, inner<=4) with distinct '
        'leaves and every list of <=K inner words of length <=2 over {00*32, ff*32}; payload rounds/predecessors from a '
        'small set.  Non-trivial = the input needs padding (some length is not a power of two) or repeats a leaf; '
        'distinct by (function, input, round, predecessor)')
BOUND = {
    'quick': 'lengths 0..260 (crosses 2^8); words <=10 over 2 hashes; list-lists 4x4 shapes + <=3 inner words; rounds {0,1,2^31-1}',
    'thorough': 'lengths 0..1100 (crosses 2^10); words <=12 over 2 hashes and <=7 over 3; list-lists 4x4 shapes + <=4 '
                'inner words; rounds {0,1,255,256,65536,2^31-1}; 3 predecessors',
}
ASSUMPTIONS = [
    'reference Merkle root = the construction in the property statement (validated against the three mainnet/ithacanet '
    'literals of tests/unit_tests/test_crypto/test_hashes.py by mc.ref.merkle.selftest)',
    'payload rounds outside int32 (negative or >= 2^31) are not part of the statement and are not explored',
]
LEVEL_TEXT = ('exhaustive over all list lengths up to the bound and all small words over a collision-forcing hash alphabet; '
              'says nothing about lengths beyond the bound, but the algorithm has no length-dependent branch other than '
              'parity of the level size, all of which occur below 2^10')

LETTERS = {'A': b'\x00' * 32, 'B': b'\xff' * 32, 'C': ref.H(b'verif-c31-letter-C')}
PREDS = [b'\x00' * 32, b'\xff' * 32, ref.H(b'verif-c31-predecessor')]
ROUNDS = {'quick': [0, 1, 2**31 - 1], 'thorough': [0, 1, 255, 256, 65536, 2**31 - 1]}
_LEAVES: list = []


def leaves(n):
    while len(_LEAVES) < n:
        _LEAVES.append(ref.H(b'verif-c31-leaf' + len(_LEAVES).to_bytes(4, 'big')))
    return _LEAVES[:n]


def shape(n):
    if n == 0:
        return 'empty'
    if n == 1:
        return 'single'
    if n & (n - 1) == 0:
        return 'power-of-two'
    return 'odd' if n % 2 else 'even-non-power-of-two'


def needs_padding(n):
    return n > 1 and n & (n - 1) != 0


def inputs_of(case):
    """Concrete (function, variant, args) evaluations of one case.  Lists are raw 32-byte hashes."""
    k = case['kind']
    out = []
    if k == 'len':
        ops = leaves(case['n'])
        n = len(ops)
        out.append(('reduce', None, ops))
        out.append(('olh', None, ops))
        for rnd in case['rounds']:
            out.append(('bph', (0, rnd), ops))
        for p in range(1, case['preds']):
            out.append(('bph', (p, 0), ops))
        out.append(('ollh', 'whole', [ops]))
        out.append(('ollh', 'halves', [ops[:n // 2], ops[n // 2:]]))
        out.append(('ollh', 'singletons', [[o] for o in ops]))
    elif k == 'word':
        ops = [LETTERS[c] for c in case['word']]
        out.append(('reduce', None, ops))
        out.append(('olh', None, ops))
        out.append(('bph', (1, 1), ops))
        out.append(('ollh', 'whole', [[], ops]))
        out.append(('ollh', 'singletons', [[o] for o in ops]))
    elif k == 'll':
        pool = leaves(sum(case['lens']))
        lists, i = [], 0
        for ln in case['lens']:
            lists.append(pool[i:i + ln])
            i += ln
        out.append(('ollh', 'shape', lists))
    elif k == 'llw':
        out.append(('ollh', 'words', [[LETTERS[c] for c in w] for w in case['words']]))
    else:
        raise ValueError(k)
    return out


def impl(func, variant, arg):
    from pytezos.crypto import hash as h
    from pytezos.crypto.encoding import base58_encode
    enc = lambda b: base58_encode(b, b'o').decode()
    if func == 'reduce':
        return h._reduce_operation_hashes(list(arg))
    if func == 'olh':
        return h.operation_list_hash([enc(o) for o in arg])
    if func == 'ollh':
        return h.operation_list_list_hash([[enc(o) for o in l] for l in arg])
    if func == 'bph':
        p, rnd = variant
        return h.block_payload_hash(base58_encode(PREDS[p], b'B').decode(), rnd, [enc(o) for o in arg])
    raise ValueError(func)


def reference(func, variant, arg):
    if func == 'reduce':
        return ref.merkle_root(arg)
    if func == 'olh':
        return ref.operation_list_hash(arg)
    if func == 'ollh':
        return ref.operation_list_list_hash(arg)
    p, rnd = variant
    return ref.block_payload_hash(PREDS[p], rnd, arg)


FUNC_NAME = {'reduce': '_reduce_operation_hashes', 'olh': 'operation_list_hash', 'ollh': 'operation_list_list_hash',
             'bph': 'block_payload_hash'}


def evaluate(case):
    """-> list of (func, variant, shape label, nontrivial?, descriptor-or-None, detail)."""
    res = []
    for func, variant, arg in inputs_of(case):
        if func == 'ollh':
            lens = [len(l) for l in arg]
            sh = f'outer {shape(len(arg))}' + (', some inner padded' if any(needs_padding(x) for x in lens) else '')
            flat = [o for l in arg for o in l]
            nt = needs_padding(len(arg)) or any(needs_padding(x) for x in lens) or len(set(flat)) < len(flat) \
                or len(set(map(tuple, arg))) < len(arg)
        else:
            sh = shape(len(arg))
            nt = needs_padding(len(arg)) or len(set(arg)) < len(arg)
        want = reference(func, variant, arg)
        try:
            got = impl(func, variant, arg)
        except Exception as e:  # noqa
            res.append((func, variant, sh, nt, f'{FUNC_NAME[func]} raises on {sh} list',
                        f'{type(e).__name__}: {e}'))
            continue
        if got != want:
            g = got.hex() if isinstance(got, bytes) else got
            w = want.hex() if isinstance(want, bytes) else want
            res.append((func, variant, sh, nt, f'{FUNC_NAME[func]} differs from the Merkle root on {sh} list',
                        f'variant={variant} got={g} expected={w}'))
        else:
            res.append((func, variant, sh, nt, None, ''))
    return res


# ---------------------------------------------------------------------------------------------------------------
def words(alphabet, maxlen):
    for ln in range(maxlen + 1):
        for w in itertools.product(alphabet, repeat=ln):
            yield ''.join(w)


def all_cases(tier):
    """Deterministic, simplest-first stream of (group, case)."""
    thorough = tier == 'thorough'
    rounds = ROUNDS[tier]
    for n in range(0, (1100 if thorough else 260) + 1):
        yield {'kind': 'len', 'n': n, 'rounds': rounds, 'preds': 3 if thorough else 2}
    for w in words('AB', 12 if thorough else 10):
        yield {'kind': 'word', 'word': w}
    if thorough:
        for w in words('ABC', 7):
            if 'C' in w:
                yield {'kind': 'word', 'word': w}
    for outer in range(0, 5):
        for lens in itertools.product(range(0, 5), repeat=outer):
            yield {'kind': 'll', 'lens': list(lens)}
    inner = list(words('AB', 2))
    for outer in range(0, (4 if thorough else 3) + 1):
        for ws in itertools.product(inner, repeat=outer):
            yield {'kind': 'llw', 'words': list(ws)}


NSHARDS = {'quick': 16, 'thorough': 64}


def shards(tier, seed):
    return [(k, NSHARDS[tier]) for k in range(NSHARDS[tier])]


def run_shard(spec, tier):
    k, m = spec
    r = Result()
    last = None
    for i, case in enumerate(all_cases(tier)):
        # interleaved split keeps the O(n) 'len' cases balanced over the workers
        if i % m != k:
            continue
        for func, variant, sh, nt, desc, detail in evaluate(case):
            r.ev()
            if nt:
                r.nt((func, variant, case['kind'], case.get('n'), case.get('word'), tuple(case.get('lens', ())),
                      tuple(case.get('words', ()))))
            r.out(f'{func}: {sh}: ' + ('equal' if desc is None else 'MISMATCH'))
            if desc is not None:
                r.viol(desc, case, detail)
        if last is None and k == 0:
            r.sample(case)
        elif case['kind'] == 'len' and case['n'] in (3, 5, 1024 + k) or case.get('word') in ('AAB', 'ABABA'):
            if len(r.samples) < 3:
                r.sample(case)
        last = case
    if last is not None and k == m - 1:
        r.sample(last)
    return r


def replay(case):
    return [(d, detail) for _, _, _, _, d, detail in evaluate(case) if d is not None]


def observe(case):
    out = []
    for func, variant, arg in inputs_of(case):
        try:
            got = impl(func, variant, arg)
        except Exception as e:  # noqa
            got = f'raise {type(e).__name__}'
        out.append([func, variant, got])
    return out
