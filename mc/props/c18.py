"""C18 -- Michelson text formatting and parsing are inverse.

Bounded exhaustive exploration of the input space of
    michelson_to_micheline(micheline_to_michelson(e, inline, wrap)) == e          inline, wrap in {True, False}
over grammar-directed Micheline expressions.  EVERY case of every family below is formatted with all four combinations of the
formatter's public options; a (case, inline) whose text `wrap=True` leaves unchanged shares the verdict of the unwrapped text
(the parser is a function of the text), every other combination is parsed and judged on its own -- so `wrap` meets every
sort, the short and the long (line-breaking) version of every form, and every literal.  The parser's options are a
dimension too: the default path `michelson_to_micheline(text)` (a new parser per call), a reused `MichelsonParser()` passed
as `parser=`, and a reused `MichelsonParser(extra_primitives=[..])` called through `.parse(text)`:

  A  sort-directed family.  `mc/ref/msyntax.py` fixes the Michelson sort grammar (type / data / instruction /
     code sequence / script).  NODE FORMS of a sort (every primitive of that sort, every admissible signature,
     a few argument fillers, every annotation list of the alphabet) are plugged into every HOST CHAIN of depth
     <= K (a host is a one-hole context `option [], PUSH [] 1, { DROP ; [] }, IF { [] } {}, code-section-of-a-script,
     CREATE_CONTRACT [] ...`; chains compose hosts whose sorts fit).  Every (chain, form) is formatted and parsed
     in a short version and in a LONG version (long fillers, padded annotations/strings/bytes) so that the > 100
     column multi-line branches of the formatter are taken, each with inline=True and inline=False.
  L  literal families: strings over printable ASCII (every single character, every word of length <= n over the
     characters the lexer treats specially), integers incl. negatives and 0, bytes incl. empty, in every data host.
  L2 literal combinations: every ORDERED PAIR (and every triple over a smaller alphabet) of literals -- strings over the
     special characters, ints, bytes -- side by side in one text, in every two-hole data/code host, short and with a long
     trailing filler (multi-line layout): what one literal does to the lexing of the NEXT one.
  B  sort-blind family: EVERY primitive of `prim_tags` (also the TZT/REPL keywords) applied to every tuple of
     0..n arguments over a pool of argument shapes, bare and annotated, at root, in sequence position and in
     argument position.
  H  call histories.  A..B run through ONE reused MichelsonParser (its own kind of history); H runs SEQUENCES of round trips
     through the default path `michelson_to_micheline(text)` inside one shard (= one process), forwards and then backwards,
     every call judged on its own, every returned expression scribbled over before the next call.  The sequences are
     neighbourhoods of texts that are easy to confuse: the string alphabet (incl. white-space runs of different length
     inside/around a string) in one host, ints/bytes (both hex cases), all type / instruction / data / code / script
     forms, the short and the long version of one form, words that are a type, an instruction and a constructor up to
     case (int INT, pair PAIR Pair).

Oracle: the round trip itself.  It is applied only where the statement applies: `msyntax.root_sort(e)` must say
that e denotes Michelson code, a type or data; everything else (ill-sorted applications, annotated data,
non-Michelson primitives, one-section scripts) is explored, its outcome class recorded, and gets NO verdict.
"""
from __future__ import annotations

import copy
import itertools
import json
import re

from mc.engine.report import Result
from mc.ref import msyntax as G

ID = 'C18'
LEVEL = 'exploration'
RULE = ('every case x inline{T,F} x wrap{F,T} (wrap=True evaluated where it changes the text, else it shares the verdict); '
        'A: (host chain of depth<=K) x (node form of the hole sort: every primitive x signature x argument fillers x '
        'annotation list incl. lists with a repeated token) x {short,long}; A depth<=1 and L are also parsed by a parser constructed with '
        'extra_primitives (through .parse); L: literal alphabets x data hosts; '
        'L2: ordered pairs / triples of literals x two-/three-hole hosts x {short, long trailing filler}; B: every prim_tags '
        'primitive x argument-shape tuples x {bare,annotated} x generic hosts; H: sequences of default-parser round trips in '
        'one process, forwards then backwards, each call judged, results scribbled over between calls.  JUDGED = msyntax.root_sort(expr) is not None.  '
        'non-trivial = distinct judged (expr, inline, wrap) that contains at least one feature the statement names: applied or '
        'annotated primitive in argument position, string needing an escape, negative int, bytes, nested/empty sequence, '
        'or whose text takes the multi-line layout or is changed by wrap=True')
BOUND = {
    'quick': 'A: chains depth<=1 with 12 annotation lists (3 with a repeated token), depth 2 with 4 on reduced forms; L: strings len<=2 '
             'over 13 special chars + all 96 single chars + white-space words len<=4, 14 ints, 7 byte strings; L2: 96^2 ordered pairs '
             '(strings len<=2 over 9 special chars, 3 ints, 2 byte strings) x 7 hosts, 8^3 triples x 2 hosts; B: 181 prims x tuples '
             'len<=2 over 8 shapes x 2 x 8 hosts; H: 13 sequences (strings in 4 hosts, literals, types at root and in argument '
             'position, data, instructions, code+scripts, short/long, same word up to case, one datum below every data host short/long), '
             'about 16k default-parser calls; all of it x inline{T,F} x wrap{F,T}; A depth<=1 and L also through the extra_primitives parser',
    'thorough': 'A: chains depth<=2 with 18 annotation lists (5 with a repeated token), depth 3 with 3 on reduced forms; L: strings len<=3; '
                'L2: 204^2 ordered pairs (strings len<=2 over 13 special chars, 14 ints, 7 byte strings) x 7 hosts, 14^3 triples; '
                'B: tuples len<=3; H: strings (white-space words len<=6) in every data host of depth<=1, other sequences as quick '
                'with the thorough annotation lists, plus one datum below every data host short/long; options and parser variants as quick',
}
ASSUMPTIONS = [
    '"denotes Michelson code, a type or data" is read syntactically: primitive classes, arities and argument sorts of '
    'mc/ref/msyntax.py (validated: classifies all 181 prim_tags, accepts the 20 recorded contracts); no type checking',
    'annotation syntax is the Michelson reference regexp @%|@%%|%@|[@:%][_0-9a-zA-Z][_0-9a-zA-Z.%@]* (plus the empty '
    'annotations); annotations on data constructors and sections are outside the statement',
    'bulk cases (A, L, L2, B) reuse one MichelsonParser instance per worker; the first 25 failures of every shard and every 200th case are '
    're-run through the default path michelson_to_micheline(text) and must agree; family H uses the default path only',
    'history: only what family H puts into one shard is a guaranteed history (the runner keeps a shard inside one process); '
    'which shards share a process is fixed for a given seed but not part of the claim',
    '`Ticket` data is taken as Ticket <ticketer> <type> <content> <amount>',
    'formatting options: inline and wrap are all micheline_to_michelson accepts; "formatting it as Michelson text" is read as '
    'formatting with any combination of them (the parser documents that it accepts the wrapped form).  Parser options: '
    'extra_primitives is exercised with words that occur in no case; debug=True / write_tables=True make PLY write parser.out / '
    'parsetab.py into the package directory of the tree under test and are NOT exercised',
]
LEVEL_TEXT = ('exhaustive over the stated finite universe of expressions (every primitive, every admitted position, '
              'both layouts); says nothing about expressions deeper than the chain bound')

# ------------------------------------------------------------------------------------------------
# builders


def P(prim, *args, a=None):
    d = {'prim': prim}
    if args:
        d['args'] = list(args)
    if a:
        d['annots'] = list(a)
    return d


def I(n):
    return {'int': str(n)}


def S(s):
    return {'string': s}


def B(h):
    return {'bytes': h}


CONST = P('constant', S('exprtWsu1N8st7XBhS685Qa2B83WTTq7tfQKpeLfTKSXgtgGwhfKbk'))
LONGS = 'x' * 90
# annotation lists; REPEATED: the same token more than once on one primitive (adjacent, with the `%` placeholder as in
# `PAIR % % %c`, the special `%@ %@` of the SET_CxR/MAP_CxR expansions, non-adjacent)
REPEATED = {
    'quick': [['%a', '%a'], ['%@', '%@'], ['%', '%', '%a']],
    'thorough': [['%a', '%a'], ['%@', '%@'], ['%', '%', '%a'], [':t', '%a', ':t'], ['@v', '@v', '@v']],
}
ANN = {
    'quick': [[], ['%a'], [':t'], ['@v'], ['%a', ':t'], ['%@'], ['@%%'], ['%'], ['%a%b']] + REPEATED['quick'],
    'thorough': [[], ['%a'], [':t'], ['@v'], ['%a', ':t'], ['%@'], ['@%%'], ['%'], ['%a%b'],
                 ['%%'], ['%a.b_1'], ['@a@'], [':t', '%a', '@v']] + REPEATED['thorough'],
}
ANN_SMALL = [[], ['%a'], ['%a', ':t'], ['@a%b']]
ANN_TINY = [[], ['%a'], [':t', '@v']]


def tf(L):
    return P('int', a=[':' + 't' * 90]) if L else P('int')


def df(L):
    return S(LONGS) if L else I(1)


def cf(L):
    return P('PUSH', P('string'), S(LONGS)) if L else P('DROP')


PAD_RE = re.compile(r'^[@:%][_0-9a-zA-Z]')


def lengthen(e):
    """Pad every plain annotation, string and byte string so that the formatter's line budget is exceeded."""
    if isinstance(e, list):
        return [lengthen(x) for x in e]
    if 'prim' in e:
        d = {'prim': e['prim']}
        if 'args' in e:
            d['args'] = [lengthen(x) for x in e['args']]
        if 'annots' in e:
            d['annots'] = [a + '_' * 40 if PAD_RE.match(a) else a for a in e['annots']]
        return d
    if 'string' in e:
        return {'string': e['string'] + 'x' * 70}
    if 'bytes' in e:
        return {'bytes': e['bytes'] + 'ab' * 40}
    return e


# ------------------------------------------------------------------------------------------------
# node forms per sort

def forms_T(anns, reduced=False):
    TA = [P('int'), P('chest', a=['%c']), P('option', P('nat'))]
    T2 = [(TA[0], P('nat')), (TA[1], TA[0]), (TA[0], TA[1]), (TA[2], P('list', P('int', a=[':e'])))]
    out = []
    for a in anns:
        for t in G.TYPES0:
            out.append(P(t, a=a))
        for u, n in G.TYPES_N.items():
            if n == 1:
                out += [P(u, x, a=a) for x in (TA[:1] if reduced else TA)]
            else:
                out += [P(u, x, y, a=a) for x, y in (T2[:1] if reduced else T2)]
        out.append(P('pair', P('int'), P('nat'), a=a))
        if not reduced:
            out += [P('pair', TA[1], TA[0], a=a), P('pair', TA[0], TA[1], a=a),
                    P('pair', P('int'), P('nat'), P('string'), a=a),
                    P('pair', TA[2], P('int'), P('chest_key', a=['@k']), a=a),
                    P('pair', P('int'), P('nat'), P('string'), P('bytes'), P('unit'), a=a)]
        for s in G.TYPES_INT:
            out.append(P(s, I(8), a=a))
    out.append(CONST)
    return out


SCRIPT_MIN = [P('parameter', P('unit')), P('storage', P('unit')), P('code', [P('CDR'), P('NIL', P('operation')), P('PAIR')])]
SCRIPT_VIEW = [P('storage', P('int', a=['%s'])), P('parameter', P('or', P('unit', a=['%a']), P('nat', a=['%b']))),
               P('view', S('get'), P('unit'), P('int'), [P('CDR')]), P('code', []),
               P('view', S('v_2'), P('pair', P('int'), P('nat')), P('option', P('int')), [P('DROP'), P('NONE', P('int'))])]


def forms_D():
    lam = P('Lambda_rec', [P('DROP')])
    out = [I(0), I(1), I(-1), I(-12345678901234567890123), S(''), S('a'), S('a"b'), S('\\'), S('a\nb'), S('\\"'),
           S(' # x /* y */ ; { ( '), B(''), B('00'), B('0123456789abcdef'),
           P('Unit'), P('True'), P('False'), P('None')]
    DA = [I(1), P('Unit'), P('Some', I(-1)), P('Pair', I(1), S('a')), [], P('Lambda_rec', []), [P('DROP')], CONST]
    for c in G.DATA1:
        out += [P(c, x) for x in DA]
    out += [P('Pair', I(1), I(2)), P('Pair', P('Left', I(1)), P('Right', S('"'))), P('Pair', I(1), I(2), I(3)),
            P('Pair', I(-1), I(-2), B(''), S('')), P('Pair', [], []), P('Pair', lam, I(1)), P('Pair', I(1), lam),
            P('Pair', CONST, CONST), P('Pair', P('Pair', I(1), I(2)), P('Pair', I(3), I(4)))]
    out += [[], [I(1)], [I(-1), I(-2)], [[]], [[], []], [[I(1)], [I(2), I(3)], []], [S('a'), S('"')], [B(''), B('00')],
            [P('Elt', I(1), I(2))], [P('Elt', I(1), I(2)), P('Elt', P('Pair', I(1), I(2)), P('Some', I(3)))],
            [P('Elt', S('a'), [P('Elt', I(1), lam)])], [P('Pair', I(1), I(2)), P('Pair', I(3), I(4))],
            [P('Some', I(1)), P('None')], [lam, lam], [P('DROP')], [P('PUSH', P('int'), I(1)), P('DROP')]]
    out += [lam, P('Lambda_rec', []), P('Lambda_rec', [[P('DROP')], P('IF', [], [P('UNIT')])]),
            P('Ticket', S('KT1BEqzn5Wx8uJrZNvuS9DVHmLvG9td3fDLi'), P('nat'), I(1), I(2)),
            P('Ticket', S('KT1BEqzn5Wx8uJrZNvuS9DVHmLvG9td3fDLi'), P('pair', P('int', a=['%a']), P('chest')),
              P('Pair', I(1), B('')), I(2)),
            CONST]
    return out


def forms_I(anns, reduced=False):
    ch = {
        'T': [P('int'), P('pair', P('int', a=['%x']), P('chest_key'))],
        'D': [I(1), P('Pair', S('a"'), P('Some', I(-1)))],
        'C': [[], [P('DROP')], [[P('UNIT')], P('DROP')]],
        'N': [I(2)],
        'S': [S('v')],
        'X': [SCRIPT_MIN, SCRIPT_VIEW],
    }
    if reduced:
        ch = {'T': ch['T'][-1:], 'D': ch['D'][-1:], 'C': ch['C'][1:2], 'N': ch['N'], 'S': ch['S'], 'X': ch['X'][:1]}
    out = []
    for a in anns:
        for p, sigs in G.INSTR.items():
            for sig in sigs:
                for args in itertools.product(*[ch[s] for s in sig]):
                    out.append(P(p, *args, a=a))
    out.append(CONST)
    return out


def forms_C():
    return [[], [P('DROP')], [P('DROP'), P('SWAP', a=['@s'])], [[]], [[], []], [[P('DROP')], []], [[[P('UNIT')]]],
            [P('PUSH', P('string'), S('a"\\\n')), P('FAILWITH')],
            [P('IF', [P('DIP', I(2), [P('DROP')])], [P('LAMBDA', P('int', a=[':a']), P('chest', a=['%b']), [])])],
            [CONST], [CONST, P('DROP')], [P('DROP'), CONST],
            [P('CREATE_CONTRACT', SCRIPT_MIN)], [P('PUSH', P('lambda', P('unit'), P('unit')), P('Lambda_rec', [P('DROP')]))]]


def forms_X():
    out = []
    for perm in itertools.permutations(SCRIPT_MIN):
        out.append(list(perm))
    v1, v2 = SCRIPT_VIEW[2], SCRIPT_VIEW[4]
    out += [SCRIPT_MIN + [v1], [v1] + SCRIPT_MIN, SCRIPT_MIN[:2] + [v1] + SCRIPT_MIN[2:], SCRIPT_MIN + [v1, v2], SCRIPT_VIEW,
            [P('parameter', P('chest', a=['%c'])), P('storage', CONST), P('code', [CONST])],
            [P('parameter', P('unit', a=['%root'])), P('storage', P('big_map', P('int'), P('chest_key', a=[':k']))),
             P('code', [[]])]]
    return out


# ------------------------------------------------------------------------------------------------
# hosts: (name, in_sort, out_sort, fn(X, L)); sorts T D I C X

def _hosts():
    H = []

    def add(name, i, o, fn):
        H.append((name, i, o, fn))

    for u, n in G.TYPES_N.items():
        if n == 1:
            add(f'{u} []', 'T', 'T', lambda X, L, u=u: P(u, X))
            add(f'{u} %h []', 'T', 'T', lambda X, L, u=u: P(u, X, a=['%h']))
        else:
            add(f'{u} [] t', 'T', 'T', lambda X, L, u=u: P(u, X, tf(L)))
            add(f'{u} t []', 'T', 'T', lambda X, L, u=u: P(u, tf(L), X))
    add('pair [] t', 'T', 'T', lambda X, L: P('pair', X, tf(L)))
    add('pair t []', 'T', 'T', lambda X, L: P('pair', tf(L), X))
    add('pair t [] t', 'T', 'T', lambda X, L: P('pair', tf(L), X, tf(L)))
    for i in ['UNPACK', 'EMPTY_SET', 'NIL', 'NONE', 'LEFT', 'RIGHT', 'CONTRACT', 'CAST', 'EMIT']:
        add(f'{i} []', 'T', 'I', lambda X, L, i=i: P(i, X))
    for i in ['EMPTY_MAP', 'EMPTY_BIG_MAP']:
        add(f'{i} [] t', 'T', 'I', lambda X, L, i=i: P(i, X, tf(L)))
        add(f'{i} t []', 'T', 'I', lambda X, L, i=i: P(i, tf(L), X))
    add('PUSH [] d', 'T', 'I', lambda X, L: P('PUSH', X, df(L)))
    for i in ['LAMBDA', 'LAMBDA_REC']:
        add(f'{i} [] t c', 'T', 'I', lambda X, L, i=i: P(i, X, tf(L), [cf(L)]))
        add(f'{i} t [] c', 'T', 'I', lambda X, L, i=i: P(i, tf(L), X, [cf(L)]))
    add('VIEW "v" []', 'T', 'I', lambda X, L: P('VIEW', S('v'), X))
    add('parameter []', 'T', 'X', lambda X, L: [P('parameter', X), P('storage', tf(L)), P('code', [cf(L)])])
    add('storage []', 'T', 'X', lambda X, L: [P('parameter', tf(L)), P('storage', X), P('code', [cf(L)])])
    add('view "v" [] t', 'T', 'X', lambda X, L: SCRIPT_MIN + [P('view', S('v'), X, tf(L), [cf(L)])])
    add('view "v" t []', 'T', 'X', lambda X, L: SCRIPT_MIN + [P('view', S('v'), tf(L), X, [cf(L)])])
    add('Ticket a [] d n', 'T', 'D', lambda X, L: P('Ticket', S('KT1BEqzn5Wx8uJrZNvuS9DVHmLvG9td3fDLi'), X, df(L), I(1)))

    for c in G.DATA1:
        add(f'{c} []', 'D', 'D', lambda X, L, c=c: P(c, X))
    add('Pair [] d', 'D', 'D', lambda X, L: P('Pair', X, df(L)))
    add('Pair d []', 'D', 'D', lambda X, L: P('Pair', df(L), X))
    add('Pair d [] d', 'D', 'D', lambda X, L: P('Pair', df(L), X, df(L)))
    add('{ [] }', 'D', 'D', lambda X, L: [X])
    add('{ [] ; d }', 'D', 'D', lambda X, L: [X, df(L)])
    add('{ d ; [] }', 'D', 'D', lambda X, L: [df(L), X])
    add('{ Elt [] d }', 'D', 'D', lambda X, L: [P('Elt', X, df(L))])
    add('{ Elt d [] ; Elt d d }', 'D', 'D', lambda X, L: [P('Elt', df(L), X), P('Elt', df(L), df(L))])
    add('Ticket a t [] n', 'D', 'D', lambda X, L: P('Ticket', S('KT1BEqzn5Wx8uJrZNvuS9DVHmLvG9td3fDLi'), tf(L), X, I(1)))
    add('PUSH t []', 'D', 'I', lambda X, L: P('PUSH', tf(L), X))

    add('{ [] }', 'I', 'C', lambda X, L: [X])
    add('{ [] ; c }', 'I', 'C', lambda X, L: [X, cf(L)])
    add('{ c ; [] }', 'I', 'C', lambda X, L: [cf(L), X])
    add('{ c ; [] ; c }', 'I', 'C', lambda X, L: [cf(L), X, cf(L)])
    add('{ {} ; [] }', 'I', 'C', lambda X, L: [[], X])

    for i in ['DIP', 'LOOP', 'LOOP_LEFT', 'ITER', 'MAP']:
        add(f'{i} []', 'C', 'I', lambda X, L, i=i: P(i, X))
    add('DIP 2 []', 'C', 'I', lambda X, L: P('DIP', I(2), X))
    for i in ['IF', 'IF_CONS', 'IF_LEFT', 'IF_NONE']:
        add(f'{i} [] c', 'C', 'I', lambda X, L, i=i: P(i, X, [cf(L)]))
        add(f'{i} c []', 'C', 'I', lambda X, L, i=i: P(i, [cf(L)], X))
    for i in ['LAMBDA', 'LAMBDA_REC']:
        add(f'{i} t t []', 'C', 'I', lambda X, L, i=i: P(i, tf(L), tf(L), X))
    add('nested sequence', 'C', 'I', lambda X, L: X)
    add('Lambda_rec []', 'C', 'D', lambda X, L: P('Lambda_rec', X))
    add('lambda literal', 'C', 'D', lambda X, L: X)
    add('code []', 'C', 'X', lambda X, L: [P('parameter', tf(L)), P('storage', tf(L)), P('code', X)])
    add('view "v" t t []', 'C', 'X', lambda X, L: SCRIPT_MIN + [P('view', S('v'), tf(L), tf(L), X)])
    add('CREATE_CONTRACT []', 'X', 'I', lambda X, L: P('CREATE_CONTRACT', X))
    return H


HOSTS = _hosts()
HOSTS_FROM: dict[str, list[int]] = {}
for _i, _h in enumerate(HOSTS):
    HOSTS_FROM.setdefault(_h[1], []).append(_i)


def chains(sort, depth):
    """All host chains (tuples of host indices, innermost first) of exactly `depth` hosts starting at `sort`."""
    if depth == 0:
        return [()]
    out = []
    for i in HOSTS_FROM.get(sort, []):
        for rest in chains(HOSTS[i][2], depth - 1):
            out.append((i,) + rest)
    return out


def apply_chain(chain, X, L):
    for i in chain:
        X = HOSTS[i][3](X, L)
    return X


def chain_name(chain):
    return ' <- '.join(HOSTS[i][0] for i in reversed(chain)) or 'root'


# ------------------------------------------------------------------------------------------------
# literal alphabets

SPECIAL = ['"', '\\', '\n', ' ', '#', '/', '*', ';', '{', '(', '%', 'n', '0']


def strings(tier):
    out = [''] + [chr(c) for c in range(0x20, 0x7f)] + ['\n']
    n = 2 if tier == 'quick' else 3
    for k in range(2, n + 1):
        out += [''.join(w) for w in itertools.product(SPECIAL, repeat=k)]
    out += [''.join(chr(c) for c in range(0x20, 0x7f)), '\\n', '\\\\"', '/* " */', '# "', '"' * 5, '\\' * 5]
    seen = set(out)
    out += [w for w in ws_words(4 if tier == 'quick' else 6) if w not in seen]
    return out


INTS = [0, 1, -1, 9, -9, 10, -10, 2 ** 63, -2 ** 63, 10 ** 40, -10 ** 40, 255, -256, 10 ** 120]
BYTES = ['', '00', 'ff', '0123456789abcdef', 'ABCDEF', 'abcdef', '00' * 60]


def words(alpha, lo, hi):
    return [''.join(w) for k in range(lo, hi + 1) for w in itertools.product(alpha, repeat=k)]


def ws_words(n):
    """White-space runs of every length inside, before and after a word."""
    return words([' ', 'a'], 1, n)


# L2: literals side by side in one text
PAIR_SPECIAL = ['"', '\\', '\n', ' ', '#', '/', '*', ';', 'a']
TRIPLE = {
    'quick': [S(''), S('"'), S('\\'), S(' '), S('a'), S('\\"'), I(-1), B('00')],
    'thorough': [S(''), S('"'), S('\\'), S(' '), S('a'), S('\\"'), S('"\\'), S('\n'), S('#'), S('/*'), I(-1), I(0), B('00'), B('')],
}


def pair_literals(tier):
    if tier == 'quick':
        return [S(w) for w in words(PAIR_SPECIAL, 0, 2)] + [I(0), I(-1), I(10)] + [B(''), B('00')]
    return [S(w) for w in words(SPECIAL, 0, 2)] + [I(n) for n in INTS] + [B(b) for b in BYTES]


L2_HOSTS = [
    ('Pair [] []', lambda a, b: P('Pair', a, b)),
    ('{ [] ; [] }', lambda a, b: [a, b]),
    ('{ Elt [] [] }', lambda a, b: [P('Elt', a, b)]),
    ('{ PUSH string [] ; PUSH string [] }', lambda a, b: [P('PUSH', P('string'), a), P('PUSH', P('string'), b)]),
    ('Pair [] -1 []', lambda a, b: P('Pair', a, I(-1), b)),
    ('Pair [] [] long', lambda a, b: P('Pair', a, b, S(LONGS), S(LONGS))),
    ('{ [] ; [] ; long }', lambda a, b: [a, b, S(LONGS), S(LONGS)]),
]
L3_HOSTS = [
    ('Pair [] [] []', lambda a, b, c: P('Pair', a, b, c)),
    ('{ [] ; [] ; [] }', lambda a, b, c: [a, b, c]),
]


# ------------------------------------------------------------------------------------------------
# B: sort-blind family

SHAPES = [I(1), S('a'), B('00'), P('int'), P('int', a=['%a']), P('option', P('nat')), [], [P('DROP')]]
B_HOSTS = [
    ('root', lambda X: X),
    ('{ [] }', lambda X: [X]),
    ('{ [] ; UNIT }', lambda X: [X, P('UNIT')]),
    ('{ UNIT ; [] }', lambda X: [P('UNIT'), X]),
    ('Some []', lambda X: P('Some', X)),
    ('Pair [] 1', lambda X: P('Pair', X, I(1))),
    ('Pair 1 []', lambda X: P('Pair', I(1), X)),
    ('IF [] {}', lambda X: P('IF', X, [])),
]


def b_forms(prim, tier):
    n = 2 if tier == 'quick' else 3
    for k in range(n + 1):
        for args in itertools.product(SHAPES, repeat=k):
            for a in ([], ['%a']):
                yield P(prim, *args, a=a)


# ------------------------------------------------------------------------------------------------
# evaluation

_PARSER = None
_XPARSER = None
EXTRA_PRIMITIVES = ['FOO', 'Bar', 'baz_1']      # words no formatted Michelson expression contains


def _shared_parser():
    global _PARSER
    if _PARSER is None:
        from pytezos.michelson.parse import MichelsonParser
        _PARSER = MichelsonParser()
    return _PARSER


def _extra_parser():
    """The other public constructor option that does not write files: a parser told to accept some extra words."""
    global _XPARSER
    if _XPARSER is None:
        from pytezos.michelson.parse import MichelsonParser
        _XPARSER = MichelsonParser(extra_primitives=list(EXTRA_PRIMITIVES))
    return _XPARSER


def fmt(e, inline, wrap=False):
    """-> (text, None) | (None, error)"""
    from pytezos.michelson.format import micheline_to_michelson
    try:
        return micheline_to_michelson(e, inline=inline, wrap=wrap), None
    except Exception as ex:  # noqa
        return None, f'{type(ex).__name__}: {ex}'


def parse_back(e, text, how):
    """how: 'default' = michelson_to_micheline(text); 'shared' = michelson_to_micheline(text, parser=<reused MichelsonParser()>);
    'extra' = <reused MichelsonParser(extra_primitives=..)>.parse(text).  -> (status, back/err)"""
    from pytezos.michelson.parse import michelson_to_micheline
    try:
        if how == 'shared':
            back = michelson_to_micheline(text, parser=_shared_parser())
        elif how == 'extra':
            back = _extra_parser().parse(text)
        else:
            back = michelson_to_micheline(text)
    except Exception as ex:  # noqa
        return 'parse-error', f'{type(ex).__name__}: {ex}'[:300]
    if back == e:
        return 'ok', None
    return 'differs', back


def roundtrip(e, inline, shared=False, wrap=False):
    """-> (status, text, back/err); status in ok | differs | parse-error | format-error."""
    text, err = fmt(e, inline, wrap)
    if text is None:
        return 'format-error', None, err
    status, back = parse_back(e, text, 'shared' if shared else 'default')
    return status, text, back


def _scribble(x):
    """Overwrite a returned expression in place: a later call must not hand the same objects out again."""
    if isinstance(x, list):
        for y in list(x):
            _scribble(y)
        x.append({'prim': 'SCRIBBLED'})
    elif isinstance(x, dict):
        for y in list(x.get('args') or ()):
            _scribble(y)
        if isinstance(x.get('annots'), list):
            x['annots'].append('%scribbled')
        if isinstance(x.get('args'), list):
            x['args'].append({'int': '666'})
        for k in list(x):
            if k in ('int', 'string', 'bytes', 'prim'):
                x[k] = 'scribbled'


def default_roundtrip(e, inline, wrap=False):
    """One round trip through the default path (no parser argument); the parser's result is scribbled over afterwards.
    -> (status, text, back/err) like roundtrip()."""
    from pytezos.michelson.parse import michelson_to_micheline
    text, err = fmt(e, inline, wrap)
    if text is None:
        return 'format-error', None, err
    try:
        back = michelson_to_micheline(text)
    except Exception as ex:  # noqa
        return 'parse-error', text, f'{type(ex).__name__}: {ex}'[:300]
    if back == e:
        _scribble(back)
        return 'ok', text, None
    snap = copy.deepcopy(back)
    _scribble(back)
    return 'differs', text, snap


def walk(e, pos='root', acc=None):
    """Collect features and (prim, position) pairs."""
    if acc is None:
        acc = (set(), set())
    feats, prims = acc
    if isinstance(e, list):
        if not e:
            feats.add('empty-seq')
        if pos == 'seq':
            feats.add('nested-seq')
        for x in e:
            walk(x, 'seq', acc)
    elif 'prim' in e:
        prims.add((e['prim'], pos))
        if pos == 'arg':
            if 'annots' in e:
                feats.add('annotated-arg')
            if 'args' in e:
                feats.add('applied-arg')
        for x in e.get('args', ()):
            walk(x, 'arg', acc)
    elif 'string' in e:
        s = e['string']
        if '"' in s or '\\' in s or '\n' in s:
            feats.add('escaped-string')
    elif 'int' in e:
        if e['int'].startswith('-'):
            feats.add('negative-int')
    elif 'bytes' in e:
        feats.add('bytes' if e['bytes'] else 'empty-bytes')
    return acc


INNER_SPECIAL = re.compile(r'^[@:%]+[_0-9a-zA-Z.]*[%@]')


def _sanitize(e):
    if isinstance(e, list):
        return [_sanitize(x) for x in e]
    if 'prim' in e:
        d = dict(e)
        if 'args' in e:
            d['args'] = [_sanitize(x) for x in e['args']]
        if 'annots' in e:
            d['annots'] = [a[0] + re.sub(r'[%@]', '_', a[1:]) if G.ANNOT_RE.match(a) and len(a) > 2 and a not in ('@%%',)
                           else a for a in e['annots']]
        return d
    return e


def _unparenthesised(e):
    """First argument (pre-order) that is an applied/annotated primitive and that the formatter prints without
    parentheses -- found from the texts only, no knowledge of the formatter's tables."""
    from pytezos.michelson.format import micheline_to_michelson
    if isinstance(e, list):
        for x in e:
            c = _unparenthesised(x)
            if c:
                return c
        return None
    if 'prim' not in e:
        return None
    args = e.get('args', [])
    try:
        host = micheline_to_michelson(e, inline=True)
    except Exception:  # noqa
        host = ''
    for x in args:
        if isinstance(x, dict) and 'prim' in x and ('args' in x or 'annots' in x):
            try:
                child = micheline_to_michelson(x, inline=True)
            except Exception:  # noqa
                continue
            if f'({child})' not in host:
                return x
    for x in args:
        c = _unparenthesised(x)
        if c:
            return c
    return None


def _dedupe(e):
    if isinstance(e, list):
        return [_dedupe(x) for x in e]
    if isinstance(e, dict) and 'prim' in e:
        d = dict(e)
        if 'args' in e:
            d['args'] = [_dedupe(x) for x in e['args']]
        if 'annots' in e:
            d['annots'] = list(dict.fromkeys(e['annots']))
        return d
    return e


def layout_of(text, inline):
    return 'inline' if inline else ('multi-line' if text and '\n' in text else 'one-line')


def diagnose(e, inline, sort, status, text, back, shared=False, wrap=False):
    """Name the class of failure of a judged case."""
    if wrap and roundtrip(e, inline, shared, wrap=False)[0] == 'ok':
        return (f'{sort} expression formatted with wrap=True in {layout_of(text, inline)} layout does not parse back although '
                f'the text formatted without the option does',
                f'{text!r} -> {status}: {_short(back)}')
    if status == 'differs' and _dedupe(e) != e and back == _dedupe(e):
        return ('annotation token repeated on one primitive is parsed back once',
                f'{text!r} parses to {_short(back)}')
    c = _unparenthesised(e)
    if c is not None:
        what = ' and '.join(w for w, k in (('arguments', 'args'), ('annotations', 'annots')) if k in c)
        return (f'argument `{c["prim"]}` with {what} is printed without parentheses',
                f'{text!r} parses to {_short(back)}')
    s = _sanitize(e)
    if s != e and roundtrip(s, inline, shared, wrap)[0] == 'ok':
        return ('annotation containing % or @ after its first character is split by the lexer',
                f'{text!r} parses to {_short(back)}')
    if status == 'format-error':
        return f'formatter raises on a {sort} expression', str(back)
    if status == 'parse-error':
        return f'parser rejects the formatted {sort} expression', f'{text!r}: {back}'
    return f'formatted {sort} expression parses to a different expression', f'{text!r} parses to {_short(back)}'


def _short(x):
    try:
        return json.dumps(x)[:600]
    except Exception:  # noqa
        return repr(x)[:600]


def check_case(e, inline, wrap=False, variant=False):
    """Full verdict for one case through the default code path (and, for a recorded parser-variant case, through a parser
    constructed with extra_primitives).  -> (sort, status, text, [(descriptor, detail)])"""
    sort = G.root_sort(e)
    status, text, back = roundtrip(e, inline, wrap=wrap)
    if sort is None:
        return sort, status, text, []
    if status != 'ok':
        d, detail = diagnose(e, inline, sort, status, text, back, wrap=wrap)
        return sort, status, text, [(d, f'inline={inline} wrap={wrap} expr={_short(e)} :: {detail}')]
    if variant:
        st2, back2 = parse_back(e, text, 'extra')
        if st2 != 'ok':
            return sort, st2, text, [(variant_descriptor(sort), f'inline={inline} wrap={wrap} expr={_short(e)} :: {text!r} -> {st2}: {_short(back2)}')]
    return sort, status, text, []


def variant_descriptor(sort):
    return (f'MichelsonParser(extra_primitives=[words that do not occur]).parse does not give back the {sort} expression '
            f'although the default parser does')


def judge_history_failure(e, inline, sort, status, text, back, wrap=False):
    """A default-path round trip failed in the middle of a sequence.  If the very same expression round-trips through an
    explicitly constructed parser the failure is one of history, otherwise it is classified like any other."""
    from pytezos.michelson.parse import MichelsonParser, michelson_to_micheline
    if text is not None:
        try:
            fresh = michelson_to_micheline(text, parser=MichelsonParser())
        except Exception:  # noqa
            fresh = None
        if fresh == e:
            return [(f'default-parser round trip of a {sort} expression fails after earlier calls in the same process '
                     f'(the same text parses back correctly with an explicitly constructed parser)',
                     f'{text!r} -> {status}: {_short(back)}')]
    return [diagnose(e, inline, sort, status, text, back, wrap=wrap)]


def _call(c):
    """A recorded call [expr, inline] or [expr, inline, wrap]."""
    return c[0], bool(c[1]), bool(c[2]) if len(c) > 2 else False


def run_history(case):
    """Replay of a recorded history case: the recorded earlier calls, then the call itself."""
    for c in case.get('history', []):
        default_roundtrip(*_call(c))
    e, inline, wrap = case['expr'], bool(case['inline']), bool(case.get('wrap', False))
    sort = G.root_sort(e)
    status, text, back = default_roundtrip(e, inline, wrap)
    if sort is None or status == 'ok':
        return []
    return [(d, f'after {len(case.get("history", []))} earlier calls: inline={inline} wrap={wrap} expr={_short(e)} :: {detail}')
            for d, detail in judge_history_failure(e, inline, sort, status, text, back, wrap)]


class Shard:
    def __init__(self, variants=False):
        self.r = Result()
        self.n = 0
        self.confirmed = 0
        self.last = None
        self.variants = variants        # also parse every text with the extra_primitives parser

    def case(self, e, family):
        r = self.r
        sort = G.root_sort(e)
        feats, prims = walk(e)
        for p, pos in prims:
            r.extra[f'~{"j" if sort else "u"}:{p}:{pos}'] += 1
        for inline in (True, False):
            plain = fmt(e, inline, False)[0]
            for wrap in (False, True):
                if wrap:
                    # the option is crossed with every case; where it leaves the text as it is (the parser being a function
                    # of the text) the unwrapped evaluation already is the verdict
                    wtext, werr = fmt(e, inline, True)
                    if werr is None and wtext == plain:
                        r.extra['wrap=True leaves the text unchanged (verdict shared with wrap=False)'] += 1
                        continue
                self.one(e, inline, wrap, sort, feats, family)

    def one(self, e, inline, wrap, sort, feats, family):
        r = self.r
        self.n += 1
        r.ev()
        status, text, back = roundtrip(e, inline, shared=True, wrap=wrap)
        sort_fail = sort is not None and status != 'ok'
        if (sort_fail and self.confirmed < 25) or self.n % 200 == 0:
            self.confirmed += sort_fail
            st2, text2, back2 = roundtrip(e, inline, wrap=wrap)
            r.extra['default_path_reruns'] += 1
            if (st2, text2) != (status, text) or (st2 == 'differs' and back2 != back):
                raise RuntimeError(f'shared parser disagrees with fresh parser on {e!r}: {status} vs {st2}')
        layout = layout_of(text, inline) + (' wrapped' if wrap else '')
        case = {'expr': e, 'inline': inline, 'wrap': wrap}
        self.last = case
        vstatus = vback = None
        if self.variants and text is not None:
            r.extra['texts_also_parsed_with_extra_primitives_parser'] += 1
            vstatus, vback = parse_back(e, text, 'extra')
        if sort is None:
            r.no_verdict += 1
            r.out(f'outside statement / {layout} / {status}')
            return
        r.out(f'{sort} / {layout} / {status}')
        if vstatus is not None:
            r.out(f'{sort} / extra_primitives parser / {vstatus}')
        multi = text is not None and not inline and '\n' in text
        if feats or multi or wrap:
            r.nt((json.dumps(e, sort_keys=True), inline, wrap))
            for f in feats:
                r.extra[f'feature:{f}'] += 1
            if multi:
                r.extra['feature:multi-line layout'] += 1
            if wrap:
                r.extra['feature:wrap=True changes the text' + (' and the layout is multi-line' if multi else '')] += 1
        if status != 'ok':
            d, detail = diagnose(e, inline, sort, status, text, back, shared=True, wrap=wrap)
            r.viol(d, case, f'[{family}] inline={inline} wrap={wrap} expr={_short(e)} :: {detail}')
        elif vstatus not in (None, 'ok'):
            r.viol(variant_descriptor(sort), dict(case, variant=True),
                   f'[{family}] inline={inline} wrap={wrap} expr={_short(e)} :: {text!r} -> {vstatus}: {_short(vback)}')
        if len(r.samples) < 1 or (self.n % 9973 == 0 and len(r.samples) < 3):
            r.sample(case)

    def both(self, chain, form, family):
        short = apply_chain(chain, form, False)
        self.case(short, family)
        long = apply_chain(chain, lengthen(form), True)
        if long != short:
            self.case(long, family)

    def history(self, seq, name):
        """seq: expressions.  Every (expression, layout) through the default path, in order and then in reverse order, inside
        this process; each call is judged on its own."""
        r = self.r
        calls = []
        for e in seq:
            for inline in (True, False):
                calls.append((e, inline, False))
                wtext, werr = fmt(e, inline, True)
                if werr is not None or wtext != fmt(e, inline, False)[0]:
                    calls.append((e, inline, True))       # wrap=True gives another text: another call of the history
        sorts = {id(e): G.root_sort(e) for e in seq}
        keys = {id(e): json.dumps(e, sort_keys=True) for e in seq}
        done = []
        r.extra['history_sequences'] += 1
        for e, inline, wrap in calls + calls[::-1]:
            r.ev()
            r.extra['history_calls_through_default_parser'] += 1
            sort = sorts[id(e)]
            status, text, back = default_roundtrip(e, inline, wrap)
            case = {'expr': e, 'inline': inline, 'wrap': wrap}
            self.last = case
            if sort is None:
                r.no_verdict += 1
                r.out(f'history / outside statement / {status}')
            else:
                r.out(f'history / {sort} / {status}')
                r.nt((keys[id(e)], inline, wrap))
                if wrap:
                    r.extra['history_calls_with_wrap=True'] += 1
                if status != 'ok':
                    for d, detail in judge_history_failure(e, inline, sort, status, text, back, wrap):
                        r.viol(d, dict(case, history=list(done)),
                               f'[H:{name}] call {len(done) + 1} of the sequence: inline={inline} wrap={wrap} expr={_short(e)} :: {detail}')
            done.append([e, inline, wrap])

    def done(self):
        if self.last is not None:
            self.r.sample(self.last)
        return self.r


# ------------------------------------------------------------------------------------------------
# H: call histories

H_STRING_HOSTS = [
    ('root', lambda X: X),
    ('Pair [] -1', lambda X: P('Pair', X, I(-1))),
    ('{ PUSH string [] ; FAILWITH }', lambda X: [P('PUSH', P('string'), X), P('FAILWITH')]),
    ('Some []', lambda X: P('Some', X)),
]


def _same_word_forms():
    """Minimal forms of the primitives whose names coincide up to case (int INT, unit UNIT Unit, pair PAIR Pair ...)."""
    forms = forms_T([[]], True) + forms_I([[]], True) + [P(d) for d in G.DATA0] + [P(c, I(1)) for c in G.DATA1] + \
        [P('Pair', I(1), I(2)), P('Lambda_rec', [P('DROP')]),
         P('Ticket', S('KT1BEqzn5Wx8uJrZNvuS9DVHmLvG9td3fDLi'), P('nat'), I(1), I(2))]
    groups: dict[str, list] = {}
    for f in forms:
        if f is not CONST:
            groups.setdefault(f['prim'].lower(), []).append(f)
    return [f for k in sorted(groups) if len({f['prim'] for f in groups[k]}) > 1 for f in groups[k]]


def history_sequences(tier):
    """[(name, [expression])] -- each sequence is run inside one shard."""
    strs = [S(w) for w in strings('quick')]
    if tier != 'quick':
        seen = {x['string'] for x in strs}
        strs += [S(w) for w in ws_words(6) if w not in seen]
    lits = [I(n) for n in INTS] + [B(b) for b in BYTES]
    hosts = list(H_STRING_HOSTS)
    if tier != 'quick':
        hosts += [(chain_name(c), lambda X, c=c: apply_chain(c, X, False)) for c in chains('D', 1)
                  if chain_name(c) not in dict(H_STRING_HOSTS)]
    seqs = [(f'strings in {n}', [h(x) for x in strs]) for n, h in hosts]
    seqs.append(('ints and bytes', [h(x) for _, h in H_STRING_HOSTS for x in lits]))
    types = forms_T(ANN[tier], True)
    seqs.append(('types at root', types))
    seqs.append(('types in argument position', [P('option', t) for t in types]))
    seqs.append(('data', forms_D()))
    seqs.append(('instructions', forms_I(ANN_TINY + REPEATED['quick'][:1], True)))
    seqs.append(('code and scripts', forms_C() + forms_X()))
    seqs.append(('short and long version of one form', [x for f in forms_D() + forms_C() for x in (f, lengthen(f))]))
    seqs.append(('same word up to case', _same_word_forms()))
    # the same datum below every data host, short and long: with the formatting options crossed in by history() these are
    # the four texts of one expression (plain / wrapped x inline / laid out) next to those of its neighbours
    small = [I(-1), S('a"b'), B('00'), P('Unit'), P('Some', I(1)), P('Pair', I(1), S('a')), [], [I(1), I(2)], [[]],
             P('Lambda_rec', [P('DROP')]), [P('Elt', I(1), P('Left', S('\\')))]]
    dd = [c for c in chains('D', 1) if HOSTS[c[0]][2] == 'D']
    seqs.append(('one datum below every data host, short and long',
                 [apply_chain(c, lengthen(f) if L else f, L) for f in small for c in dd for L in (False, True)]))
    return seqs


# ------------------------------------------------------------------------------------------------
# shards

def _plan(tier):
    """[(family, sort, depth, annset, reduced)]"""
    if tier == 'quick':
        return [('A', s, 0, 'full', False) for s in 'TDICX'] + [('A', s, 1, 'full', False) for s in 'TDICX'] + \
               [('A', s, 2, 'small', True) for s in 'TDICX']
    return [('A', s, d, 'full', False) for s in 'TDICX' for d in (0, 1, 2)] + [('A', s, 3, 'tiny', True) for s in 'TDICX']


def _forms(sort, tier, annset, reduced):
    anns = {'full': ANN[tier], 'small': ANN_SMALL, 'tiny': ANN_TINY}[annset]
    if sort == 'T':
        return forms_T(anns, reduced)
    if sort == 'D':
        return forms_D()
    if sort == 'I':
        return forms_I(anns, reduced)
    if sort == 'C':
        return forms_C()
    return forms_X()


LANES = 16          # the runner's default job count: worker k runs shards[k::16]
MS_BULK, MS_DEFAULT_PATH = 0.12, 3.5     # measured cost of one evaluation through the shared parser / the default path


def shards(tier, seed):
    out = []        # (estimated cost in ms, spec)
    for fam, sort, depth, annset, reduced in _plan(tier):
        nch = len(chains(sort, depth))
        nf = len(_forms(sort, tier, annset, reduced))
        k = max(1, min(nch, (nch * nf) // 6000))
        out += [(nch * nf * 4 * MS_BULK * (1.7 if depth <= 1 else 1.0) / k, (fam, sort, depth, annset, reduced, i, k)) for i in range(k)]
    nhosts = sum(len(chains('D', d)) for d in (0, 1, 2))
    for kind, n in (('string', len(strings(tier))), ('int', len(INTS)), ('bytes', len(BYTES))):
        k = 16 if (kind == 'string' and tier != 'quick') else 4
        out += [(n * nhosts * 4 * MS_BULK * 1.7 / k, ('L', kind, 0, '', False, i, k)) for i in range(k)]
    k = 8 if tier == 'quick' else 32
    n = len(pair_literals(tier))
    out += [(n * n * len(L2_HOSTS) * 2 * MS_BULK / k, ('L2', 'pair', 0, '', False, i, k)) for i in range(k)]
    out += [(len(TRIPLE[tier]) ** 3 * len(L3_HOSTS) * 2 * MS_BULK, ('L2', 'triple', 0, '', False, 0, 1))]
    from pytezos.michelson.tags import prim_tags
    prims = list(prim_tags)
    assert len(prims) == len(G.ALL_CLASSIFIED)
    nb = 32 if tier == 'quick' else 181
    nforms = sum(len(SHAPES) ** j for j in range((2 if tier == 'quick' else 3) + 1)) * 2
    out += [(len(prims) * nforms * len(B_HOSTS) * 2 * MS_BULK / nb, ('B', '', 0, '', False, i, nb)) for i in range(nb)]
    hs = history_sequences(tier)
    # 4 calls per expression, 8 where wrap=True changes the text (judged from the first expression of the sequence)
    out += [(len(seq) * (8 if fmt(seq[0], True, True) != fmt(seq[0], True, False) else 4) * MS_DEFAULT_PATH,
             ('H', '', 0, '', False, i, len(hs))) for i, (_, seq) in enumerate(hs)]
    # deal the shards to the runner's lanes like cards, most expensive first, alternating direction, so that the
    # static lanes carry about the same load (with the default seed; the set of shards never depends on it)
    out.sort(key=lambda ws: -ws[0])
    rows = [out[i:i + LANES] for i in range(0, len(out), LANES)]
    return [spec for j, row in enumerate(rows) for _, spec in (row[::-1] if j % 2 else row)]


def run_shard(spec, tier):
    fam, sort, depth, annset, reduced, i, k = spec
    sh = Shard(variants=(fam == 'A' and depth <= 1) or fam == 'L')
    if fam == 'A':
        forms = _forms(sort, tier, annset, reduced)
        for chain in chains(sort, depth)[i::k]:
            for f in forms:
                sh.both(chain, f, f'A:{sort}:{chain_name(chain)}')
    elif fam == 'L':
        lits = {'string': [S(s) for s in strings(tier)], 'int': [I(n) for n in INTS], 'bytes': [B(b) for b in BYTES]}[sort]
        hosts = [c for d in (0, 1, 2) for c in chains('D', d)]
        extra = []
        if sort == 'string':
            extra = [lambda X: P('constant', X), lambda X: P('VIEW', X, P('unit')),
                     lambda X: SCRIPT_MIN + [P('view', X, P('unit'), P('unit'), [])], lambda X: [P('PUSH', P('string'), X), P('FAILWITH')]]
        if sort == 'int':
            extra = [lambda X: P('sapling_state', X), lambda X: [P('DIP', X, []), P('DROP', X)],
                     lambda X: P('Pair', X, X, X), lambda X: [X, X, X]]
        if sort == 'bytes':
            extra = [lambda X: P('Pair', X, X, X), lambda X: [X, X, X], lambda X: [P('PUSH', P('bytes'), X)]]
        for lit in lits[i::k]:
            for chain in hosts:
                sh.both(chain, lit, f'L:{sort}:{chain_name(chain)}')
            for fn in extra:
                sh.case(fn(lit), f'L:{sort}:extra')
    elif fam == 'L2' and sort == 'pair':
        lits = pair_literals(tier)
        for a in lits[i::k]:
            for b in lits:
                for name, host in L2_HOSTS:
                    sh.case(host(a, b), f'L2:{name}')
    elif fam == 'L2':
        for a, b, c in itertools.product(TRIPLE[tier], repeat=3):
            for name, host in L3_HOSTS:
                sh.case(host(a, b, c), f'L2:{name}')
    elif fam == 'H':
        name, seq = history_sequences(tier)[i]
        sh.history(seq, name)
    else:
        from pytezos.michelson.tags import prim_tags
        for prim in list(prim_tags)[i::k]:
            for form in b_forms(prim, tier):
                for name, host in B_HOSTS:
                    sh.case(host(form), f'B:{name}')
    return sh.done()


# ------------------------------------------------------------------------------------------------

def finalize(res, tier):
    """Coverage audit: every prim_tags primitive explored in root, sequence and argument position; every Michelson
    primitive JUDGED in every position its sort admits.  Holes are reported as caps (exhaustive=false)."""
    from pytezos.michelson.tags import prim_tags
    seen_j, seen_any = set(), set()
    for key in [k for k in res.extra if k.startswith('~')]:
        j, p, pos = key[1:].split(':')
        seen_any.add((p, pos))
        if j == 'j':
            seen_j.add((p, pos))
        del res.extra[key]
    holes = [(p, pos) for p in prim_tags for pos in ('root', 'seq', 'arg') if (p, pos) not in seen_any]
    want = []
    for p in G.TYPE_PRIMS:
        want += [(p, 'root'), (p, 'arg')]
    for p in G.DATA_PRIMS:
        want += [(p, 'seq')] if p == 'Elt' else [(p, 'root'), (p, 'arg'), (p, 'seq')]
    for p in G.INSTR_PRIMS:
        want += [(p, 'root'), (p, 'seq')]
    for p in G.SECTIONS:
        want.append((p, 'seq'))
    want += [(G.CONSTANT, pos) for pos in ('root', 'seq', 'arg')]
    jholes = [w for w in want if w not in seen_j]
    res.extra['primitives_explored_in_all_3_positions'] = len(prim_tags) - len({p for p, _ in holes})
    res.extra['michelson_primitives_judged_in_every_admitted_position'] = len({p for p, _ in want}) - len({p for p, _ in jholes})
    res.extra['primitives_outside_statement'] = len(G.OUTSIDE)
    if holes:
        res.cap(f'coverage hole (explored): {holes[:10]}')
    if jholes:
        res.cap(f'coverage hole (judged): {jholes[:10]}')
    res.notes.append('no verdict for: ill-sorted applications, annotated data constructors/sections, one-section scripts, '
                     'annotations outside the reference syntax (e.g. %%), and the non-Michelson primitives ' + ' '.join(G.OUTSIDE))


def replay(case):
    if 'history' in case:
        return run_history(case)
    return check_case(case['expr'], bool(case['inline']), bool(case.get('wrap', False)), bool(case.get('variant', False)))[3]


def observe(case):
    out = []
    for inline in (True, False):
        for wrap in (False, True):
            st, text, back = roundtrip(case['expr'], inline, wrap=wrap)
            out.append([st, text, _short(back) if back is not None else None])
    return out
