"""C20 — tickets are never forged, duplicated, zeroed or merged incorrectly.

Explicit-state model checking.  State = a stack (reference form, mc.ref.mtypes) whose slots may hold tickets, bare or
inside pairs, options and lists.  From the empty stack every transition of the alphabet that the ticket typing
discipline (mc.ref.meval.typecheck: no DUP of a ticket-bearing slot, JOIN only on pairs of equal ticket types, ...)
accepts is executed on the REAL instruction classes (Micheline.match(expr).execute on a real MichelsonStack) and, in
lock-step, on the reference evaluator; the implementation's resulting stack is read structurally and compared with the
reference state, which is the canonical state used for deduplication (BFS, shortest history first).

Oracles, all taken from the statement and evaluated on the implementation's own stacks:
  * ledger: per (ticketer, contents) the total amount changes only on TICKET and then by exactly its amount; every
    other transition leaves it unchanged, except those that consume tickets, which may only decrease it;
  * no ticket with amount 0 anywhere on the stack;
  * TICKET with amount 0 -> None;  SPLIT_TICKET -> None iff a part is 0 or the parts do not sum to the amount;
    JOIN_TICKETS -> Some iff ticketer and contents agree (and then the amounts add up);
  * guards, once per state: DUP / DUP n of a slot that holds a ticket anywhere inside must be refused.
GET n on a pair that holds tickets is NOT a guard: Tezos types it (the pair is consumed, the other components are
dropped), so it is run as a consuming instruction and judged by the ledger like DROP.

Besides the BFS two families of scripted histories run through the same judge, transition by transition:
  * contents family ("all contents"): for every comparable content type of nesting depth <= 3 over nat/string/bytes/bool/int/unit
    with option/or/pair, and ALL its values over two-valued atom domains that contain the empty / zero / false value
    (so Left x / Right x, None / Some <empty>, "" / 0x, swapped pair components all collide if anything confuses them),
    every ordered pair of values is minted, paired and JOINed; a successful join is SPLIT, READ and JOINed again;
  * shape family: a ticket buried under every chain of wrappers (option, pair with a nat on either side, list, or on either
    side, map value).
Process history: a DUP guard is not only tried on the ticket stack; the first time a stack shape is met in a shard the
same DUP is first executed on the ticket-free value of the same shape (tickets replaced by their contents, built by
PUSH - it is legal and is what ordinary programs do), then on the ticket stack, then both again (A-B-A-B), each ticket
DUP judged.  A history that is replayed to rebuild a state must reproduce the state it gave the first time.
"""
from __future__ import annotations

import copy
import json

from mc import adapter as A
from mc.engine.report import Result
from mc.ref import meval as M
from mc.ref import mtypes as T

ID = 'C20'
LEVEL = 'model_checking'
RULE = ('BFS from the empty stack over TICKET(self in {default,KT1x}, amount 0..3, contents "a"/"b"), READ_TICKET, '
        'SPLIT_TICKET (x,y) in {0..3}^2, JOIN_TICKETS, PAIR, UNPAIR, SWAP, DIG 2, DUG 2, DROP, SOME, IF_NONE{FAIL}{}, NIL, CONS, '
        'ITER{DROP}, ITER{PAIR;JOIN_TICKETS;IF_NONE{FAIL}{}}, GET 1/GET 2 (consuming); state = stack in reference form; every '
        'transition runs on the real instruction classes and on the reference evaluator and both stacks must agree; '
        'contents family: per comparable content type (atoms nat/string/bytes/bool/int/unit with 2 values each incl. the empty/zero/false '
        'one; cores = atom | option a | or a b | pair a b; cores buried in context chains of option / pair nat _ / pair _ string / '
        'or _ nat / or nat _) every ordered pair of ALL its values is minted (amounts 2 and 1, same ticketer; foreign ticketer for '
        'equal contents), PAIRed and JOINed, a Some is SPLIT (1,2), UNPAIRed, READ and JOINed again; shape family: a ticket under '
        'every chain of wrappers option / pair nat _ / pair _ nat / list / or _ nat / or nat _ / map nat _; DUP guards: DUP and DUP n '
        'of every ticket-bearing slot must be refused, and per stack shape once inside the history shadow-DUP, DUP, shadow-DUP, DUP '
        'where the shadow is the PUSHed ticket-free value of the same shape; '
        'non-trivial = distinct (state, transition) whose state holds at least one ticket, plus distinct (stack shape, guard) histories')
BOUND = {'quick': 'all histories of <= 4 transitions from each of 5 roots: the empty stack, [ticket(self,"a",3)] and three two-ticket stacks '
                  '(same ticketer+contents / other ticketer / other contents), i.e. histories of up to 8 transitions from the empty '
                  'stack; TICKET and NIL are tried only on stacks of fewer than 3 slots; contents family: 1374 content types (all 84 cores '
                  'over 6 atoms, each in every context of depth <= 1; cores over nat/string/bytes/bool also in every context chain of depth 2; '
                  'sibling components constant), 38656 mint-mint-pair-join histories; shape family: all 399 wrapper chains of length <= 3',
         'thorough': 'the same with <= 5 transitions from each root, <= 6 from the two-ticket roots with the same key and with different '
                     'ticketers (up to 10 transitions from the empty stack); contents family: 2424 content types (every core in every context '
                     'chain of depth <= 2, sibling components over two values), 219956 join histories; shape family: all 2800 wrapper chains '
                     'of length <= 4'}
ASSUMPTIONS = ['ticket values have no literal form: states are rebuilt by replaying their (shortest) history on the real '
               'instructions, successors by deep-copying that stack',
               'the ticketer is the SELF_ADDRESS of the execution context of the TICKET transition; tickets of a foreign '
               'ticketer are obtained by running TICKET under the second self address',
               'the BFS uses string contents only and amounts up to 3 per TICKET (totals grow by joining); other content types are '
               'covered by the scripted contents family (fixed amounts 2 and 1), contents of nesting depth > 3 and atoms other than '
               'nat/string/bytes/bool/int/unit are not explored',
               'the ticket-free shadow of a stack is built by PUSH; whether DUP accepts it is not judged (not C20), only counted']
LEVEL_TEXT = ('model checking: every reachable stack over the alphabet up to the history depth is visited once, each transition is '
              'executed on the real instructions in lock-step with the reference evaluator, and the ledger invariant is checked '
              'in every state; join/split/read are additionally run for every pair of values of every small comparable content type, and the '
              'DUP guards inside histories with ticket-free values of the same shape; bounded by depth, amounts, content nesting and the two ticketers')

STRING, NAT = ('string',), ('nat',)
TKT = ('ticket', STRING)
SELVES = [None, T.address_str(('KT1', T.H1, ''))]   # None = the context's default self address


def P(prim, *args):
    e = {'prim': prim}
    if args:
        e['args'] = list(args)
    return e


def I(n):
    return {'int': str(n)}


FAIL = [P('UNIT'), P('FAILWITH')]
ASSERT_SOME = P('IF_NONE', FAIL, [])
NAT2 = P('pair', P('nat'), P('nat'))


# ---------------------------------------------------------------- alphabet
def code_of(tr):
    """Transition spec (JSON-able list) -> Micheline code."""
    k = tr[0]
    if k == 'TICKET':
        _, tym, lit = ticket_content(tr)
        return [P('PUSH', P('nat'), I(tr[2])), P('PUSH', tym, lit), P('TICKET')]
    if k == 'WRAP':
        return wrap_code(tr[1], tr[2])
    if k == 'PUSH':
        return [P('PUSH', tr[1], tr[2])]
    if k == 'SPLIT':
        _, x, y = tr
        return [P('PUSH', NAT2, P('Pair', I(x), I(y))), P('SWAP'), P('SPLIT_TICKET')]
    if k == 'IF_NONE':
        return [ASSERT_SOME]
    if k == 'NIL':
        return [P('NIL', P('ticket', P('string')))]
    if k == 'ITER_DROP':
        return [P('ITER', [P('DROP')])]
    if k == 'ITER_JOIN':
        return [P('ITER', [P('PAIR'), P('JOIN_TICKETS'), ASSERT_SOME])]
    if k in ('DIG', 'DUG', 'GET', 'DUP'):
        return [P(k, I(tr[1]))] if len(tr) > 1 else [P(k)]
    return [P(k)]


def ticket_content(tr):
    """TICKET transition -> (reference value of the contents, type Micheline, literal Micheline).  ['TICKET', self, amount, "c"]
    mints string contents; ['TICKET', self, amount, literal, type] mints contents of any comparable type."""
    if len(tr) == 4:
        return tr[3], P('string'), {'string': tr[3]}
    return T.v_from_micheline(T.t_from_micheline(tr[4]), tr[3]), tr[4], tr[3]


# wrappers that bury the top slot one level deeper next to ticket-free siblings (shape family)
WRAPPERS = ['option', 'pair_l', 'pair_r', 'list', 'or_l', 'or_r', 'map']


def wrap_code(kind, tym):
    """Code that wraps the top slot, whose type (Micheline) is tym."""
    one = P('PUSH', P('nat'), I(1))
    return {'option': [P('SOME')],
            'pair_l': [one, P('PAIR')],                       # pair nat X
            'pair_r': [one, P('SWAP'), P('PAIR')],            # pair X nat
            'list': [P('NIL', tym), P('SWAP'), P('CONS')],    # list X
            'or_l': [P('LEFT', P('nat'))],                    # or X nat
            'or_r': [P('RIGHT', P('nat'))],                   # or nat X
            'map': [P('EMPTY_MAP', P('nat'), tym), P('SWAP'), P('SOME'), one, P('UPDATE')]}[kind]   # map nat X


def alphabet():
    out = []
    for s in (0, 1):
        for n in (0, 1, 2, 3):
            for c in ('a', 'b'):
                out.append(['TICKET', s, n, c])
    out.append(['READ_TICKET'])
    for x in range(4):
        for y in range(4):
            out.append(['SPLIT', x, y])
    out += [['JOIN_TICKETS'], ['PAIR'], ['UNPAIR'], ['SWAP'], ['DIG', 2], ['DUG', 2], ['DROP'], ['SOME'], ['IF_NONE'],
            ['NIL'], ['CONS'], ['ITER_DROP'], ['ITER_JOIN'], ['GET', 1], ['GET', 2]]
    return out


ALPHABET = alphabet()
MAX_SLOTS_TO_EXTEND = 3                       # TICKET and NIL (which only add a slot) are not tried on stacks of >= 3 slots
CONSUMING = {'DROP', 'ITER_DROP', 'GET'}      # may lower the ledger; JOIN/SPLIT answering None consume their operands too


def has_ticket(t):
    return not T.duplicable(t)


def enabled(types):
    """Transitions the ticket typing discipline accepts on a stack of these types."""
    out = []
    for tr in ALPHABET:
        k = tr[0]
        if k in ('TICKET', 'NIL') and len(types) >= MAX_SLOTS_TO_EXTEND:
            continue
        if k == 'GET' and not (types and types[0][0] == 'pair' and has_ticket(types[0])):
            continue
        if k == 'ITER_DROP' and not (types and types[0][0] == 'list'):
            continue
        try:
            if M.typecheck(code_of(tr), types) is M.FAILS:
                continue
        except M.IllTyped:
            continue
        out.append(tr)
    return out


def guards(types):
    """DUP-like instructions that must be refused: one per ticket-bearing slot."""
    out = []
    for i, t in enumerate(types):
        if has_ticket(t):
            out.append(['DUP'] if i == 0 else ['DUP', i + 1])
            if i == 0:
                out.append(['DUP', 1])
    return out


# ---------------------------------------------------------------- reference side
def env_of(tr):
    if tr[0] == 'TICKET':
        return {'self_address': T.parse_address(SELVES[tr[1]] or default_self())}
    return None


_DEFAULT_SELF = None


def default_self():
    global _DEFAULT_SELF
    if _DEFAULT_SELF is None:
        from pytezos.context.impl import ExecutionContext
        _DEFAULT_SELF = ExecutionContext().get_self_address()
    return _DEFAULT_SELF


def ref_step(state, tr):
    """state: tuple of (type, value).  Returns ('ok', new_state) | ('failwith',)."""
    try:
        return ('ok', tuple(M.run(code_of(tr), list(state), env_of(tr))))
    except M.Failwith:
        return ('failwith',)


def tickets_in(t, v):
    p = t[0]
    if p == 'ticket':
        yield v
    elif p == 'pair':
        yield from tickets_in(t[1], v[0])
        yield from tickets_in(t[2], v[1])
    elif p == 'option':
        if v is not None:
            yield from tickets_in(t[1], v[1])
    elif p == 'or':
        yield from tickets_in(t[1] if v[0] == 'L' else t[2], v[1])
    elif p == 'list':
        for x in v:
            yield from tickets_in(t[1], x)
    elif p == 'map':
        for _, x in v:
            yield from tickets_in(t[2], x)


def ledger(state):
    led = {}
    zero = False
    for t, v in state:
        for _, ticketer, content, amount in tickets_in(t, v):
            led[(ticketer, content)] = led.get((ticketer, content), 0) + amount
            if amount <= 0:
                zero = True
    return led, zero


# ---------------------------------------------------------------- implementation side
_CTX = {}
_CLS = {}


def _ctx(tr):
    from pytezos.context.impl import ExecutionContext
    key = tr[1] if tr[0] == 'TICKET' else 0
    if key not in _CTX:
        _CTX[key] = ExecutionContext(address=SELVES[key]) if SELVES[key] else ExecutionContext()
    return _CTX[key]


def _match(ins):
    from pytezos.michelson.micheline import Micheline
    import pytezos.michelson.instructions  # noqa: F401
    js = json.dumps(ins, sort_keys=True)
    if js not in _CLS:
        _CLS[js] = Micheline.match(ins)
    return _CLS[js]


def impl_step(stack, tr):
    """Run the transition on a real stack (mutated).  Returns ('ok',) | ('failwith',) | ('error', prim, message)."""
    ctx = _ctx(tr)
    for ins in code_of(tr):
        try:
            _match(ins).execute(stack, [], ctx)
        except Exception as e:
            args = [str(a) for a in e.args]
            if 'FAILWITH' in args:
                return ('failwith',)
            return ('error', ins['prim'], ' / '.join(args)[:200])
    return ('ok',)


def impl_replay(history):
    """Rebuild the real stack of a state from its history.  None if the history does not run."""
    from pytezos.michelson.stack import MichelsonStack
    st = MichelsonStack([])
    for tr in history:
        if impl_step(st, tr)[0] != 'ok':
            return None
    return st


def read_impl(stack, types):
    """Real stack -> reference form, read with the reference's types (ticket classes made by SPLIT/JOIN carry no
    content type of their own; C20 judges the values).  Returns (state | None, problem)."""
    if len(stack.items) != len(types):
        return None, f'stack has {len(stack.items)} slots, reference has {len(types)}'
    if stack.protected:
        return None, f'stack left with {stack.protected} protected slots'
    out = []
    for o, t in zip(stack.items, types):
        try:
            out.append((t, A.from_impl(o, t)))
        except Exception as e:
            return None, f'slot of reference type {T.t_str(t)} unreadable: {type(e).__name__}: {e}'
    return tuple(out), ''


def show(state):
    return '[' + ' : '.join(f'{_vs(t, v)}' for t, v in state) + ']'


def _vs(t, v):
    p = t[0]
    if p == 'ticket':
        who = 'self' if T.address_str(v[1]) == default_self() else 'KT1x'
        return f'ticket({who},{v[2]!r},{v[3]})'
    if p == 'pair':
        return f'({_vs(t[1], v[0])}, {_vs(t[2], v[1])})'
    if p == 'option':
        return 'None' if v is None else f'Some {_vs(t[1], v[1])}'
    if p == 'list':
        return '{' + '; '.join(_vs(t[1], x) for x in v) + '}'
    if p == 'address':
        return 'self' if T.address_str(v) == default_self() else ('KT1x' if v == ('KT1', T.H1, '') else T.address_str(v))
    return repr(v)


def tr_name(tr):
    if tr[0] == 'TICKET' and len(tr) > 4:
        t = T.t_from_micheline(tr[4])
        return f'TICKET {tr[1]} {tr[2]} {T.v_str(t, ticket_content(tr)[0])} : {T.t_str(t)}'
    if tr[0] == 'WRAP':
        return f'WRAP {tr[1]}'
    return ' '.join(str(x) for x in tr)


# ---------------------------------------------------------------- judging one transition
def judge(state, tr, stack):
    """Run `tr` on the real `stack` (a private copy of the state's stack) and on the reference; returns
    (violations [(descriptor, detail)], outcome label, successor reference state | None, implementation state | None)."""
    k = tr[0]
    ref = ref_step(state, tr)
    got = impl_step(stack, tr)
    where = f'state {show(state)} transition {tr_name(tr)}'
    vs = []
    if ref[0] == 'failwith':
        if got[0] != 'failwith':
            vs.append((f'{k}: the reference fails with FAILWITH, the implementation does not', f'{where}: implementation -> {got}'))
        return vs, f'{k}: FAILWITH', None, None
    new = ref[1]
    types = [t for t, _ in new]
    if got[0] != 'ok':
        what = 'fails with FAILWITH' if got[0] == 'failwith' else f'raises in {got[1]}'
        operand = ''
        if k in ('JOIN_TICKETS', 'ITER_JOIN'):
            operand = ' although ticketer and contents match' if new and _top_is_some(new) else ' on tickets that differ'
        vs.append((f'{k}: implementation {what} on a well-typed ticket stack{operand}', f'{where}: {got}; reference -> {show(new)}'))
        return vs, f'{k}: implementation error', new, None
    impl, problem = read_impl(stack, types)
    if impl is None:
        vs.append((f'{k}: result stack unreadable / wrong shape', f'{where}: {problem}; reference -> {show(new)}'))
        return vs, f'{k}: unreadable', new, None

    # --- the statement as predicates on the implementation's own result
    led0, _ = ledger(state)
    led1, zero = ledger(impl)
    if zero:
        vs.append((f'{k}: leaves a ticket of amount 0 on the stack', f'{where}: implementation -> {show(impl)}'))
    if k == 'TICKET':
        key = (T.parse_address(SELVES[tr[1]] or default_self())[:2] + ('',), ticket_content(tr)[0])
        exp = dict(led0)
        if tr[2] > 0:
            exp[key] = exp.get(key, 0) + tr[2]
        if led1 != exp:
            vs.append(('TICKET: ledger does not grow by exactly the amount for (self, contents)',
                       f'{where}: ledger {led0} -> {led1}, expected {exp}'))
        res = impl[0][1]
        if tr[2] == 0 and res is not None:
            vs.append(('TICKET with amount 0 returns Some', f'{where}: implementation -> {show(impl)}'))
        if tr[2] > 0 and res is None:
            vs.append(('TICKET with a positive amount returns None', f'{where}: implementation -> {show(impl)}'))
    else:
        grew = {key: (led0.get(key, 0), n) for key, n in led1.items() if n > led0.get(key, 0)}
        if grew:
            vs.append((f'{k}: ticket total increases without TICKET (forged / duplicated)', f'{where}: ledger {led0} -> {led1}'))
        consuming = k in CONSUMING or (k in ('SPLIT', 'JOIN_TICKETS') and impl[0][1] is None)
        if not consuming and not grew and led1 != led0:
            vs.append((f'{k}: ticket total decreases although nothing is dropped', f'{where}: ledger {led0} -> {led1}'))
    if k == 'SPLIT':
        amount = state[0][1][3]
        x, y = tr[1], tr[2]
        want_none = x == 0 or y == 0 or x + y != amount
        res = impl[0][1]
        if want_none and res is not None:
            why = 'a zero part' if (x == 0 or y == 0) and x + y == amount else ('parts not summing to the amount' if x and y else 'a zero part and a wrong sum')
            vs.append((f'SPLIT_TICKET with {why} returns Some', f'{where}: implementation -> {show(impl)}'))
        if not want_none:
            if res is None:
                vs.append(('SPLIT_TICKET with valid parts returns None', f'{where}: implementation -> {show(impl)}'))
            else:
                a, b = res[1]
                if (a[3], b[3]) != (x, y) or a[1:3] != state[0][1][1:3] or b[1:3] != state[0][1][1:3]:
                    vs.append(('SPLIT_TICKET parts have wrong amounts / ticketer / contents', f'{where}: implementation -> {show(impl)}'))
    if k == 'JOIN_TICKETS':
        a, b = state[0][1]
        same = a[1] == b[1] and a[2] == b[2]
        res = impl[0][1]
        if same and res is None:
            vs.append(('JOIN_TICKETS returns None although ticketer and contents match', f'{where}: implementation -> {show(impl)}'))
        if not same and res is not None:
            vs.append(('JOIN_TICKETS returns Some for tickets that differ in ticketer or contents', f'{where}: implementation -> {show(impl)}'))
        if same and res is not None and (res[1][3] != a[3] + b[3] or res[1][1:3] != a[1:3]):
            vs.append(('JOIN_TICKETS result has the wrong amount / ticketer / contents', f'{where}: implementation -> {show(impl)}'))
    # --- lock-step with the reference evaluator
    if impl != new and not vs:
        vs.append((f'{k}: result differs from the reference evaluator', f'{where}: implementation -> {show(impl)}, reference -> {show(new)}'))
    label = k if k != 'WRAP' else f'WRAP {tr[1]}'
    if k in ('TICKET', 'SPLIT', 'JOIN_TICKETS'):
        label += ' -> ' + ('None' if new[0][1] is None else 'Some')
    return vs, label + ('' if impl == new else ' (diverges)'), new, impl


def _top_is_some(new):
    t, v = new[0]
    return t[0] != 'option' or v is not None


def judge_guard(state, g, stack):
    got = impl_step(stack, g)
    if got[0] == 'ok':
        return [(f'{g[0]}{" n" if len(g) > 1 else ""} accepted on a slot that holds a ticket (duplication)',
                 f'state {show(state)} guard {tr_name(g)}: implementation duplicated the slot')]
    return []


def shadow(t, v):
    """The ticket-free value of the same shape: every ticket is replaced by its contents (type and value)."""
    p = t[0]
    if p == 'ticket':
        return t[1], v[2]
    if p == 'pair':
        (ta, a), (tb, b) = shadow(t[1], v[0]), shadow(t[2], v[1])
        return ('pair', ta, tb), (a, b)
    if p == 'option':
        ti = shadow_type(t[1])
        return ('option', ti), (None if v is None else ('Some', shadow(t[1], v[1])[1]))
    if p == 'or':
        return ('or', shadow_type(t[1]), shadow_type(t[2])), (v[0], shadow(t[1] if v[0] == 'L' else t[2], v[1])[1])
    if p == 'list':
        return ('list', shadow_type(t[1])), tuple(shadow(t[1], x)[1] for x in v)
    if p == 'map':
        return ('map', t[1], shadow_type(t[2])), tuple((k, shadow(t[2], x)[1]) for k, x in v)
    return t, v


def shadow_type(t):
    if t[0] == 'ticket':
        return t[1]
    return (t[0],) + tuple(shadow_type(a) if isinstance(a, tuple) else a for a in t[1:])


def shadow_stack(state):
    """A real stack holding the shadows of all slots, built the way a program does: by PUSH."""
    from pytezos.michelson.stack import MichelsonStack
    st = MichelsonStack([])
    for t, v in reversed(state):
        ts, vs_ = shadow(t, v)
        got = impl_step(st, ['PUSH', T.t_to_micheline(ts), T.v_to_micheline(ts, vs_)])
        if got[0] != 'ok':
            return None
    return st


def judge_guard_history(state, g, fresh):
    """Process history A-B-A-B: the same DUP on the ticket-free shadow of the stack (legal: whatever the implementation
    remembers about 'this shape is duplicable' is now in place), then on the ticket stack (must be refused), and both once
    more.  `fresh()` returns a private copy of the state's real stack.  Returns (violations, shadow verdicts)."""
    vs, shadows = [], []
    for attempt in (1, 2):
        sh = shadow_stack(state)
        shadows.append('unbuildable' if sh is None else impl_step(sh, g)[0])
        got = impl_step(fresh(), g)
        if got[0] == 'ok' and not vs:
            name = f'{g[0]}{" n" if len(g) > 1 else ""}'
            if attempt == 1:
                vs.append((f'{name} accepted on a slot that holds a ticket (duplication)',
                           f'state {show(state)} guard {tr_name(g)} after the same DUP on the ticket-free value of the same shape: '
                           f'implementation duplicated the slot'))
            else:
                vs.append((f'{name} accepted on a slot that holds a ticket once it was refused and a ticket-free value of the same shape duplicated',
                           f'state {show(state)} guard {tr_name(g)}: refused the first time, accepted the second'))
    return vs, shadows


def run_guards(state, history, fresh, r: Result, seen_shapes):
    """All DUP guards of one state.  The first time a stack shape (tuple of slot types) is met in this shard the guard is
    run inside the A-B-A-B history with its ticket-free shadow; later states of the same shape get the plain guard."""
    types = tuple(t for t, _ in state)
    with_history = types not in seen_shapes
    seen_shapes.add(types)
    for g in guards(list(types)):
        r.ev()
        r.extra['guards tried'] += 1
        name = f'guard {g[0]}{" n" if len(g) > 1 else ""}'
        if with_history:
            r.extra['guards tried inside a shadow history (A-B-A-B)'] += 1
            r.nt(('guard history', repr(types), tuple(g)))
            vs, shadows = judge_guard_history(state, g, fresh)
            for sv in shadows:
                if sv != 'ok':      # not C20's business (a ticket-free value is refused / not pushable): counted, not judged
                    r.no_verdict += 1
                    r.out(f'{name}: shadow DUP {sv}')
            case = {'history': history, 'guard': g, 'shadow': True}
        else:
            vs = judge_guard(state, g, fresh())
            case = {'history': history, 'guard': g}
        r.out(f'{name}{" (shadow history)" if with_history else ""}: ' + ('refused' if not vs else 'ACCEPTED'))
        for d, detail in vs:
            r.viol(d, case, detail)


# ---------------------------------------------------------------- exploration
def copy_stack(stack):
    from pytezos.michelson.stack import MichelsonStack
    return MichelsonStack(copy.deepcopy(stack.items))


def canon(state):
    return repr(state)


def expand(state, history, r: Result, on_new, seen_shapes):
    """Run every enabled transition and every guard of one state."""
    base = impl_replay(history)
    got, problem = read_impl(base, [t for t, _ in state]) if base is not None else (None, 'the history no longer runs')
    if got != state:
        # every step of this history was judged equal to the reference when the state was discovered: the implementation
        # answers differently the second time (behaviour depends on process history)
        r.viol('a history that ran in lock-step with the reference gives another stack when it is run again',
               {'history': history[:-1], 'transition': history[-1]} if history else {'history': [], 'guard': ['DUP']},
               f'history {[tr_name(t) for t in history]}: {problem}; second run -> {show(got) if got else None}, first -> {show(state)}')
        return
    types = [t for t, _ in state]
    holds = any(has_ticket(t) for t in types)
    for tr in enabled(types):
        r.transitions += 1
        r.traces += 1
        r.ev()
        if holds:
            r.nt((canon(state), tuple(tr)))
        vs, label, new, impl = judge(state, tr, copy_stack(base))
        r.out(label)
        case = {'history': history, 'transition': tr}
        for d, detail in vs:
            r.viol(d, case, detail)
        if new is not None and impl == new:
            on_new(new, history + [tr])
    run_guards(state, history, lambda: copy_stack(base), r, seen_shapes)


def bfs(root_state, root_history, depth, r: Result, count_root=True):
    """BFS over successors of root for `depth` more levels; returns the last frontier [(state, history)]."""
    seen = {canon(root_state)}
    seen_shapes = set()
    if count_root:
        r.state(canon(root_state))
    frontier = [(root_state, root_history)]
    for _ in range(depth):
        nxt = []

        def on_new(s, h):
            c = canon(s)
            if c not in seen:
                seen.add(c)
                r.state(c)
                nxt.append((s, h))

        for s, h in frontier:
            expand(s, h, r, on_new, seen_shapes)
        frontier = nxt
    return frontier


def ref_run(history):
    state = ()
    for tr in history:
        state = ref_step(state, tr)[1]
    return state


def ref_levels(root_state, root_history, depth):
    """Reference-only BFS: list of levels, each [(state, history)] (distinct states, shortest history first)."""
    seen = {canon(root_state)}
    levels = [[(root_state, list(root_history))]]
    for _ in range(depth):
        nxt = []
        for s, h in levels[-1]:
            for tr in enabled([t for t, _ in s]):
                res = ref_step(s, tr)
                if res[0] != 'ok':
                    continue
                c = canon(res[1])
                if c not in seen:
                    seen.add(c)
                    nxt.append((res[1], h + [tr]))
        levels.append(nxt)
    return levels


def _mk(s, n, c):
    return [['TICKET', s, n, c], ['IF_NONE']]

# ---------------------------------------------------------------- scripted histories (contents family, shape family)
def step(state, stack, hist, tr, r: Result, nontrivial=True):
    """Judge one transition of a scripted history on the live stack (mutated).  Returns the new state or None when the
    implementation left lock-step (reported by judge) or the reference fails."""
    r.transitions += 1
    r.traces += 1
    r.ev()
    if nontrivial:
        r.nt((canon(state), json.dumps(tr, sort_keys=True)))
    vs, label, new, impl = judge(state, tr, stack)
    r.out(label)
    for d, detail in vs:
        r.viol(d, {'history': list(hist), 'transition': tr}, detail)
    if new is None or impl != new:
        return None
    r.state(canon(new))
    hist.append(tr)
    return new


def walk(script, r: Result):
    """Run a scripted history from the empty stack, every transition judged.  -> (state, stack, history) | None."""
    from pytezos.michelson.stack import MichelsonStack
    state, stack, hist = (), MichelsonStack([]), []
    for tr in script:
        state = step(state, stack, hist, tr, r)
        if state is None:
            return None
    return state, stack, hist


ATOMS = [('nat',), ('string',), ('bytes',), ('bool',), ('int',), ('unit',)]
ATOM_VALUES = {'nat': [0, 1], 'string': ['', 'a'], 'bytes': [b'', b'\x00'], 'bool': [False, True], 'int': [0, -1], 'unit': [()]}
CONTEXTS = ['option', 'pair_l', 'pair_r', 'or_l', 'or_r']


def content_cores(atoms):
    """Content types of nesting depth <= 1 over the atoms, each with ALL its values over the two-valued atom domains
    (which hold the empty / zero / false value of every atom)."""
    out = []
    for a in atoms:
        out.append((a, list(ATOM_VALUES[a[0]])))
    for a in atoms:
        out.append((('option', a), [None] + [('Some', x) for x in ATOM_VALUES[a[0]]]))
    for a in atoms:
        for b in atoms:
            va, vb = ATOM_VALUES[a[0]], ATOM_VALUES[b[0]]
            out.append((('or', a, b), [('L', x) for x in va] + [('R', y) for y in vb]))
            out.append((('pair', a, b), [(x, y) for x in va for y in vb]))
    return out


def in_context(kind, t, vals, nats, strs):
    """Bury a content type one level deeper; the sibling components range over nats / strs."""
    if kind == 'option':
        return ('option', t), [None] + [('Some', v) for v in vals]
    if kind == 'pair_l':
        return ('pair', NAT, t), [(n, v) for n in nats for v in vals]
    if kind == 'pair_r':
        return ('pair', t, STRING), [(v, s_) for v in vals for s_ in strs]
    if kind == 'or_l':
        return ('or', t, NAT), [('L', v) for v in vals] + [('R', n) for n in nats]
    return ('or', NAT, t), [('L', n) for n in nats] + [('R', v) for v in vals]


def content_types(tier):
    """[(type, values)] - distinct types, simplest first.  quick: all cores over the 6 atoms, in every context of depth <= 1,
    and the cores over the first 4 atoms in every context chain of depth 2, sibling components constant (nat 1, string "x");
    thorough: every core in every context chain of depth <= 2, siblings over two values."""
    nats, strs = ([1], ['x']) if tier == 'quick' else ([0, 1], ['', 'x'])
    seen, order = {}, []

    def add(t, vals):
        if t not in seen:
            seen[t] = []
            order.append(t)
        for v in vals:          # one type: equal positions hold equal Python types, so == is value identity
            if v not in seen[t]:
                seen[t].append(v)

    cores = content_cores(ATOMS)
    narrow = {t for t, _ in content_cores(ATOMS[:4])}
    level0 = list(cores)
    for t, vals in level0:
        add(t, vals)
    level1 = [in_context(k, t, vals, nats, strs) for t, vals in level0 for k in CONTEXTS]
    for t, vals in level1:
        add(t, vals)
    for (t, vals), (t0, _) in zip(level1, [c for c in level0 for _ in CONTEXTS]):
        if tier == 'quick' and t0 not in narrow:
            continue
        for k in CONTEXTS:
            add(*in_context(k, t, vals, nats, strs))
    return [(t, seen[t]) for t in order]


AMOUNTS = (2, 1)


def contents_type_cases(t, vals, r: Result):
    """One content type: for every ordered pair of values (v1, v2) the tickets (self, v1, 2) and (self, v2, 1) are minted, paired
    and JOINed (Some iff v1 == v2); for v1 == v2 also with a foreign ticketer (None).  A successful join is followed by
    SPLIT_TICKET back into (1, 2), READ_TICKET and a second JOIN, so the contents are followed through every ticket
    instruction.  The first ticket of the type also gets the DUP guards."""
    tym = T.t_to_micheline(t)
    lits = [T.v_to_micheline(t, v) for v in vals]
    seen_shapes = set()
    for i, l1 in enumerate(lits):
        for j, l2 in enumerate(lits):
            for s2 in ((0, 1) if i == j else (0,)):
                script = [['TICKET', 0, AMOUNTS[0], l1, tym], ['IF_NONE'], ['TICKET', s2, AMOUNTS[1], l2, tym], ['IF_NONE'],
                          ['PAIR'], ['JOIN_TICKETS']]
                res = walk(script, r)
                if res is None:
                    continue
                state, stack, hist = res
                if i == 0 and j == 0 and s2 == 0:
                    first = ref_run(script[:2])
                    base = impl_replay(script[:2])
                    if base is not None:
                        run_guards(first, script[:2], lambda: copy_stack(base), r, seen_shapes)
                if state[0][1] is None:
                    continue
                for tr in (['IF_NONE'], ['SPLIT', AMOUNTS[1], AMOUNTS[0]], ['IF_NONE'], ['UNPAIR'], ['READ_TICKET'], ['DROP'],
                           ['PAIR'], ['JOIN_TICKETS']):
                    state = step(state, stack, hist, tr, r)
                    if state is None:
                        break


def shape_cases(prefix, depth, r: Result):
    """Shape family: a ticket buried under every chain of <= depth wrappers that starts with `prefix` (option / pair with a nat
    on either side / list / or on either side / map value): each wrapping step is a judged transition (the ledger must not
    move), and every shape gets its DUP guards inside the A-B-A-B history with the ticket-free value of the same shape."""
    seen_shapes = set()

    def rec(script, left):
        res = walk(script, r)
        if res is None:
            return
        state, stack, hist = res
        run_guards(state, hist, lambda: copy_stack(stack), r, seen_shapes)
        if left:
            tym = T.t_to_micheline(state[0][0])
            for w in WRAPPERS:
                rec(script + [['WRAP', w, tym]], left - 1)

    base = _mk(0, 3, 'a')
    state = ref_run(base)
    for w in prefix:
        tr = ['WRAP', w, T.t_to_micheline(state[0][0])]
        base = base + [tr]
        state = ref_run(base)
    rec(base, depth - len(prefix))



# BFS roots: the empty stack and four stacks that already hold tickets (each reached by a history over the same
# alphabet, so every explored history is a history from the empty stack); (name, history, depth quick, depth thorough)
SEEDS = [
    ('empty', [], 4, 5),
    ('one ticket', _mk(0, 3, 'a'), 4, 5),
    ('two tickets, same ticketer and contents', _mk(0, 3, 'a') + _mk(0, 2, 'a'), 4, 6),
    ('two tickets, different ticketers', _mk(0, 3, 'a') + _mk(1, 2, 'a'), 4, 6),
    ('two tickets, different contents', _mk(0, 3, 'a') + _mk(0, 2, 'b'), 4, 5),
]
SPLIT_DEPTH = 2
CONTENT_SHARDS = {'quick': 48, 'thorough': 192}
SHAPE_DEPTH = {'quick': 3, 'thorough': 4}


def shards(tier, seed):
    """Per BFS root: one shard explores the first SPLIT_DEPTH levels; then one shard per distinct state at that depth
    (found by a reference-only BFS) explores the remaining levels.  Specs are JSON-able."""
    out = []
    for si, (name, hist, dq, dt) in enumerate(SEEDS):
        out.append(('prefix', si, hist))
        levels = ref_levels(ref_run(hist), hist, SPLIT_DEPTH)
        for _, h in levels[SPLIT_DEPTH]:
            out.append(('root', si, h))
    n = CONTENT_SHARDS[tier]
    out += [('contents', k, n) for k in range(n)]
    out += [('shapes', 0, [w]) for w in WRAPPERS]
    return out


def run_shard(spec, tier):
    kind, si, history = spec
    r = Result()
    if kind == 'contents':
        mine = content_types(tier)[si::history]
        for t, vals in mine:
            contents_type_cases(t, vals, r)
        r.extra['content types'] += len(mine)
        if mine and si % 8 == 0:
            t, vals = mine[-1]
            lit, tym = T.v_to_micheline(t, vals[-1]), T.t_to_micheline(t)
            r.sample({'history': [['TICKET', 0, 2, lit, tym], ['IF_NONE'], ['TICKET', 0, 1, lit, tym], ['IF_NONE'], ['PAIR']],
                      'transition': ['JOIN_TICKETS']})
        return r
    if kind == 'shapes':
        shape_cases(history, SHAPE_DEPTH[tier], r)
        return r
    depth = SEEDS[si][2 if tier == 'quick' else 3]
    state = ref_run(history)
    base = impl_replay(history)
    got = read_impl(base, [t for t, _ in state])[0] if base is not None else None
    if got != state:
        # the divergence itself is reported by the shard that explores the prefix; nothing to explore from here
        r.extra['roots whose history does not reproduce on the implementation'] += 1
        return r
    if kind == 'prefix':
        bfs(state, history, SPLIT_DEPTH, r)
    else:
        bfs(state, history, depth - SPLIT_DEPTH, r, count_root=False)
    en = enabled([t for t, _ in state])
    if en and (kind == 'prefix' or len(history) % 3 == 0):
        r.sample({'history': history, 'transition': en[-1]})
    return r


def replay(case):
    history = [list(t) for t in case['history']]
    state = ()
    for tr in history:
        res = ref_step(state, tr)
        if res[0] != 'ok':
            return [('recorded history fails in the reference', str(history))]
        state = res[1]
    base = impl_replay(history)
    if base is None:
        return [('recorded history does not run on the implementation', str(history))]
    if 'guard' in case:
        if case.get('shadow'):
            return judge_guard_history(state, list(case['guard']), lambda: copy_stack(base))[0]
        return judge_guard(state, list(case['guard']), base)
    vs, _, _, _ = judge(state, list(case['transition']), base)
    return vs


def observe(case):
    history = [list(t) for t in case['history']] + [list(case.get('transition') or case['guard'])]
    from pytezos.michelson.stack import MichelsonStack
    st = MichelsonStack([])
    out = []
    for tr in history:
        got = impl_step(st, tr)
        out.append(list(got))
        if got[0] != 'ok':
            break
    out.append([repr(o) for o in st.items])
    return out
