"""C23 — operation groups from any account kind are signed and hashed per protocol.

Small-scope exhaustive enumeration of (secret key, operation group, chain id).  For each case the REAL
`OperationGroup(...).sign()` is run (context without a shell: nothing may touch the network) and then
  * the returned signature is decoded with the reference Base58Check and verified by an INDEPENDENT verifier
    (`cryptography`: Ed25519 and prehashed ECDSA over the Blake2b-256 digest; BLS min-pk "augmentation" scheme as the
    explicit pairing equation over py_ecc primitives) over  0x03 || forged  (non-consensus) or
    0x02 || chain id || forged  (consensus), under the public key derived independently from the secret;
  * `binary_payload()` must be forged || raw signature and `hash()` must be base58check('o', Blake2b-256 of that).
"forged" is what `OperationGroup.forge()` returns: whether those bytes are the right encoding is C06's question.
"""
from __future__ import annotations

import itertools
import hashlib

from mc.engine.report import Result
from mc.ref import base58 as b58
from mc.ref import tezos_ops as T
from mc.props import c06

ID = 'C23'
LEVEL = 'exploration'
RULE = ('every (key, group, chain id) of the universe is signed once; distinct = distinct (public key, watermarked message); '
        'non-trivial = distinct cases with a non-Ed25519 key, or a consensus watermark, or a batch of two contents')
BOUND = {
    'quick': '2 keys per curve (tz1..tz4) x {10 non-consensus kinds + endorsement (3 levels) + endorsement_with_slot, 9 same-pass '
             'batches of 2}; chain id None or mainnet for non-consensus, {mainnet, 00000000} for consensus; per curve one in-process sequence in '
             'which the keys sign alternately (A B A B); every third group (tz4: the first) also signed when it already carries the '
             'signature of the same contents on another branch (given to the constructor / inherited through _spawn)',
    'thorough': '3 keys per curve (incl. order-1) x {up to 8 variants of each of the 10 non-consensus kinds, 4 consensus contents x 3 chain '
                'ids, all 64 ordered manager-kind pairs + activate_account pair}; tz4 keys: 3 variants per kind and the 8 cyclic pairs',
}
ASSUMPTIONS = [
    'independent verifiers: `cryptography` (OpenSSL) for Ed25519 / ECDSA, py_ecc curve + pairing primitives for BLS; '
    'pytezos signs with pysodium / coincurve / fastecdsa / py_ecc G2MessageAugmentation',
    'tz1-tz3 sign the Blake2b-256 digest of the watermarked bytes, tz4 signs the watermarked bytes themselves (BLS min-pk, '
    'augmentation scheme, DST BLS_SIG_BLS12381G2_XMD:SHA-256_SSWU_RO_AUG_); BLS secret keys are little-endian scalars',
    'consensus = the kinds pytezos puts in validation pass 0 (endorsement, endorsement_with_slot); the statement fixes their '
    'watermark to 0x02 || chain id',
    'groups mixing validation passes are rejected by sign() by design and are not enumerated; a consensus group without '
    'chain id is rejected by design and not enumerated',
    'low-S normalisation of secp256k1 / P-256 signatures is not judged',
]
LEVEL_TEXT = ('bounded exhaustive enumeration over key kinds x operation kinds x chain ids with independent signature '
              'verification; guards the wrapper logic (watermark, digest, signature form, hash input), not the primitives')

CURVES = ['ed', 'sp', 'p2', 'BL']
TZ = {'ed': 'tz1', 'sp': 'tz2', 'p2': 'tz3', 'BL': 'tz4'}
N_SECP = 0xFFFFFFFFFFFFFFFFFFFFFFFFFFFFFFFEBAAEDCE6AF48A03BBFD25E8CD0364141
N_P256 = 0xFFFFFFFF00000000FFFFFFFFFFFFFFFFBCE6FAADA7179E84F3B9CAC2FC632551
R_BLS = 0x73EDA753299D7D483339D80809A1D80553BDA402FFFE5BFEFFFFFFFF00000001
PATTERN = bytes(range(1, 33))
SECRETS = {
    'ed': [bytes(31) + b'\x01', PATTERN, b'\xff' * 32],
    'sp': [(1).to_bytes(32, 'big'), PATTERN, (N_SECP - 1).to_bytes(32, 'big')],
    'p2': [(1).to_bytes(32, 'big'), PATTERN, (N_P256 - 1).to_bytes(32, 'big')],
    'BL': [(1).to_bytes(32, 'little'), PATTERN, (R_BLS - 1).to_bytes(32, 'little')],
}
SK_PREFIX = {'ed': 'edsk32', 'sp': 'spsk', 'p2': 'p2sk', 'BL': 'BLsk'}
CHAIN_IDS = ['NetXdQprcVkpaWU', b58.enc('Net', bytes(4)), b58.enc('Net', b'\xff' * 4)]
CONSENSUS = {'endorsement', 'endorsement_with_slot'}
PROTOCOL = 'PtMumbai2TmsJHNGRkD8v8YDbtao7BLUC3wjASn1inAKLFCjaH1'
BLS_DST = b'BLS_SIG_BLS12381G2_XMD:SHA-256_SSWU_RO_AUG_'


def encoded_secret(curve: str, i: int) -> str:
    return b58.enc(SK_PREFIX[curve], SECRETS[curve][i])


# ----------------------------------------------------------------------------- independent crypto
_PUB = {}


def public_key(curve: str, secret: bytes) -> bytes:
    """public key in the Tezos binary form, derived without pytezos"""
    k = (curve, secret)
    if k in _PUB:
        return _PUB[k]
    if curve == 'ed':
        from cryptography.hazmat.primitives.asymmetric.ed25519 import Ed25519PrivateKey
        from cryptography.hazmat.primitives import serialization as ser
        pk = Ed25519PrivateKey.from_private_bytes(secret).public_key().public_bytes(ser.Encoding.Raw, ser.PublicFormat.Raw)
    elif curve in ('sp', 'p2'):
        from cryptography.hazmat.primitives.asymmetric import ec
        from cryptography.hazmat.primitives import serialization as ser
        c = ec.SECP256K1() if curve == 'sp' else ec.SECP256R1()
        pk = ec.derive_private_key(int.from_bytes(secret, 'big'), c).public_key().public_bytes(
            ser.Encoding.X962, ser.PublicFormat.CompressedPoint)
    else:
        from py_ecc.bls.g2_primitives import G1_to_pubkey
        from py_ecc.optimized_bls12_381 import G1, multiply
        pk = bytes(G1_to_pubkey(multiply(G1, int.from_bytes(secret, 'little'))))
    _PUB[k] = pk
    return pk


def pkh_of(curve: str, secret: bytes) -> str:
    return b58.enc(TZ[curve], hashlib.blake2b(public_key(curve, secret), digest_size=20).digest())


def verify(curve: str, pk: bytes, message: bytes, sig: bytes) -> bool:
    digest = hashlib.blake2b(message, digest_size=32).digest()
    if curve == 'ed':
        from cryptography.exceptions import InvalidSignature
        from cryptography.hazmat.primitives.asymmetric.ed25519 import Ed25519PublicKey
        try:
            Ed25519PublicKey.from_public_bytes(pk).verify(sig, digest)
            return True
        except InvalidSignature:
            return False
    if curve in ('sp', 'p2'):
        from cryptography.exceptions import InvalidSignature
        from cryptography.hazmat.primitives import hashes
        from cryptography.hazmat.primitives.asymmetric import ec, utils
        c = ec.SECP256K1() if curve == 'sp' else ec.SECP256R1()
        if len(sig) != 64:
            return False
        der = utils.encode_dss_signature(int.from_bytes(sig[:32], 'big'), int.from_bytes(sig[32:], 'big'))
        try:
            ec.EllipticCurvePublicKey.from_encoded_point(c, pk).verify(der, digest, ec.ECDSA(utils.Prehashed(hashes.SHA256())))
            return True
        except (InvalidSignature, ValueError):
            return False
    # BLS min-pk, message augmentation: e(pk, H(pk || msg)) == e(g1, sig), both points in their prime-order subgroups
    from hashlib import sha256
    from py_ecc.bls.g2_primitives import pubkey_to_G1, signature_to_G2, subgroup_check
    from py_ecc.bls.hash_to_curve import hash_to_G2
    from py_ecc.optimized_bls12_381 import FQ12, G1, final_exponentiate, is_inf, neg, pairing
    if len(sig) != 96 or len(pk) != 48:
        return False
    try:
        p, s = pubkey_to_G1(pk), signature_to_G2(sig)
    except Exception:  # noqa: malformed point
        return False
    if is_inf(p) or not subgroup_check(p) or not subgroup_check(s):
        return False
    h = hash_to_G2(pk + message, BLS_DST, sha256)
    return final_exponentiate(pairing(s, G1, False) * pairing(h, neg(p), False)) == FQ12.one()


SIG_KINDS = [('sig', 64), ('edsig', 64), ('spsig1', 64), ('p2sig', 64), ('BLsig', 96)]
SIG_OF_CURVE = {'ed': 'edsig', 'sp': 'spsig1', 'p2': 'p2sig', 'BL': 'BLsig'}


def decode_signature(s: str):
    """-> (kind, raw) with own Base58Check"""
    raw = b58.b58check_decode(s)
    for k, n in SIG_KINDS:
        p = b58.PREFIX[k]
        if raw[:len(p)] == p and len(raw) == len(p) + n and s.startswith(k):
            return k, raw[len(p):]
    raise ValueError('unknown signature prefix / length')


# ----------------------------------------------------------------------------- universe
def consensus_contents():
    inner = {'branch': c06.BRANCHES[1], 'operations': {'kind': 'endorsement', 'level': 5}, 'signature': b58.enc('sig', bytes(range(64)))}
    return [{'kind': 'endorsement', 'level': 0}, {'kind': 'endorsement', 'level': 1}, {'kind': 'endorsement', 'level': 2 ** 31 - 1},
            {'kind': 'endorsement_with_slot', 'endorsement': inner, 'slot': 7}]


def groups(tier: str, curve: str = 'ed'):
    """list of (contents, chain ids to use).  BLS signing + pairing verification costs ~0.7 s per case, so in the thorough
    tier tz4 keys get 3 variants per kind and the cyclic pairs instead of 8 variants and all ordered pairs."""
    q = tier == 'quick'
    slim = q or curve == 'BL'
    out = []
    for kind in c06.KINDS:
        vs = c06.variants(kind, 'quick')
        for c in (vs[2:3] or vs[:1]) if q else vs[:3 if slim else 8]:
            out.append(([c], [None if len(out) % 2 else CHAIN_IDS[0]]))
    for c in consensus_contents():
        out.append(([c], CHAIN_IDS[:2] if q else CHAIN_IDS))
    man = [k for k in c06.KINDS if k in c06.MANAGER]
    pairs = [(man[i], man[(i + 1) % len(man)]) for i in range(len(man))] if slim else [(a, b) for a in man for b in man]
    for a, b in pairs:
        out.append(([c06.variants(a, 'quick')[0], c06.variants(b, 'quick')[-1]], [None]))
    act = c06.variants('activate_account', 'quick')
    out.append(([act[0], act[1]], [CHAIN_IDS[0]]))
    return out


def all_cases(tier: str, curve: str, ki: int):
    sk = SECRETS[curve][ki]
    src = pkh_of(curve, sk)
    for n, (contents, chains) in enumerate(groups(tier, curve)):
        cs = [({**c, 'source': src} if 'source' in c else c) for c in contents]
        for ch in chains:
            yield {'curve': curve, 'key': encoded_secret(curve, ki), 'chain_id': ch,
                   'group': {'branch': c06.BRANCHES[n % 2], 'contents': cs}}
            if n % 3 == 0 and (curve != 'BL' or n == 0):
                # history: the group already carries a signature (of the same contents on ANOTHER branch, as a group derived from
                # a signed one does) when sign() is called; 'how' = through the constructor or through signed._spawn(branch=..)
                for how in ('ctor', 'spawn'):
                    yield {'curve': curve, 'key': encoded_secret(curve, ki), 'chain_id': ch, 'presigned': how,
                           'group': {'branch': c06.BRANCHES[n % 2], 'contents': cs}}
            if ch is not None and cs[0]['kind'] in CONSENSUS:
                # the client's context already knows ANOTHER chain: the watermark must use the group's own chain id
                other = next(c for c in CHAIN_IDS if c != ch)
                yield {'curve': curve, 'key': encoded_secret(curve, ki), 'chain_id': ch, 'ctx_chain': other,
                       'group': {'branch': c06.BRANCHES[n % 2], 'contents': cs}}
    if curve in ('p2', 'sp'):
        # a family of groups differing only in the counter: ECDSA signatures whose r or s has a leading zero byte turn up
        # about once in 128 groups, so every key meets several of them
        tx = {**c06.variants('transaction', 'quick')[0], 'source': src}
        for i in range(700 if tier == 'quick' else 3000):
            yield {'curve': curve, 'key': encoded_secret(curve, ki), 'chain_id': None, 'family': i,
                   'group': {'branch': c06.BRANCHES[0], 'contents': [{**tx, 'counter': str(i)}]}}


def shards(tier, seed):
    nkeys = 2 if tier == 'quick' else 3
    out = []
    for curve in CURVES:
        for ki in range(nkeys):
            n = sum(1 for _ in all_cases(tier, curve, ki))
            parts = max(1, -(-n // 10)) if curve == 'BL' else 2
            out += [(curve, ki, p, parts) for p in range(parts)]
    # interleave so that the slow BLS shards start early
    out.sort(key=lambda s: (s[0] != 'BL', s[2], s[0], s[1]))
    # process history: the keys of one curve sign alternately (A B A B) inside one shard, whatever ran in this process before
    out += [('hist', curve, 0, 1) for curve in CURVES]
    return out


def hist_cases(tier, curve):
    nkeys = 2 if tier == 'quick' else 3
    per_key = [list(itertools.islice(all_cases(tier, curve, ki), 2)) for ki in range(nkeys)]
    for rnd in (0, 1):
        for cs in per_key:
            yield cs[min(rnd, len(cs) - 1)]


# ----------------------------------------------------------------------------- oracle
def run_case(case):
    """-> (violations, observation dict)"""
    from pytezos.context.impl import ExecutionContext
    from pytezos.crypto.key import Key
    from pytezos.operation.group import OperationGroup
    curve, tz = case['curve'], TZ[case['curve']]
    secret = b58.dec(SK_PREFIX[curve], case['key'])
    g = case['group']
    kinds = [c['kind'] for c in g['contents']]
    consensus = kinds[0] in CONSENSUS
    obs = {}
    key = Key.from_encoded_key(case['key'])
    opg = OperationGroup(context=ExecutionContext(key=key, shell=None, chain_id=case.get('ctx_chain')), contents=[dict(c) for c in g['contents']],
                         protocol=PROTOCOL, chain_id=case['chain_id'], branch=g['branch'])
    forged = bytes.fromhex(opg.forge())
    obs['forged'] = forged.hex()
    if case.get('presigned'):
        other_branch = next(b for b in c06.BRANCHES if b != g['branch'])
        try:
            earlier = OperationGroup(context=opg.context, contents=[dict(c) for c in g['contents']], protocol=PROTOCOL,
                                     chain_id=case['chain_id'], branch=other_branch).sign()
            if case['presigned'] == 'spawn':
                opg = earlier._spawn(branch=g['branch'])
            else:
                opg = OperationGroup(context=opg.context, contents=[dict(c) for c in g['contents']], protocol=PROTOCOL,
                                     chain_id=case['chain_id'], branch=g['branch'], signature=earlier.signature)
        except Exception as e:  # noqa
            return [(f'{TZ[curve]}: building a group from an already signed one raised {type(e).__name__}', f'{e!r}')], obs
    wm = (b'\x02' + b58.dec('Net', case['chain_id'])) if consensus else b'\x03'
    wname = '0x02||chain_id||forged' if consensus else '0x03||forged'
    try:
        signed = opg.sign()
        sig = signed.signature
    except Exception as e:  # noqa
        obs['sign'] = f'{type(e).__name__}: {e}'
        return [(f'{tz}: sign() raised {type(e).__name__}', f'{e!r} kinds={kinds}')], obs
    obs['signature'] = sig
    try:
        skind, raw = decode_signature(sig)
    except Exception as e:  # noqa
        return [(f'{tz}: sign() returned an undecodable signature', f'{sig!r}: {e}')], obs
    vs = []
    if skind not in ('sig', SIG_OF_CURVE[curve]) or (curve == 'BL') != (skind == 'BLsig'):
        vs.append((f'{tz}: signature has the form of another curve ({skind})', sig))
    if not verify(curve, public_key(curve, secret), wm + forged, raw):
        vs.append((f'{tz}: signature does not verify over {wname}', f'sig={raw.hex()} message={(wm + forged).hex()}'))
    if signed.contents != g['contents'] or signed.branch != g['branch'] or bytes.fromhex(signed.forge()) != forged:
        vs.append((f'{tz}: sign() changed the group', ''))
    try:
        payload = signed.binary_payload()
        if payload != forged + raw:
            vs.append((f'{tz}: binary_payload() is not forged || raw signature', f'{payload.hex()} vs {(forged + raw).hex()}'))
        h = signed.hash()
        obs['hash'] = h
        want = T.operation_hash(forged, raw)
        if h != want:
            vs.append((f'{tz}: hash() is not base58 o(Blake2b-256(forged || signature))', f'{h} vs {want}'))
    except Exception as e:  # noqa
        obs['hash'] = f'{type(e).__name__}: {e}'
        vs.append((f'{tz}: hash() / binary_payload() raised {type(e).__name__}', f'{e!r}'))
    return vs, obs


def run_shard(spec, tier):
    curve, ki, part, parts = spec
    r = Result()
    last = None
    if curve == 'hist':
        curve, source = ki, hist_cases(tier, ki)
    else:
        source = (case for i, case in enumerate(all_cases(tier, curve, ki)) if i % parts == part)
    for case in source:
        last = case
        r.ev()
        vs, obs = run_case(case)
        kinds = [c['kind'] for c in case['group']['contents']]
        consensus = kinds[0] in CONSENSUS
        if curve != 'ed' or consensus or len(kinds) > 1:
            r.nt((curve, case['key'], obs['forged'], case['chain_id'] if consensus else None))
        cls = 'consensus' if consensus else ('manager' if kinds[0] in c06.MANAGER else kinds[0])
        r.out(f'{TZ[curve]}/{cls}/{len(kinds)}{"/presigned" if case.get("presigned") else ""}: ' + ('signed, verified, hashed' if not vs else vs[0][0].split(': ', 1)[1]))
        for d, detail in vs:
            r.viol(d, case, detail)
        if r.evaluations == 1:
            r.sample(case)
    if last is not None:
        r.sample(last)
    return r


def replay(case):
    return run_case(case)[0]


def observe(case):
    return run_case(case)[1]
