"""C13 — entrypoint resolution and parameter decoding are mutual inverses.

Small-scope exhaustive input enumeration: EVERY `or` tree shape with n leaves (n=1 is a non-union root),
EVERY duplicate-free placement of field annotations from {none, %a, %b, %default, %root} on leaves AND inner
nodes AND the root - the two free names %a/%b additionally under every SPELLING of the annotation character set
(dot/underscore twins, '%'/'@' inside the name, leading digit/underscore, near-misses of the reserved names incl. the
library's own fallback `_root`, 31-character names) - and every full value (each leaf x 1-2 leaf values) x every
rendering mode is driven through
the real ParameterSection.match / list_entrypoints / from_parameters / to_parameters and judged against
mc/ref/entrypoints.py (plain Python model of Tezos' entrypoint rules, validated against the node's recorded
/entrypoints answers for 20 mainnet contracts).

Judged:
 (1) list_entrypoints() = the annotated nodes reachable through `or` only (+ the annotated root), each with the
     node's type, plus exactly one name for an unannotated root: `default` when no branch is %default, otherwise
     at most one library-chosen name that collides with no branch;
 (2) every full value v: (e, a) = to_parameters(v, mode) must denote v (wrap a in the Left/Right path of e) and
     from_parameters((e, a)) must be v again;
 (3) every listed e and every argument a of its type: from_parameters(e, a) is the Tezos wrapping of a, converting
     that back to a pair and forth again is the same value, and the pair that comes back is (e, a) ITSELF whenever a
     selects no entrypoint below e (when it does, the deeper pair denotes the same value and is accepted).
Not judged (counted as no verdict): values that Tezos itself cannot address (a %default branch exists, the root is
unannotated, and no node on the value's path is annotated: Tezos rejects such a type as Unreachable_entrypoint)
unless the library lists a non-colliding root name; the unlisted implicit `default` of an ANNOTATED root; what the name
`root` lists/denotes when the library uses it for an unannotated root while a branch is annotated %root too (only the
statement's own value -> pair -> value round trip is judged there, see COLLIDE).
"""
from __future__ import annotations

import itertools
import json

from mc.engine.report import Result
from mc.ref import entrypoints as ref

ID = 'C13'
LEVEL = 'exploration'
RULE = ('every or-tree shape with n leaves x every duplicate-free annotation placement over {none,%a,%b,%default,%root} on '
        'all 2n-1 nodes x every spelling of (a,b) from SPELLINGS (plain letters; dot/underscore twins; %/@ inside; leading '
        'digit/underscore; Default/_root near-misses; 31 characters) x every full value (leaf x leaf values) x modes '
        '{readable,optimized,legacy_optimized}, plus every (listed entrypoint, argument) judged pair -> full -> pair; '
        'non-trivial = distinct (type, full value) whose selected leaf is unannotated, or that passes an annotated '
        'inner/root node, or whose type uses a name other than plain a/b (reserved or specially spelled)')
BOUND = {'quick': 'plain spelling: n<=4 leaves (all 1+1+2+5 shapes); the 5 other spellings and the plain spelling over the lazy-storage '
                  'leaf palette (big_map literal, pair holding one, option): n<=3 leaves; 5 annotation choices per '
                  'node without duplicates, 1-2 values per leaf, 3 modes',
         'thorough': 'plain spelling: n<=5 leaves (all 1+1+2+5+14 shapes); the 5 other spellings: n<=4 leaves; same alphabet'}
ASSUMPTIONS = ['mc/ref/entrypoints.py states Tezos entrypoint rules (selftest: node /entrypoints answers of 20 mainnet contracts + recorded calls)',
               'equality of values = equality of their readable Micheline rendering',
               'entrypoint names are the field annotations verbatim (Tezos: [_0-9a-zA-Z][_0-9a-zA-Z.%@]*, at most 31 characters)',
               'OrType.to_micheline_value renders Left/Right compositionally (checked separately by C11)']
LEVEL_TEXT = ('exhaustive over all union shapes and annotation placements up to the leaf bound; every value path of every type is '
              'converted both ways; nothing is sampled, so a placement-dependent failure inside the bound cannot be missed')

NAMES = [None, 'a', 'b', 'default', 'root']   # tokens; 'a' and 'b' are spelled through SPELLINGS[sp]
# Spellings of the two free names.  Tezos takes an entrypoint name verbatim from the annotation; every character of the
# annotation alphabet [_0-9a-zA-Z.%@] is legal after the first, names are case-sensitive and at most 31 characters long.
# Each pair is collision-forcing: the two names become equal under the obvious normalisations (separator folding, case
# folding, stripping, truncation), or coincide with a name the library reserves for itself.
SPELLINGS = [
    ('a', 'b'),                       # plain
    ('a.b', 'a_b'),                   # dot / underscore twins
    ('a%b', 'a@b'),                   # the annotation sigils inside a name
    ('0', '_'),                       # leading digit, bare underscore
    ('Default', '_root'),             # case variant of a reserved name; the library's own fallback name for the root
    ('x' * 31, 'x' * 30 + '.'),       # maximal length, differing in the last character only
    ('a', 'b'),                       # plain again, over the LAZY_LEAVES palette (arguments holding big_map literals / ids, tickets aside)
]
LAZY_SP = len(SPELLINGS) - 1
MODES = ['readable', 'optimized', 'legacy_optimized']
TZ1 = 'tz1VSUr8wwNhLAzempoch5d6hLRiTh8Cjcjb'

INT = {'prim': 'int'}
# a union hidden inside a pair: its %a/%default are NOT entrypoints and must not collide with real ones
PAIR_OR = {'prim': 'pair', 'args': [{'prim': 'or', 'args': [{'prim': 'int', 'annots': ['%a']},
                                                             {'prim': 'string', 'annots': ['%default']}]},
                                     {'prim': 'nat'}]}
LEAVES = [
    (INT, [{'int': '0'}, {'int': '-7'}]),
    ({'prim': 'string'}, [{'string': 'x'}]),
    (PAIR_OR, [{'prim': 'Pair', 'args': [{'prim': 'Left', 'args': [{'int': '1'}]}, {'int': '2'}]},
               {'prim': 'Pair', 'args': [{'prim': 'Right', 'args': [{'string': ''}]}, {'int': '0'}]}]),
    ({'prim': 'unit'}, [{'prim': 'Unit'}]),
    ({'prim': 'address'}, [{'string': TZ1}]),
]


BIG_MAP = {'prim': 'big_map', 'args': [{'prim': 'nat'}, {'prim': 'string'}]}
ELTS = [{'prim': 'Elt', 'args': [{'int': '1'}, {'string': 'a'}]}, {'prim': 'Elt', 'args': [{'int': '2'}, {'string': 'b'}]}]
# leaves whose values go through the lazy-storage rendering (lazy_diff): a big_map literal, empty and not, bare and inside a pair
LAZY_LEAVES = [
    (BIG_MAP, [ELTS, []]),
    ({'prim': 'pair', 'args': [{'prim': 'nat'}, BIG_MAP]}, [{'prim': 'Pair', 'args': [{'int': '5'}, ELTS[:1]]}]),
    ({'prim': 'option', 'args': [{'prim': 'int'}]}, [{'prim': 'None'}]),
]


# ------------------------------------------------------------------ enumeration of types
def shapes(n):
    """All binary tree shapes with n leaves: 'L' or (left, right)."""
    if n == 1:
        return ['L']
    out = []
    for k in range(1, n):
        for l in shapes(k):
            for r in shapes(n - k):
                out.append((l, r))
    return out


def count_nodes(shape):
    return 1 if shape == 'L' else 1 + count_nodes(shape[0]) + count_nodes(shape[1])


def spell(name, sp):
    return {'a': SPELLINGS[sp][0], 'b': SPELLINGS[sp][1]}.get(name, name)


def build(shape, annots, sp=0):
    """Type expression for a shape with the pre-order annotation list `annots` (tokens, spelled by SPELLINGS[sp])."""
    it = iter(annots)
    leaf_no = itertools.count()

    def go(s):
        name = next(it)
        if s == 'L':
            pal = LAZY_LEAVES if sp == LAZY_SP else LEAVES
            node = json.loads(json.dumps(pal[next(leaf_no) % len(pal)][0]))
        else:
            node = {'prim': 'or', 'args': [go(s[0]), go(s[1])]}
        if name is not None:
            node['annots'] = ['%' + spell(name, sp)]
        return node

    return go(shape)


def prefixes(plen):
    """Duplicate-free assignments of NAMES to the first plen nodes (pre-order)."""
    out = [()]
    for _ in range(plen):
        out = [p + (nm,) for p in out for nm in NAMES if nm is None or nm not in p]
    return out


def n_annotations(k, prefix):
    """len(list(annotations(k, prefix))) in closed form: j of the free nodes named, injectively, from the unused names."""
    free, m = k - len(prefix), len(NAMES) - 1 - sum(1 for x in prefix if x)
    total = 0
    for j in range(min(free, m) + 1):
        ways = 1
        for i in range(j):
            ways = ways * (free - i) * (m - i) // (i + 1)
        total += ways
    return total


def annotations(k, prefix):
    """Duplicate-free assignments of NAMES to k nodes (pre-order) whose first nodes get `prefix`."""
    prefix = tuple(prefix)

    def go(i, used):
        if i == k:
            yield ()
            return
        for nm in NAMES:
            if nm is not None and nm in used:
                continue
            for rest in go(i + 1, used | ({nm} if nm else set())):
                yield (nm,) + rest
    for rest in go(len(prefix), {x for x in prefix if x}):
        yield prefix + rest


def values_of(node):
    """Readable Micheline values of a node type: every leaf below x its leaf values."""
    if node.get('prim') == 'or':
        return ([{'prim': 'Left', 'args': [v]} for v in values_of(node['args'][0])]
                + [{'prim': 'Right', 'args': [v]} for v in values_of(node['args'][1])])
    bare = ref.strip_field_annot(node)
    for ty, vals in LEAVES + LAZY_LEAVES:
        if ty == bare:
            return vals
    raise AssertionError(node)


# ------------------------------------------------------------------ implementation access
def P(type_expr):
    from pytezos.michelson.sections.parameter import ParameterSection
    return ParameterSection.match({'prim': 'parameter', 'args': [type_expr]})


def readable(section_value):
    return section_value.to_micheline_value(mode='readable')


def err(e):
    return f'{type(e).__name__}{e.args!r}'[:200]


# When %default is a branch and the root is unannotated the library calls the root `root`.  If a branch is annotated
# %root as well, the same name means two nodes.  Which of the two Tezos means by `root` is not pinned down by the
# ground truth available here (operations encode `root` as a reserved tag), so the listing and the denotation of that
# name get NO verdict; only the statement's own round trip (value -> pair -> value, on the implementation) is judged.
COLLIDE = '`root` names both the unannotated root and a branch annotated %root: the pair made by to_parameters does not convert back'


def collides(p, t, e):
    """`e` is the library's name for the root AND the annotation of a branch below the root."""
    return e == p.root_name and ref.resolve(t, e) not in (None, '')


def impl_listing(p):
    return {k: v.as_micheline_expr() for k, v in p.list_entrypoints().items()}


def extra_root_names(t, listing):
    """Names the library lists in addition to Tezos' own, usable as the root (they collide with nothing)."""
    if ref.field_annot(t) is not None:
        return ()
    return tuple(k for k in listing if k not in ref.listed(t))


def check_listing(p, t):
    out = []
    shadow = False
    try:
        L = impl_listing(p)
    except Exception as e:
        return [('list_entrypoints raises', f'type={t} {err(e)}')], 'listing raises'
    R = ref.listed(t)
    root_t = ref.canon_type(ref.strip_field_annot(t))
    for name, (path, ty) in R.items():
        if name not in L:
            out.append(('list_entrypoints omits an annotated branch', f'type={t} missing={name} listed={sorted(L)}'))
        elif ref.canon_type(ref.strip_field_annot(L[name])) != ref.canon_type(ty):
            if collides(p, t, name):
                shadow = True  # not judged, see COLLIDE
            else:
                out.append(('list_entrypoints gives a wrong type', f'type={t} name={name} got={L[name]} expected={ty}'))
    extra = [k for k in L if k not in R]
    for k in extra:
        if ref.canon_type(ref.strip_field_annot(L[k])) != root_t:
            out.append(('list_entrypoints lists a name that is not an entrypoint', f'type={t} name={k} -> {L[k]}'))
    if ref.field_annot(t) is not None:
        want = 0
    elif ref.default_is_root(t):
        want = 1
        if extra and extra != ['default']:
            out.append(('root of a type without %default is not listed as `default`', f'type={t} extra={extra}'))
    else:
        want = None  # Tezos has no name for the root here; zero or one non-colliding library name is fine
    if (want is not None and len(extra) != want) or len(extra) > 1:
        if not shadow:
            out.append(('list_entrypoints: wrong number of root entries', f'type={t} extra={extra} listed={sorted(L)}'))
    if shadow:
        return out, f'listing: {len(R)} tezos names, `root` entry shared by root and branch (that entry not judged)'
    return out, f'listing: {len(R)} tezos names + {len(extra)} root names'


def listing_or_empty(p):
    try:
        return impl_listing(p)
    except Exception:
        return {}


def check_value(p, t, v, mode, L=None):
    """(2): full value -> pair -> full value.  `L`: the library's listing of the type if the caller has it already."""
    if L is None:
        L = listing_or_empty(p)
    extras = extra_root_names(t, L)
    vp = ref.value_path(t, v) if t.get('prim') == 'or' else ''
    leaf_annotated = ref.field_annot(ref.node_at(t, vp)) is not None
    if not ref.expressible(t, v) and not extras:
        return None, 'no verdict: Tezos cannot address this value (Unreachable_entrypoint type)'
    try:
        x = p.from_micheline_value(v)
        full_m = x.to_micheline_value(mode=mode)
    except Exception as e:
        return [('from_micheline_value rejects a well-typed full parameter', f'type={t} value={v} {err(e)}')], 'full value rejected'
    try:
        pr = x.to_parameters(mode=mode)
        e, a = pr['entrypoint'], pr['value']
    except Exception as ex:
        if not leaf_annotated:
            return [('to_parameters raises when the selected leaf is not annotated',
                     f'type={t} value={v} mode={mode} {err(ex)}')], 'to_parameters raises (unannotated leaf)'
        return [('to_parameters raises', f'type={t} value={v} mode={mode} {err(ex)}')], 'to_parameters raises'
    path = ref.resolve(t, e)
    if path is None and e in extras:
        path = ''
    kind = ('unknown name' if path is None else 'root' if path == '' else 'leaf' if path == vp else 'inner node')
    label = f'to_parameters -> {kind}{" (" + e + ")" if e in ("default", "root") else ""}'
    out = []
    if collides(p, t, e):
        label = 'to_parameters -> name shared by the root and a branch (denotation not judged)'
    elif not ref.denotes(t, e, a, full_m, extras):
        out.append(('to_parameters result does not denote the value', f'type={t} value={v} mode={mode} -> ({e}, {a})'))
    try:
        back = readable(p.from_parameters({'entrypoint': e, 'value': a}))
    except Exception as ex:
        out.append((COLLIDE if collides(p, t, e) else 'from_parameters rejects the pair produced by to_parameters',
                    f'type={t} value={v} mode={mode} pair=({e}, {a}) {err(ex)}'))
        return out, label
    if back != readable(x):
        out.append((COLLIDE if collides(p, t, e) else 'full value -> pair -> full value changes the value',
                    f'type={t} value={v} mode={mode} pair=({e}, {a}) back={back}'))
    return out, label


def check_call(p, t, e, a, path):
    """(3): listed entrypoint + argument -> full value (= Tezos wrapping) -> pair -> same full value."""
    want = ref.wrap(path, a)
    try:
        x = p.from_parameters({'entrypoint': e, 'value': a})
        got = readable(x)
    except Exception as ex:
        return [('from_parameters rejects a listed entrypoint with a well-typed argument', f'type={t} e={e} a={a} {err(ex)}')], 'call rejected'
    if got != want:
        d = 'from_parameters builds a value different from the Tezos wrapping'
        return [(d, f'type={t} e={e} a={a} got={got} expected={want}')], 'call: wrong value'
    try:
        pr = x.to_parameters(mode='readable')
    except Exception as ex:
        vp = ref.value_path(t, want) if t.get('prim') == 'or' else ''
        if ref.field_annot(ref.node_at(t, vp)) is None:
            return [('to_parameters raises when the selected leaf is not annotated',
                     f'type={t} built from e={e} a={a} {err(ex)}')], 'call ok, back-conversion raises (unannotated leaf)'
        return [('to_parameters raises', f'type={t} built from e={e} a={a} {err(ex)}')], 'call ok, back-conversion raises'
    try:
        again = readable(p.from_parameters(pr))
    except Exception as ex:
        d = COLLIDE if collides(p, t, pr['entrypoint']) else 'from_parameters rejects the pair produced by to_parameters'
        return [(d, f'type={t} e={e} a={a} pair={pr} {err(ex)}')], 'call ok, pair rejected'
    if again != want:
        d = COLLIDE if collides(p, t, pr['entrypoint']) else 'full value -> pair -> full value changes the value'
        return [(d, f'type={t} e={e} a={a} pair={pr} again={again}')], 'call ok, round trip differs'
    below = deeper_entrypoints(t, path, want)
    if collides(p, t, e) or collides(p, t, pr.get('entrypoint')):
        return [], 'call ok, name shared by the root and a branch (pair not judged)'
    if not below:
        # the argument selects no entrypoint of its own: the statement's pair -> full -> pair round trip is literal
        if pr.get('entrypoint') != e:
            return [(BACK_NAME, f'type={t} e={e} a={a} full={want} back={pr}')], 'call ok, comes back under another entrypoint'
        if pr.get('value') != a:
            return [(BACK_ARG, f'type={t} e={e} a={a} full={want} back={pr}')], 'call ok, comes back with another argument'
        return [], 'call ok, back to the same pair'
    return [], ('call ok, argument selects a deeper entrypoint: back to '
                + ('the same pair' if pr.get('entrypoint') == e else 'a deeper entrypoint'))


BACK_NAME = 'pair -> full value -> pair comes back under a different entrypoint although the argument selects none below it'
BACK_ARG = 'pair -> full value -> pair comes back with a different argument'


def deeper_entrypoints(t, path, full):
    """Names of the annotated nodes strictly below `path` on the way to the leaf the full value selects."""
    vp = ref.value_path(t, full) if t.get('prim') == 'or' else ''
    return [ref.field_annot(ref.node_at(t, vp[:i])) for i in range(len(path) + 1, len(vp) + 1)
            if ref.field_annot(ref.node_at(t, vp[:i])) is not None]


def calls_of(p, t, L=None):
    """(entrypoint, argument, path) for every Tezos-listed entrypoint and every library root name."""
    out = []
    for name, (path, ty) in ref.listed(t).items():
        if collides(p, t, name):
            path = ''  # the library lists this name with the root type; only the round trip is judged (see COLLIDE)
        for a in values_of(ref.node_at(t, path)):
            out.append((name, a, path))
    extras = extra_root_names(t, listing_or_empty(p) if L is None else L)
    for name in extras:
        for a in values_of(t):
            out.append((name, a, ''))
    return out


def nontrivial(t, v):
    vp = ref.value_path(t, v) if t.get('prim') == 'or' else ''
    on_path = [vp[:i] for i in range(len(vp) + 1) if ref.field_annot(ref.node_at(t, vp[:i])) is not None]
    names = ref.all_names(t)
    return on_path != [vp] or any(nm not in SPELLINGS[0] for nm in names)


# ------------------------------------------------------------------ driver interface
PREFIX = 2   # a shard = (spelling, leaves, shape, annotations of the first PREFIX nodes in pre-order)


def shards(tier, seed):
    nmax = 4 if tier == 'quick' else 5      # plain spelling
    smax = 3 if tier == 'quick' else 4      # every other spelling
    out = []
    for sp in range(len(SPELLINGS)):
        for n in range(1, (nmax if sp == 0 else smax) + 1):
            for si, shape in enumerate(shapes(n)):
                k = count_nodes(shape)
                for prefix in prefixes(min(PREFIX, k)):
                    out.append((n_annotations(k, prefix) * n * n, sp, n, si, prefix))
    # heaviest first: the runner deals shards round-robin to its workers, so lanes come out balanced (and deterministic)
    out.sort(key=lambda x: -x[0])
    return [x[1:] for x in out]


def run_type(r, t):
    tkey = json.dumps(t, sort_keys=True)
    try:
        p = P(t)
    except Exception as e:
        r.ev()
        r.out('type rejected')
        r.viol('ParameterSection.match rejects a well-formed parameter type', {'type': t}, f'type={t} {err(e)}')
        return {'type': t}
    r.ev()
    vs, label = check_listing(p, t)
    r.out(label)
    if 'not judged' in label:
        r.no_verdict += 1
    for d, detail in vs:
        r.viol(d, {'type': t}, detail)
    case = {'type': t}
    L = listing_or_empty(p)
    for v in values_of(t):
        if nontrivial(t, v):
            r.nt((tkey, json.dumps(v, sort_keys=True)))
        for mode in MODES:
            case = {'type': t, 'value': v, 'mode': mode}
            r.ev()
            vs, label = check_value(p, t, v, mode, L)
            r.out(label)
            if vs is None:
                r.no_verdict += 1
                continue
            if 'not judged' in label:
                r.extra['denotation_not_judged_round_trip_judged'] += 1
            for d, detail in vs:
                r.viol(d, case, detail)
    for e, a, path in calls_of(p, t, L):
        c = {'type': t, 'entrypoint': e, 'arg': a}
        r.ev()
        vs, label = check_call(p, t, e, a, path)
        r.out(label)
        if 'not judged' in label:
            r.extra['pair_not_judged_round_trip_judged'] += 1
        for d, detail in vs:
            r.viol(d, c, detail)
    if ref.field_annot(t) is not None and ref.default_is_root(t):
        # Tezos also accepts the implicit `default` here; the statement only speaks of listed entrypoints
        r.no_verdict += 1
        try:
            p.from_parameters({'entrypoint': 'default', 'value': values_of(t)[0]})
            r.out('implicit default of an annotated root: accepted (not judged)')
        except Exception:
            r.out('implicit default of an annotated root: rejected (not judged)')
    return case


def run_shard(spec, tier):
    sp, n, si, prefix = spec
    shape = shapes(n)[si]
    r = Result()
    case = None
    for i, ann in enumerate(annotations(count_nodes(shape), prefix)):
        t = build(shape, ann, sp)
        assert ref.all_names(t) == [spell(x, sp) for x in ann if x] and not ref.has_duplicates(t)
        assert all(len(x) <= 31 for x in ref.all_names(t))
        case = run_type(r, t)
        if n > 1 and i in (0, 7):
            r.sample(case)
    if case is not None:
        r.sample(case)
    return r


def replay(case):
    t = case['type']
    try:
        p = P(t)
    except Exception as e:
        return [('ParameterSection.match rejects a well-formed parameter type', f'type={t} {err(e)}')]
    if 'value' in case:
        return check_value(p, t, case['value'], case.get('mode', 'readable'))[0] or []
    if 'entrypoint' in case:
        path = ref.resolve(t, case['entrypoint'])
        if collides(p, t, case['entrypoint']):
            path = ''
        return check_call(p, t, case['entrypoint'], case['arg'], path if path is not None else '')[0]
    return check_listing(p, t)[0]


def observe(case):
    t = case['type']
    p = P(t)
    obs = {'root_name': p.root_name, 'listing': impl_listing(p)}
    if 'value' in case:
        try:
            obs['pair'] = p.from_micheline_value(case['value']).to_parameters(mode=case.get('mode', 'readable'))
        except Exception as e:
            obs['pair'] = err(e)
    if 'entrypoint' in case:
        try:
            obs['full'] = readable(p.from_parameters({'entrypoint': case['entrypoint'], 'value': case['arg']}))
        except Exception as e:
            obs['full'] = err(e)
    return obs
