"""C25 — injected operation groups carry the account's next counters.

Explicit-state model checking (BFS over event histories with canonical-state deduplication) of the client/node counter
protocol.  World = simulated node (mc/simnode.py: account counter c, mempool, head) behind the real ShellQuery + the real
ExecutionContext (with its cached `counter`) + the operation groups the client currently holds.  Every event calls the real
method:

    B1/B2 g   build a group of 1 / 2 transactions          F g   g = g.fill()            A g   g = g.autofill()
    S g       g = g.sign()                                 I g   g.inject(), node willing   R g   g.inject(), node refuses (RpcError)
    X g       g.send() (autofill+sign+inject), node willing   XR g  g.send(), node refuses
    K         the node bakes: mempool operations are included, c advances              D g   the client drops g
    C1        build a group of 1 transaction through the real PyTezosClient (client.transaction(..)): the group lives on a
              context of its own spawned by the client (B1/B2 groups all share one context)
    M g h     build a group through the client's batch builder client.bulk(g, h) from the contents of held groups in ANY stage
              (built, filled, autofilled, signed; g == h allowed; both orders); the members stay held
    MD g h    the same, and the client drops the members afterwards (the usual "dry-run each, then send them as one batch")

Invariant (the statement), judged BY THE NODE at every injection attempt (I, R, X, XR) on the bytes it receives, decoded by
mc/ref/mgrops.py: counters == c+p+1, c+p+2, ... where c is the account counter on the node and p the account's contents
pending in the mempool at that moment.  A willing node additionally refuses a group with other counters (as a real node
would), so the exploration continues in a sane world after a violation.

One class of injections gets NO VERDICT: a group whose counters were right, or could not be known to be wrong, when the
client last computed them, but another group of the account was accepted by the node in between ("stale group": c+p moved
after the last fill/autofill that computed this group's counters).  Counters are signed into the group; no client that
signs before injecting can satisfy the statement there, so a failure is not attributed to pytezos.

The counter-cache model is kept per context (the shared one, and one per client-built group); a group that comes out of a
client builder is modelled as a NEW group whose counters have never been computed, whatever its members went through.

Successor states are produced by deep-copying the live world (node, context, groups share one memo) and applying one event;
every newly discovered state is validated by REPLAYING its whole history from scratch on fresh objects (must give the same
canonical state), so hidden state outside the copied objects would be noticed.
"""
from __future__ import annotations

import copy

from mc.engine.report import Result

ID = 'C25'
LEVEL = 'model_checking'
RULE = ('BFS over all event histories (alphabet B1 B2 C1 M MD F A S I R X XR K D: groups built directly on one shared context, '
        'built through PyTezosClient.transaction on a context of their own, or batched by PyTezosClient.bulk from every ordered pair '
        '(g,h), g==h included, of held groups in any stage, members kept or dropped, at most MAXN=4 contents; at most MAXG held '
        'groups) up to the depth bound, per configuration (source curve x initial account counter x sandboxed node); canonical '
        'state = (pending contents p, cached counter of the shared context relative to c, multiset of held groups (size, stage, '
        'counters relative to c, how/when they were computed, shared or own context and its cached counter)). evaluation = one '
        'injection attempt judged by the invariant; distinct_nontrivial = distinct (configuration, canonical pre-state, event) '
        'injection attempts that are not the plain "nothing cached, empty mempool, one held group of 1-2 contents whose counters '
        'were never computed or come from the node counter" case')
QUICK_BOUND = ('full alphabet (incl. the client builders C1 M MD): depth 6 with at most 2 held groups; alphabet without the client '
               'builders: depth 7 with at most 2 held groups; each on 18 configurations (tz1,tz2,tz3 x c0 in {0,126,2^32-2} x '
               'sandboxed in {no,yes}); the A event additionally called with options - autofill(fee, gas_limit, storage_limit) / '
               'autofill(fee) / autofill(ttl, gas_reserve, burn_reserve) - on the 6 tz1 configurations, alphabet without the client '
               'builders, depth 6 (thorough: 8); and the E event (a held unsigned group extended by one more transaction, in any stage, '
               'then filled again) with one held group, depth 6 (thorough: 7), on the same 6 configurations')
THOROUGH_BOUND = ('full alphabet: depth 8 with at most 2 held groups and depth 6 with at most 3 held groups; alphabet without the '
                  'client builders: depth 9 with at most 2 held groups and depth 8 with at most 3 held groups; same 18 configurations')
BOUND = {'quick': QUICK_BOUND, 'thorough': THOROUGH_BOUND}
ASSUMPTIONS = [
    'the node reports pending operations under `applied` (where ExecutionContext.get_counter_offset looks); newer Octez versions '
    'report `validated` instead - not judged here',
    'one account, transactions only; the node does not verify signatures or balances; run_operation always answers applied',
    'stale groups (another group of the account accepted between the last computation of the counters and the injection) get no verdict',
    'behaviour is translation invariant in the account counter (states are canonicalised relative to c); three initial counters '
    'incl. both sides of the 1->2 byte zarith boundary are explored separately',
    'the Jupyter help text of RpcQuery objects is stubbed for speed (mc.simnode.disable_query_docstrings)',
]
LEVEL_TEXT = ('model checking of the finite-depth reachable state space of the real client objects against a simulated node: all '
              'histories up to the bound, canonical-state dedup, every state re-derived by from-scratch replay; no claim beyond the '
              'depth/held-groups bound or for several accounts')

DEST = 'tz1gjaF81ZRRvdzjobyfVNsAeSC6PScjfQwN'
CURVES = {'tz1': b'ed', 'tz2': b'sp', 'tz3': b'p2'}
INJECT_EVENTS = ('I', 'R', 'X', 'XR')
MAXN = 4  # a batch built by client.bulk has at most this many contents
SHARED = 0  # id of the context all B-built groups share; client-built groups get ids 1, 2, ...
_keys = {}


def key_of(curve):
    from pytezos.crypto.key import Key
    if curve not in _keys:
        _keys[curve] = Key.from_secret_exponent(bytes([9]) * 32, curve=CURVES[curve])
    return _keys[curve]


class Slot:
    """A group the client holds + harness bookkeeping about how its counters were computed (never shown to pytezos)."""

    def __init__(self, g, n, ctx=SHARED):
        self.g, self.n = g, n
        self.ctx = ctx        # which context (counter cache) the group lives on: SHARED or the id of its own one
        self.call = None      # 'fill' | 'autofill': the call that last computed the counters
        self.basis = None     # 'node counter' | 'cached counter' | 'own counters'
        self.sum_at = None    # c+p on the node when they were computed
        self.predicted = None  # counters according to the counter-cache model below


class World:
    def __init__(self, cfg):
        from pytezos.client import PyTezosClient
        from pytezos.context.impl import ExecutionContext
        from pytezos.rpc.shell import ShellQuery
        from mc.simnode import SimNode, disable_query_docstrings
        disable_query_docstrings()
        self.cfg = cfg
        self.key = key_of(cfg['curve'])
        self.pkh = self.key.public_key_hash()
        self.node = SimNode(counters={self.pkh: cfg['c0']}, sandboxed=cfg['sandboxed'], check_counters=True)
        self.ctx = ExecutionContext(shell=ShellQuery(node=self.node), key=self.key)
        self.client = PyTezosClient(context=self.ctx)  # its builders spawn a new context (same shell, same key) per group
        self.held = {}          # gid -> Slot
        self.next_gid = 1
        self.next_ctx = 1
        self.model_cache = {SHARED: None}  # the counter-cache model: what each ExecutionContext.counter is believed to be
        self.model_ok = True

    # -- observation ------------------------------------------------------------------------------
    def c(self):
        return self.node.counters[self.pkh]

    def p(self):
        return self.node.pending(self.pkh)

    @staticmethod
    def stage(g):
        return 'signed' if g.signature else 'filled' if g.branch else 'built'

    @staticmethod
    def counters(g):
        cs = [int(x['counter']) for x in g.contents]
        return cs if any(cs) else None

    def slot_canon(self, gid):
        sl = self.held[gid]
        c, s = self.c(), self.c() + self.p()
        cs = self.counters(sl.g)
        own = None if sl.ctx == SHARED else sl.g.context.counter
        return (sl.n, self.stage(sl.g), None if cs is None else tuple(x - c for x in cs), sl.call, sl.basis,
                None if sl.sum_at is None else s - sl.sum_at, 'shared' if sl.ctx == SHARED else 'own',
                None if own is None else own - c)

    def canon(self):
        cache = self.ctx.counter
        return (self.p(), None if cache is None else cache - self.c(),
                tuple(sorted((self.slot_canon(gid) for gid in self.held), key=repr)))

    def enabled(self):
        evs = []
        room = len(self.held) < self.cfg['maxg']
        client = self.cfg.get('alphabet', 'client') == 'client'
        if room:
            evs += [['B', 1], ['B', 2]]
            if client:
                evs.append(['C', 1])
        for gi, si in self.held.items():
            for gj, sj in self.held.items():
                if client and si.n + sj.n <= MAXN:
                    if room:
                        evs.append(['M', gi, gj])
                    evs.append(['MD', gi, gj])
        ext = self.cfg.get('alphabet') == 'ext'
        for gid, sl in self.held.items():
            evs += [['F', gid], ['A', gid]]
            # a group extended after its counters were computed has a content without counter: signing / injecting it as it
            # is would be the caller's mistake, not a behaviour of the library, so E must be followed by F, A or X
            unfilled = ext and any(int(x['counter']) == 0 for x in sl.g.contents) and self.counters(sl.g) is not None
            if sl.g.branch and not unfilled:
                evs.append(['S', gid])
            if sl.g.signature and not unfilled:
                evs += [['I', gid], ['R', gid]]
            evs += [['X', gid], ['XR', gid], ['D', gid]]
            if ext and sl.n < MAXN and not sl.g.signature:
                evs.append(['E', gid])
        evs.append(['K'])
        return evs

    # -- the counter-cache model (explains, never judges) ---------------------------------------------
    def _model_compute(self, sl, call):
        """What counters does the documented caching behaviour give `sl` when `call` (fill/autofill) is applied now?
        Returns (predicted counters, basis) and updates the modelled cache."""
        p = self.p()
        if sl.predicted is None:
            cache = self.model_cache[sl.ctx]
            basis = 'node counter' if cache is None else 'cached counter'
            base = self.c() if cache is None else cache
            pred = [base + 1 + i for i in range(sl.n)]
            self.model_cache[sl.ctx] = base + sl.n
            if call == 'autofill':
                pred = [x + p for x in pred]
            return pred, basis
        if len(sl.predicted) < sl.n:
            # extended after its counters were computed (E): the old contents keep theirs, the new ones get the next cached ones
            missing = sl.n - len(sl.predicted)
            cache = self.model_cache[sl.ctx]
            basis = 'node counter' if cache is None else 'cached counter'
            base = self.c() if cache is None else cache
            pred = sl.predicted + [base + 1 + i for i in range(missing)]
            self.model_cache[sl.ctx] = base + missing
            if call == 'autofill':
                pred = [x + p for x in pred]
            return pred, basis
        if call == 'autofill' and p:
            return [x + p for x in sl.predicted], 'own counters'
        return sl.predicted, None  # nothing recomputed

    def _assign(self, sl, call, g_new):
        pred, basis = self._model_compute(sl, call)
        sl.g = g_new
        sl.predicted = pred
        if basis is not None:
            sl.call, sl.basis, sl.sum_at = call, basis, self.c() + self.p()
        if self.counters(g_new) != pred or not self._caches_as_modelled(sl):
            self.model_ok = False

    def _caches_as_modelled(self, sl):
        return self.ctx.counter == self.model_cache[SHARED] and sl.g.context.counter == self.model_cache[sl.ctx]

    def _forget_contexts(self):
        live = {sl.ctx for sl in self.held.values()} | {SHARED}
        for k in [k for k in self.model_cache if k not in live]:
            del self.model_cache[k]

    def _own(self, g, n):
        """Hold a group that came out of a client builder: it lives on a context of its own, nothing computed yet."""
        sl = Slot(g, n, self.next_ctx)
        self.model_cache[sl.ctx] = None
        self.next_ctx += 1
        self.held[self.next_gid] = sl
        self.next_gid += 1
        if g.context is self.ctx or g.context.counter is not None or self.counters(g) is not None:
            self.model_ok = False  # explains, never judges: the injection of this group is what gets judged

    # -- events ---------------------------------------------------------------------------------------
    def apply(self, ev):
        """Execute one event with the real client.  Returns None or, for injection attempts, a judgement dict."""
        from pytezos.operation.group import OperationGroup
        from pytezos.rpc.node import RpcError
        kind = ev[0]
        if kind == 'B':
            g = OperationGroup(context=self.ctx)
            for _ in range(ev[1]):
                g = g.transaction(destination=DEST, amount=1)
            self.held[self.next_gid] = Slot(g, ev[1])
            self.next_gid += 1
            return None
        if kind == 'C':
            g = self.client.transaction(destination=DEST, amount=1)
            for _ in range(ev[1] - 1):
                g = g.transaction(destination=DEST, amount=1)
            self._own(g, ev[1])
            return None
        if kind in ('M', 'MD'):
            members = [self.held[ev[1]], self.held[ev[2]]]
            g = self.client.bulk(*[m.g for m in members])
            if kind == 'MD':
                for gid in set(ev[1:]):
                    del self.held[gid]
            self._own(g, sum(m.n for m in members))
            self._forget_contexts()
            return None
        if kind == 'K':
            self.node.bake()
            return None
        gid = ev[1]
        sl = self.held[gid]
        if kind == 'D':
            del self.held[gid]
            self._forget_contexts()
            return None
        if kind == 'E':
            sl.g = sl.g.transaction(destination=DEST, amount=1)
            sl.n += 1
            return None
        if kind == 'F':
            self._assign(sl, 'fill', sl.g.fill())
            return None
        if kind == 'A':
            self._assign(sl, 'autofill', sl.g.autofill(**AUTOFILL_OPTS[self.cfg.get('opts', 'plain')]))
            return None
        if kind == 'S':
            sl.g = sl.g.sign()
            return None
        # injection attempts
        refuse = kind in ('R', 'XR')
        self.node.reject_next = refuse
        n_before = len(self.node.injections)
        tmp = Slot(sl.g, sl.n, sl.ctx)
        tmp.call, tmp.basis, tmp.sum_at, tmp.predicted = sl.call, sl.basis, sl.sum_at, sl.predicted
        err = None
        try:
            if kind in ('I', 'R'):
                self.model_cache[sl.ctx] = None  # inject() resets the context of the group first
                sl.g.inject()
            else:
                # send() = autofill().sign().inject() on a temporary group; the held one is not modified
                pred, basis = self._model_compute(tmp, 'autofill')
                tmp.predicted = pred
                if basis is not None:
                    tmp.call, tmp.basis, tmp.sum_at = 'autofill', basis, self.c() + self.p()
                self.model_cache[sl.ctx] = None
                sl.g.send()
        except RpcError as e:
            err = 'RpcError'
        except Exception as e:  # noqa
            err = f'{type(e).__name__}: {e}'[:200]
        self.node.reject_next = False
        if not self._caches_as_modelled(sl):
            self.model_ok = False
        logs = self.node.injections[n_before:]
        j = {'event': kind, 'error': err, 'attempts': len(logs), 'call': tmp.call, 'basis': tmp.basis,
             'predicted': tmp.predicted, 'n': sl.n}
        if len(logs) == 1 and logs[0].get('decoded'):
            lg = logs[0]
            j.update(c=lg['c'], p=lg['p'], counters=lg['counters'], expected=lg['expected'], accepted=lg['accepted'],
                     stale=(tmp.sum_at is not None and lg['c'] + lg['p'] != tmp.sum_at))
            if lg['accepted']:
                del self.held[gid]
                self._forget_contexts()
        return j


def judge(j):
    """-> (outcome label, descriptor or None, no_verdict?)"""
    ev = j['event']
    via = 'send' if ev in ('X', 'XR') else 'inject'
    if j['attempts'] != 1 or 'counters' not in j:
        return f'{via}: nothing decodable reached the node', f'{via}: no well-formed operation reached the node ({j["error"]})', False
    if j['error'] not in (None, 'RpcError'):
        return f'{via}: unexpected exception', f'{via}: unexpected exception {j["error"].split(":")[0]}', False
    how = f'{j["call"]} from the {j["basis"]}' if j['basis'] != 'own counters' else 'autofill shifting its own earlier counters'
    if j['counters'] == j['expected']:
        return f'{via} [{how}]: counters are the next ones' + ('' if ev in ('I', 'X') else ' (node refuses for its own reasons)'), None, False
    cs = j['counters']
    if cs != list(range(cs[0], cs[0] + len(cs))):
        d = f'{via}: counters inside one group are not consecutive'
        if cs == j['predicted']:   # the documented caching explains it (a group extended after a refused injection reset the cache)
            d += ' [what the counter-cache model predicts]'
        return f'{via}: non-consecutive', d, False
    direction = 'too high' if cs[0] > j['expected'][0] else 'too low'
    if j['stale']:
        return f'{via} [{how}]: {direction}, stale group: no verdict', None, True
    d = f'counters computed by {how}: {direction} at injection'
    if cs != j['predicted']:
        d += ' [and not what the counter-cache model predicts]'
    return f'{via} [{how}]: {direction}', d, False


def render(history):
    names = {'E': 'extend by one transaction', 'B': 'build', 'F': 'fill', 'A': 'autofill', 'S': 'sign', 'I': 'inject', 'R': 'inject(node refuses)',
             'X': 'send', 'XR': 'send(node refuses)', 'K': 'bake', 'D': 'drop'}
    out, gid = [], 0
    for ev in history:
        if ev[0] == 'B':
            gid += 1
            out.append(f'build g{gid}({ev[1]})')
        elif ev[0] == 'C':
            gid += 1
            out.append(f'g{gid} = client.transaction(..)' + '.transaction(..)' * (ev[1] - 1))
        elif ev[0] in ('M', 'MD'):
            gid += 1
            out.append(f'g{gid} = client.bulk(g{ev[1]}, g{ev[2]})' + (' and drop the members' if ev[0] == 'MD' else ''))
        elif ev[0] == 'K':
            out.append('bake')
        else:
            out.append(f'{names[ev[0]]} g{ev[1]}')
    return ', '.join(out)


def run_history(cfg, history):
    """From-scratch replay on fresh objects.  Returns (world, [judgement or None per event])."""
    w = World(cfg)
    js = []
    for ev in history:
        js.append(w.apply(list(ev)))
    return w, js


def check_last(cfg, history):
    w, js = run_history(cfg, history)
    j = js[-1] if js else None
    if j is None:
        return [], w, js
    label, d, nov = judge(j)
    if d is None:
        return [], w, js
    return [(d, detail(cfg, history, j))], w, js


def detail(cfg, history, j):
    return (f'{render(history)}  =>  node has c={j.get("c")}, pending p={j.get("p")}: expected counters {j.get("expected")}, '
            f'injected {j.get("counters")} (counter-cache model predicts {j.get("predicted")}); config={cfg}')


def nontrivial(pre_canon):
    p, cache, slots = pre_canon
    return (p > 0 or cache is not None or len(slots) > 1
            or any(s[4] not in (None, 'node counter') or s[0] > 2 or s[7] is not None for s in slots))


CONFIGS = [{'curve': cv, 'c0': c0, 'sandboxed': sb} for cv in CURVES for c0 in (0, 126, 2 ** 32 - 2) for sb in (False, True)]


LANES = 16
# measured transitions per shard (thousands), used only to spread the shards evenly over the runner's static lanes
WEIGHT = {('ext', 1, 6): 2, ('ext', 1, 7): 4, ('client', 2, 6): 15, ('base', 2, 7): 7, ('base', 2, 6): 3, ('base', 2, 8): 18, ('client', 3, 6): 44, ('client', 2, 8): 148, ('base', 3, 8): 42, ('base', 2, 9): 47}


def balanced(specs):
    """Order the shard list so that the static lanes shards[k::LANES] carry about the same work (greedy, heaviest first;
    lane k < len % LANES holds one shard more).  The set of shards does not depend on the order."""
    def wt(sp):
        return WEIGHT[(sp['alphabet'], sp['maxg'], sp['depth'])]
    q, rem = divmod(len(specs), LANES)
    cap = [q + 1 if k < rem else q for k in range(LANES)]
    lanes = [[] for _ in range(LANES)]
    load = [0] * LANES
    for i, sp in sorted(enumerate(specs), key=lambda t: (-wt(t[1]), t[0])):
        k = min((k for k in range(LANES) if len(lanes[k]) < cap[k]), key=lambda k: (load[k], k))
        lanes[k].append(sp)
        load[k] += wt(sp)
    improved = True
    while improved:  # swap two shards between the heaviest lane and another one while that lowers the larger of the two loads
        improved = False
        a = max(range(LANES), key=lambda k: (load[k], -k))
        for b in range(LANES):
            for i in range(len(lanes[a])):
                for j in range(len(lanes[b])):
                    d = wt(lanes[a][i]) - wt(lanes[b][j])
                    if b != a and not improved and d > 0 and load[b] + d < load[a]:
                        lanes[a][i], lanes[b][j] = lanes[b][j], lanes[a][i]
                        load[a] -= d
                        load[b] += d
                        improved = True
    return [lanes[k][row] for row in range(q + 1) for k in range(LANES) if row < len(lanes[k])]


# how the A event calls autofill: the options a caller may pass must not change the counters it computes
AUTOFILL_OPTS = {'plain': {},
                 'limits': {'fee': 2000, 'gas_limit': 20000, 'storage_limit': 200},     # nothing left to estimate
                 'fee': {'fee': 2000},
                 'ttl': {'ttl': 30, 'gas_reserve': 7, 'burn_reserve': 3}}


def shards(tier, seed):
    def fam(alphabet, maxg, depth, opts='plain', configs=None):
        return [dict(cfg, alphabet=alphabet, maxg=maxg, depth=depth, opts=opts) for cfg in (configs or CONFIGS)]
    tz1 = [c for c in CONFIGS if c['curve'] == CONFIGS[0]['curve']]
    optfams = [x for o in ('limits', 'fee', 'ttl') for x in fam('base', 2, 6 if tier == 'quick' else 8, o, tz1)]
    # E g: a held, unsigned group is extended by one more transaction (g = g.transaction(..)) in any stage; one held group
    optfams += fam('ext', 1, 6 if tier == 'quick' else 7, 'plain', tz1)
    if tier == 'quick':
        return balanced(fam('client', 2, 6) + fam('base', 2, 7) + optfams)
    return balanced(fam('client', 3, 6) + fam('client', 2, 8) + fam('base', 3, 8) + fam('base', 2, 9) + optfams)


def cfg_key(cfg):
    return (cfg['curve'], cfg['c0'], cfg['sandboxed'], cfg['maxg'], cfg.get('alphabet', 'client'), cfg.get('opts', 'plain'))


def run_shard(spec, tier):
    cfg = {k: spec[k] for k in ('curve', 'c0', 'sandboxed', 'maxg', 'alphabet')}
    if spec.get('opts', 'plain') != 'plain':
        cfg['opts'] = spec['opts']
    depth = spec['depth']
    ck = cfg_key(cfg)
    r = Result()
    w0 = World(cfg)
    r.state((ck, w0.canon()))
    frontier = [([], w0)]
    first_sampled = False
    last_case = None
    for d in range(depth):
        nxt = []
        for hist, w in frontier:
            pre = w.canon()
            for ev in w.enabled():
                w2 = copy.deepcopy(w)
                j = w2.apply(ev)
                r.transitions += 1
                h2 = hist + [ev]
                r.extra['event ' + ev[0]] += 1
                if j is not None:
                    r.ev()
                    case = {'config': cfg, 'history': h2}
                    last_case = case
                    if nontrivial(pre):
                        # the same attempt reached under another alphabet / held-groups bound is the same case
                        r.nt((ck[:3], pre, ev[0], w.slot_canon(ev[1])))
                    label, desc, nov = judge(j)
                    r.out(label)
                    if nov:
                        r.no_verdict += 1
                    if desc is not None:
                        r.viol(desc, case, detail(cfg, h2, j))
                    if not first_sampled and ck == cfg_key(dict(CONFIGS[0], maxg=cfg['maxg'], alphabet=cfg['alphabet'])):
                        r.sample(case)
                        first_sampled = True
                if not w2.model_ok:
                    r.extra['counter-cache model mismatch'] += 1
                    w2.model_ok = True
                cn = w2.canon()
                if r.state((ck, cn)):
                    # validate the copied world against a from-scratch replay of the whole history
                    w3, _ = run_history(cfg, h2)
                    if w3.canon() != cn:
                        raise AssertionError(f'deepcopy successor and from-scratch replay disagree after {render(h2)}: '
                                             f'{cn} vs {w3.canon()}')
                    r.traces += 1
                    if d + 1 < depth:
                        nxt.append((h2, w2))
        frontier = nxt
    if last_case is not None:
        r.sample(last_case)
    return r


def replay(case):
    cfg = dict(case['config'])
    return check_last(cfg, [list(e) for e in case['history']])[0]


def observe(case):
    cfg = dict(case['config'])
    w, js = run_history(cfg, [list(e) for e in case['history']])
    return {'canon': repr(w.canon()), 'judgements': [None if j is None else {k: j.get(k) for k in
            ('event', 'error', 'c', 'p', 'counters', 'expected', 'accepted', 'stale', 'predicted')} for j in js],
            'node': w.node.snapshot()}
