"""C11 — typed values round-trip through readable / optimized / legacy_optimized Micheline.

Small-scope exhaustive exploration, purely differential: for every storable / passable type up to a depth bound (all
leaf types incl. BLS, chest, tx_rollup_l2_address, sapling_state, never; option / list / set / map / big_map / ticket /
contract / lambda / or / pair and right combs of 2-6) and every value of a class-covering domain (ints of +-2^4096,
timestamps at the int64 and year-1/1000/9999 boundaries, every address / key / key-hash / signature kind, big_map
literals and big_map ids), and for each mode:
      T.from_micheline_value(v.to_micheline_value(mode))  read structurally  ==  v  read structurally.
Values are built with `T.from_micheline_value(<readable literal>)` (tickets too: `Pair ticketer content amount`) and the
value read back from the object must be the one the literal denotes.  For timestamps the readable rendering must be an
int literal or a string that an independent RFC 3339 reader (mc/ref/rfc3339.py) maps to the same second.
"""
from __future__ import annotations

import json
from functools import lru_cache

from mc import adapter as A
from mc.engine.report import Result
from mc.ref import base58 as b58
from mc.ref import mtypes as T
from mc.ref import rfc3339

ID = 'C11'
LEVEL = 'exploration'
RULE = ('per type: every value of the type\'s domain x 3 modes is one evaluation of render -> parse -> structural equality '
        '(+ one evaluation for building the value from its readable literal).  distinct_nontrivial = distinct (type, value) '
        'whose readable and optimized renderings differ (a domain value, a comb of >=3, a timestamp, a BLS scalar) or that hold '
        'a big_map / ticket / lambda')
BOUND = {
    'quick': '27 leaf types with full domains (ints +-2^4096, 14 boundary timestamps); every depth-1 type over all leaves '
             '(option list set ticket contract; pair or map big_map over 27x27; lambdas; combs 2-6); depth-2 types over an 8-leaf core',
    'thorough': 'quick plus depth-2 types with one argument a depth-1 type over ALL leaves and the others core leaves, pairs of '
                'depth-1 core types, and depth-3 spines over a 3-leaf core',
}
ASSUMPTIONS = [
    'equality is structural equality of the value objects (.value/.items/.item/.ptr read directly), not the classes\' own __eq__ '
    '(several container classes define none)',
    'values holding big_map / sapling_state literals are rendered with lazy_diff=True, values holding ids with the default '
    'lazy_diff=False (the default refuses to render a big_map without an id by design)',
    'a readable timestamp may be an int or an RFC 3339 string (the statement says Tezos uses ints outside years 1000-9999; '
    'a parseable string for years 0001-0999 is not treated as a violation)',
    'operation has no literal form and is outside "storable / passable"; sapling_transaction and annotated types are not generated',
]
LEVEL_TEXT = ('exhaustive over every type shape up to the depth bound with class-covering leaf domains, three modes each: decides '
              'the per-type rendering / parsing logic, not every value')

MODES = ('readable', 'optimized', 'legacy_optimized')


def dg(first, last, fill=0x11):
    return bytes([first]) + bytes([fill]) * 18 + bytes([last])


LAM = ('lambda', ('unit',), ('unit',))
LAM2 = ('lambda', ('pair', ('int',), ('nat',)), ('list', ('operation',)))
CONTRACT = ('contract', ('unit',))
SAPLING = ('sapling_state', 8)
FR_MOD = 0x73EDA753299D7D483339D80809A1D80553BDA402FFFE5BFEFFFFFFFF00000001
TS = [0, -1, 1, 1700000000, -30610224000, -30610224001, 253402300799, 253402300800, -62135596800, -62135596801,
      -62167219200, -62167219201, -2 ** 63, 2 ** 63]


def lam(code):
    return ('lam', json.dumps(code, sort_keys=True))


LAMBDAS = [lam([]), lam([{'prim': 'DROP'}, {'prim': 'UNIT'}]),
           lam([{'prim': 'PUSH', 'args': [{'prim': 'int'}, {'int': '-64'}]}, {'prim': 'DROP'}]),
           lam([{'prim': 'DIP', 'args': [[{'prim': 'DROP'}, {'prim': 'UNIT'}]]}])]
FULL = {
    ('int',): [0, 1, -1, 64, -8192, 2 ** 4096, -2 ** 4096],
    ('nat',): [0, 1, 64, 2 ** 4096],
    ('mutez',): [0, 1, 2 ** 63 - 1],
    ('timestamp',): TS,
    ('string',): ['', 'a', '2020-01-01T00:00:00Z', 'Hello\n"\\'],
    ('bytes',): [b'', b'\x00', b'\x05\x00\x2a', b'\xff' * 21],
    ('bool',): [False, True],
    ('unit',): [()],
    ('never',): [],
    ('chain_id',): [bytes(4), b'\xff' * 4, b'\x7a\x06\xa7\x70'],
    ('key_hash',): [(k, dg(f, l)) for k in T.KH_KINDS for f, l in ((0, 5), (3, 5), (4, 5), (9, 0), (0xff, 0xff))],
    ('address',): ([('KT1', dg(9, 9), 'default'), ('tz1', dg(9, 9), 'default')]
                   + [(k, dg(f, l), '') for k in T.ADDR_KINDS for f, l in ((0, 5), (1, 0), (0xff, 0xff))]
                   + [('tz1', dg(0, 0), 'a'), ('KT1', dg(0, 0), 'a'), ('KT1', dg(1, 0), 'abcdefghijklmnopqrstuvwxyz01234'), ('sr1', dg(2, 0), 'b')]),
    ('key',): [('edpk', bytes(32)), ('edpk', b'\xff' * 32), ('sppk', b'\x02' + bytes(32)), ('p2pk', b'\x03' + b'\x22' * 32),
               ('BLpk', bytes(48)), ('BLpk', b'\xff' * 48)],
    ('signature',): [bytes(64), b'\xff' * 64, bytes(96), b'\x01' + b'\x22' * 95],
    ('bls12_381_fr',): [0, 1, FR_MOD - 1, 2 ** 200 + 5],
    ('bls12_381_g1',): [bytes(96), b'\x17' + b'\x22' * 95],
    ('bls12_381_g2',): [bytes(192), b'\x13' + b'\x22' * 191],
    ('chest',): [b'', b'\x01\x02'],
    ('chest_key',): [b'', b'\xff'],
    ('tx_rollup_l2_address',): [('txr1', dg(0, 0)), ('txr1', dg(2, 0)), ('txr1', dg(0xff, 0xff))],
    LAM: LAMBDAS,
    LAM2: [lam([{'prim': 'DROP'}, {'prim': 'NIL', 'args': [{'prim': 'operation'}]}])],
    CONTRACT: [('KT1', dg(0, 0), ''), ('KT1', dg(1, 0), 'a'), ('tz1', dg(0, 5), ''), ('sr1', dg(3, 0), 'b')],
    SAPLING: [('sap', None), ('sap', 0), ('sap', 7)],
}
SMALL = {
    ('int',): [0, -1, 2 ** 4096], ('nat',): [0, 64], ('mutez',): [0, 1], ('timestamp',): [0, 253402300800, -1],
    ('string',): ['', 'a'], ('bytes',): [b'', b'\xff\x05'], ('bool',): [False, True], ('unit',): [()], ('never',): [],
    ('chain_id',): [bytes(4), b'\x7a\x06\xa7\x70'],
    ('key_hash',): [('tz1', dg(0, 5)), ('tz2', dg(9, 0)), ('tz3', dg(0xff, 0xff))],
    ('address',): [('tz1', dg(0, 5), ''), ('KT1', dg(1, 0), 'a'), ('sr1', dg(3, 0), '')],
    ('key',): [('edpk', bytes(32)), ('p2pk', b'\x03' + b'\x22' * 32)],
    ('signature',): [bytes(64), bytes(96)],
    ('bls12_381_fr',): [0, FR_MOD - 1], ('bls12_381_g1',): [bytes(96)], ('bls12_381_g2',): [b'\x13' + b'\x22' * 191],
    ('chest',): [b'\x01\x02'], ('chest_key',): [b''], ('tx_rollup_l2_address',): [('txr1', dg(2, 0))],
    LAM: LAMBDAS[:2], LAM2: FULL[LAM2], CONTRACT: FULL[CONTRACT][:2], SAPLING: [('sap', None), ('sap', 7)],
}
LEAVES = list(FULL)
CORE8 = [('int',), ('timestamp',), ('key_hash',), ('address',), ('string',), ('unit',), ('signature',), ('bls12_381_fr',)]
CORE3 = [('int',), ('timestamp',), ('key_hash',)]
LAZY = ('big_map', 'sapling_state')


def comparable(t):
    return t[0] in ('int', 'nat', 'string', 'bytes', 'bool', 'unit', 'mutez', 'timestamp', 'address', 'key_hash', 'key', 'signature',
                    'chain_id', 'never') or t[0] in ('pair', 'or', 'option') and all(comparable(a) for a in t[1:])


def has(t, prims):
    return t[0] in prims or any(has(a, prims) for a in t[1:] if isinstance(a, tuple))


def big_map_value_ok(t):
    return not has(t, ('big_map', 'sapling_state', 'operation'))


def texpr(t):
    if t[0] == 'sapling_state':
        return {'prim': 'sapling_state', 'args': [{'int': str(t[1])}]}
    e = {'prim': t[0]}
    if len(t) > 1:
        e['args'] = [texpr(a) for a in t[1:]]
    return e


def t_str(t):
    if len(t) == 1:
        return t[0]
    return '(' + ' '.join([t[0]] + [t_str(a) if isinstance(a, tuple) else str(a) for a in t[1:]]) + ')'


@lru_cache(maxsize=None)
def mk_type(t):
    from pytezos.michelson.types.base import MichelsonType
    return MichelsonType.match(texpr(t))


def pick(seq, n=3):
    seq = list(seq)
    if len(seq) <= n:
        return seq
    idx = sorted({round(i * (len(seq) - 1) / (n - 1)) for i in range(n)})
    return [seq[i] for i in idx]


def sort_key(t):
    """Reference order incl. the leaves mtypes.compare knows; only used for comparable key types."""
    return T.sort_key(t)


@lru_cache(maxsize=None)
def dom(t, top=True, ptr=False):
    """Values, simplest first.  ptr selects the id form of big_map / sapling_state leaves."""
    p = t[0]
    if t == SAPLING:
        return (('sap', 7),) if ptr else (('sap', None),)
    if t in FULL:
        return tuple(FULL[t] if top else SMALL[t])

    def sub(x):
        d = dom(x, False, ptr)
        return list(d) if x in FULL else pick(d, 3)
    if p == 'pair':
        return tuple((a, b) for a in sub(t[1]) for b in sub(t[2]))
    if p == 'option':
        return tuple([None] + [('Some', x) for x in sub(t[1])])
    if p == 'or':
        return tuple([('L', x) for x in sub(t[1])] + [('R', x) for x in sub(t[2])])
    if p == 'list':
        d = sub(t[1])
        out = [()]
        if d:
            out.append((d[0],))
        if len(d) > 1:
            out += [(d[1], d[0]), (d[-1], d[-1], d[0])]
        return tuple(out)
    if p == 'set':
        d = T.sorted_set(t[1], sub(t[1]))
        out = [()]
        if d:
            out.append((d[0],))
        if len(d) > 1:
            out += [(d[-1],), tuple(d[:2]), tuple(d)]
        return tuple(dict.fromkeys(out))
    if p in ('map', 'big_map'):
        if p == 'big_map' and ptr:
            return (('bmptr', 0), ('bmptr', 5))
        ks = T.sorted_set(t[1], sub(t[1]))
        vs = sub(t[2])
        out = [()]
        if ks and vs:
            out.append(((ks[0], vs[0]),))
            if len(ks) > 1:
                out += [((ks[-1], vs[-1]),), ((ks[0], vs[-1]), (ks[1], vs[0])), tuple((k, vs[i % len(vs)]) for i, k in enumerate(ks))]
        out = tuple(dict.fromkeys(out))
        return tuple(('bm', x) for x in out) if p == 'big_map' else out
    if p == 'ticket':
        d = sub(t[1])
        tk = [('KT1', dg(1, 0), ''), ('tz1', dg(0, 5), '')]
        return tuple(('ticket', tk[i % 2], c, (1, 2 ** 70)[i % 2]) for i, c in enumerate(d))
    if p == 'contract':
        return tuple(FULL[CONTRACT] if top else SMALL[CONTRACT])
    if p == 'lambda':
        return tuple(SMALL[LAM])
    raise ValueError(t)


def values(t):
    if has(t, LAZY):
        return [(v, False) for v in dom(t, True, False)] + [(v, True) for v in dom(t, True, True)]
    return [(v, False) for v in dom(t)]


# ------------------------------------------------------------------------------------------------ types
def comb(*ts):
    t = ts[-1]
    for a in reversed(ts[:-1]):
        t = ('pair', a, t)
    return t


def ctor(inner, leaves, with_combs=True):
    """every constructor with `x` (from inner) in each argument position and leaves elsewhere."""
    out = []
    for x in inner:
        out += [('option', x), ('list', x), ('contract', x)] if not has(x, ('operation',)) else []
        if comparable(x):
            out += [('set', x), ('ticket', x)]
        for b in leaves:
            out += [('pair', x, b), ('pair', b, x), ('or', x, b), ('or', b, x)]
            if comparable(b):
                out.append(('map', b, x))
                if big_map_value_ok(x):
                    out.append(('big_map', b, x))
            if comparable(x):
                out.append(('map', x, b))
                if big_map_value_ok(b):
                    out.append(('big_map', x, b))
            if with_combs:
                out += [comb(b, b, x), comb(b, b, b, x), comb(x, b, b, b, b)]
    return out


def combs():
    i, ts, kh, s, a = ('int',), ('timestamp',), ('key_hash',), ('string',), ('address',)
    rot = [i, ts, kh, s, a, ('signature',)]
    out = []
    for n in (2, 3, 4, 5, 6):
        out.append(comb(*[i] * n))
        for r in range(len(rot)):
            out.append(comb(*[rot[(r + k) % len(rot)] for k in range(n)]))
    out += [('pair', ('pair', i, ts), kh), comb(('pair', i, i), i, i, i), comb(i, i, i, ('list', ts)), comb(i, ('list', i), i, i),
            comb(i, i, i, ('big_map', i, ts)), comb(i, i, i, ('option', ('pair', i, i))), comb(i, i, i, ('ticket', i)), comb(i, i, i, LAM)]
    return out


def uniq(seq):
    return list(dict.fromkeys(seq))


@lru_cache(maxsize=None)
def universe(tier):
    lv = [t for t in LEAVES]
    d1 = uniq(ctor(lv, lv, with_combs=False) + combs() + [('lambda', a, b) for a in CORE3 for b in CORE3])
    d1c = uniq(ctor(CORE8, CORE8, with_combs=False) + combs()[:12])
    d2 = uniq(ctor(d1c, CORE8))
    out = lv + d1 + d2
    if tier == 'thorough':
        d2b = uniq(ctor(d1, CORE8[:4], with_combs=False) + [('pair', x, y) for x in d1c[:60] for y in d1c[:60]])
        d1s = uniq(ctor(CORE3, CORE3, with_combs=False) + [comb(('int',), ('timestamp',), ('key_hash',), ('int',))])
        d2s = uniq(ctor(d1s, CORE3[:2], with_combs=False))
        d3 = uniq(ctor(d2s, CORE3[:1], with_combs=False))
        out += d2b + d3
    return tuple(uniq(out))


NSHARDS = {'quick': 64, 'thorough': 256}


def shards(tier, seed):
    universe(tier)
    return [(i, NSHARDS[tier]) for i in range(NSHARDS[tier])]


# ------------------------------------------------------------------------------------------------ literals and reading
def lit(t, v):
    """Readable Micheline literal denoting reference value v of type t."""
    p = t[0]
    if p in ('int', 'nat', 'mutez', 'timestamp', 'bls12_381_fr'):
        return {'int': str(v)}
    if p == 'string':
        return {'string': v}
    if p in ('bytes', 'bls12_381_g1', 'bls12_381_g2', 'chest', 'chest_key'):
        return {'bytes': v.hex()}
    if p == 'bool':
        return {'prim': 'True' if v else 'False'}
    if p == 'unit':
        return {'prim': 'Unit'}
    if p == 'pair':
        return {'prim': 'Pair', 'args': [lit(t[1], v[0]), lit(t[2], v[1])]}
    if p == 'option':
        return {'prim': 'None'} if v is None else {'prim': 'Some', 'args': [lit(t[1], v[1])]}
    if p == 'or':
        return {'prim': 'Left' if v[0] == 'L' else 'Right', 'args': [lit(t[1] if v[0] == 'L' else t[2], v[1])]}
    if p in ('list', 'set'):
        return [lit(t[1], x) for x in v]
    if p == 'map':
        return [{'prim': 'Elt', 'args': [lit(t[1], k), lit(t[2], x)]} for k, x in v]
    if p == 'big_map':
        if v[0] == 'bmptr':
            return {'int': str(v[1])}
        return [{'prim': 'Elt', 'args': [lit(t[1], k), lit(t[2], x)]} for k, x in v[1]]
    if p == 'sapling_state':
        return [] if v[1] is None else {'int': str(v[1])}
    if p in ('address', 'contract'):
        return {'string': T.address_str(v)}
    if p == 'tx_rollup_l2_address':
        return {'string': b58.enc('txr1', v[1])}
    if p == 'key_hash':
        return {'string': T.key_hash_str(v)}
    if p == 'key':
        return {'string': T.key_str(v)}
    if p == 'signature':
        return {'string': T.sig_str(v)}
    if p == 'chain_id':
        return {'string': T.chain_id_str(v)}
    if p == 'lambda':
        return json.loads(v[1])
    if p == 'ticket':
        return {'prim': 'Pair', 'args': [{'string': T.address_str(v[1])}, lit(t[1], v[2]), {'int': str(v[3])}]}
    raise ValueError(t)


def read(obj, t):
    """Structural reading of an implementation value (no to_micheline_value involved)."""
    from pytezos.michelson.types.base import MichelsonType
    if not isinstance(obj, MichelsonType):
        raise A.AdapterError(f'not a Michelson value: {obj!r}')
    p = t[0]
    if obj.prim != p:
        raise A.AdapterError(f'value of class {obj.prim} where {p} expected')
    if p == 'pair':
        if len(obj.items) != 2:
            raise A.AdapterError('pair arity')
        return (read(obj.items[0], t[1]), read(obj.items[1], t[2]))
    if p == 'option':
        return None if obj.item is None else ('Some', read(obj.item, t[1]))
    if p == 'or':
        l, r = obj.is_left(), obj.is_right()
        if l == r:
            raise A.AdapterError('or value is neither/both')
        return ('L', read(obj.items[0], t[1])) if l else ('R', read(obj.items[1], t[2]))
    if p in ('list', 'set'):
        return tuple(read(x, t[1]) for x in obj.items)
    if p == 'map':
        return tuple((read(k, t[1]), read(x, t[2])) for k, x in obj.items)
    if p == 'big_map':
        if obj.ptr is not None:
            if obj.items or obj.removed_keys:
                raise A.AdapterError('big_map with both an id and a literal diff')
            return ('bmptr', obj.ptr)
        return ('bm', tuple((read(k, t[1]), read(x, t[2])) for k, x in obj.items))
    if p == 'sapling_state':
        return ('sap', obj.ptr)
    if p == 'contract':
        return T.parse_address(obj.value)
    if p == 'tx_rollup_l2_address':
        return ('txr1', b58.dec('txr1', obj.value.split('%')[0]))
    if p == 'bls12_381_fr':
        if not isinstance(obj.value, int):
            raise A.AdapterError('fr holds ' + type(obj.value).__name__)
        return obj.value
    if p in ('bls12_381_g1', 'bls12_381_g2', 'chest', 'chest_key'):
        return bytes(obj.value)
    if p == 'ticket':
        return ('ticket', T.parse_address(obj.ticketer), read(obj.item, t[1]), obj.amount)
    return A.from_impl(obj, t)


def components(t, v):
    p = t[0]
    if p == 'pair':
        return [(t[1], v[0]), (t[2], v[1])]
    if p == 'option':
        return [] if v is None else [(t[1], v[1])]
    if p == 'or':
        return [(t[1] if v[0] == 'L' else t[2], v[1])]
    if p in ('list', 'set'):
        return [(t[1], x) for x in v]
    if p == 'map':
        return [(t[i + 1], kv[i]) for kv in v for i in (0, 1)]
    if p == 'big_map' and v[0] == 'bm':
        return [(t[i + 1], kv[i]) for kv in v[1] for i in (0, 1)]
    if p == 'ticket':
        return [(t[1], v[2])]
    return []


def leaf_class(t, v):
    p = t[0]
    if p == 'timestamp':
        return 'timestamp within years 1000-9999' if -30610224000 <= v <= 253402300799 else 'timestamp outside years 1000-9999'
    if p == 'key_hash':
        if v[0] == 'tz1' and v[1][0] <= 3:
            return 'key_hash tz1 whose digest starts 00..03'
        if v[0] != 'tz1' and v[1][-1] == 0:
            return 'key_hash tz2/tz3/tz4 whose digest ends 00'
        return 'key_hash'
    if p in ('address', 'contract'):
        return f'{p} {v[0]}' + (' with entrypoint' if v[2] else '')
    if p == 'key':
        return f'key {v[0]}'
    if p == 'signature':
        return f'signature of {len(v)} bytes'
    if p in ('int', 'nat') and abs(v) >= 2 ** 64:
        return f'{p} beyond 64 bits'
    if p == 'pair':
        n, x = 1, t
        while x[0] == 'pair':
            n, x = n + 1, x[2]
        return f'pair (comb of {n})'
    if p == 'big_map':
        if v[0] == 'bm' and has(t[1], ('unit',)):
            return 'set / map / big_map whose key type holds unit'
        return 'big_map id' if v[0] == 'bmptr' else 'big_map literal'
    if p == 'sapling_state':
        return 'sapling_state id' if v[1] is not None else 'sapling_state literal'
    if p in ('set', 'map') and has(t[1], ('unit',)):
        return 'set / map / big_map whose key type holds unit'
    return p


def blame(t, v, lazy, fails):
    for st, sv in components(t, v):
        try:
            bad = fails(st, sv, lazy)
        except Exception:
            bad = False
        if bad:
            return blame(st, sv, lazy, fails)
    return leaf_class(t, v)


# ------------------------------------------------------------------------------------------------ the check
def canon_default(t, v):
    """An address spelled with an explicit %default entrypoint is the same value as the bare address."""
    p = t[0]
    if p in ('address', 'contract') and isinstance(v, tuple) and len(v) == 3 and v[2] == 'default':
        return (v[0], v[1], '')
    if p == 'pair':
        return (canon_default(t[1], v[0]), canon_default(t[2], v[1]))
    if p == 'option':
        return None if v is None else ('Some', canon_default(t[1], v[1]))
    if p == 'or':
        return (v[0], canon_default(t[1] if v[0] == 'L' else t[2], v[1]))
    if p in ('list', 'set') and isinstance(v, tuple):
        return tuple(canon_default(t[1], x) for x in v)
    if p == 'map' and isinstance(v, tuple):
        return tuple((canon_default(t[1], k), canon_default(t[2], x)) for k, x in v)
    return v


def trip(t, v, lazy):
    """-> {'build': ..., mode: ('ok', rendering) | (problem, detail, rendering?)}"""
    cls = mk_type(t)
    out = {}
    spelled = v
    v = canon_default(t, v)
    try:
        obj = cls.from_micheline_value(lit(t, spelled))
        got = read(obj, t)
    except Exception as e:
        out['build'] = ('literal rejected', f'{type(e).__name__}: {e}'[:200])
        return out
    if got != v:
        out['build'] = ('literal parsed to a different value', f'{got!r}'[:300])
        return out
    out['build'] = ('ok',)
    kw = {'lazy_diff': True} if has(t, LAZY) and not lazy else {}
    for mode in MODES:
        try:
            m = obj.to_micheline_value(mode=mode, **kw)
        except Exception as e:
            out[mode] = ('rendering raises', f'{type(e).__name__}: {e}'[:200], None)
            continue
        try:
            back_obj = cls.from_micheline_value(m)
            back = read(back_obj, t)
        except Exception as e:
            out[mode] = ('own rendering cannot be parsed back', f'{type(e).__name__}: {e}'[:200], m)
            continue
        if back != v:
            out[mode] = ('parses back to a different value', f'{back!r}'[:300], m)
        elif T.comparable(t) and not (back_obj == obj):
            # the statement says "an equal value": for comparable types the library's own equality (what COMPARE uses) must agree
            out[mode] = ('parses back to a value that the library itself does not consider equal (==)', f'{back_obj!r} vs {obj!r}'[:300], m)
        else:
            out[mode] = ('ok', None, m)
    return out


_TRIP = {}


def _trip_memo(t, v, lazy):
    """blame() asks about the same small sub-values over and over: remember which steps failed for them."""
    k = (t, v, lazy)
    if k not in _TRIP:
        if len(_TRIP) > 200000:
            _TRIP.clear()
        o = trip(t, v, lazy)
        _TRIP[k] = {m: (o[m][0] != 'ok' if m in o else True) for m in ('build',) + MODES}
    return _TRIP[k]


def fails_mode(mode):
    def f(t, v, lazy):
        o = _trip_memo(t, v, lazy)
        return o['build'] or o[mode]
    return f


def fails_build(t, v, lazy):
    return _trip_memo(t, v, lazy)['build']


def case_of(t, v, lazy):
    return {'type': texpr(t), 'literal': lit(t, v), 'ids': lazy, 't': _enc(t), 'v': _enc(v)}


def _enc(x):
    """tuples -> tagged lists so that a case survives JSON (bytes / big ints are handled by the runner)."""
    if isinstance(x, tuple):
        return {'tuple': [_enc(i) for i in x]}
    if isinstance(x, bytes):
        return {'hex': x.hex()}
    if isinstance(x, int) and not isinstance(x, bool) and abs(x) >= 2 ** 63:
        return {'int': str(x)}
    return x


def _dec(x):
    if isinstance(x, dict) and set(x) == {'tuple'}:
        return tuple(_dec(i) for i in x['tuple'])
    if isinstance(x, dict) and set(x) == {'hex'}:
        return bytes.fromhex(x['hex'])
    if isinstance(x, dict) and set(x) == {'int'}:
        return int(x['int'])
    return x


def differs(t, v):
    try:
        return T.v_to_micheline(t, v, 'readable') != T.v_to_micheline(t, v, 'optimized')
    except Exception:
        return True


def check_value(t, v, lazy, r: Result):
    ts = t_str(t)
    o = trip(t, v, lazy)
    r.ev()
    if has(t, ('big_map', 'ticket', 'lambda', 'timestamp', 'bls12_381_fr', 'sapling_state')) or differs(t, v):
        r.nt((ts, repr(v), lazy))
    if o['build'][0] != 'ok':
        r.out('build|' + o['build'][0])
        r.viol(f'{o["build"][0]}: {blame(t, v, lazy, fails_build)}', case_of(t, v, lazy),
               f'{ts}.from_micheline_value({json.dumps(lit(t, v))[:400]}) -> {o["build"][1]}')
        return
    r.out('build|ok')
    bad = []
    for mode in MODES:
        r.ev()
        res = o[mode]
        shape = 'seq' if isinstance(res[2], list) else next(iter(res[2])) if isinstance(res[2], dict) and 'prim' not in res[2] else 'prim' if res[2] is not None else '-'
        r.out(f'{mode}|{res[0]}|{shape}')
        if res[0] != 'ok':
            bad.append((mode, res[0], blame(t, v, lazy, fails_mode(mode)),
                        f'{ts} value {json.dumps(lit(t, v))[:300]}: to_micheline_value({mode}) = {json.dumps(res[2])[:300] if res[2] is not None else "-"} -> {res[1]}'))
    opt = [b for b in bad if b[0] != 'readable']
    if len(opt) == 2 and opt[0][1:3] == opt[1][1:3]:  # both optimized modes fail the same way: one finding
        bad = [b for b in bad if b[0] == 'readable'] + [('optimized and legacy_optimized',) + opt[0][1:]]
    for mode, what, who, detail in bad:
        r.viol(f'{mode}: {what}: {who}', case_of(t, v, lazy), detail)
    if t == ('timestamp',) and o['readable'][0] == 'ok':
        r.ev()
        m = o['readable'][2]
        ok, how = False, 'neither int nor string'
        if isinstance(m, dict) and set(m) == {'int'}:
            ok, how = int(m['int']) == v, 'int'
        elif isinstance(m, dict) and set(m) == {'string'}:
            try:
                ok, how = rfc3339.to_unix(m['string']) == v, 'rfc3339 string'
            except ValueError:
                ok, how = False, 'unparseable string'
        r.out(f'timestamp readable form|{how}|{"same second" if ok else "WRONG"}')
        if not ok:
            r.viol(f'readable rendering of a timestamp is not an int nor an RFC 3339 string for the same second: {leaf_class(t, v)}',
                   case_of(t, v, lazy), f'timestamp {v} renders as {m}')


def run_type(t, r: Result):
    last = None
    for v, lazy in values(t):
        check_value(t, v, lazy, r)
        last = (t, v, lazy)
    return last


def run_shard(spec, tier):
    i, n = spec
    r = Result()
    U = universe(tier)
    first = last = None
    for k in range(i, len(U), n):
        c = run_type(U[k], r)
        if c is not None:
            if first is None:
                first = c
                r.sample(case_of(*c))
            last = c
    if last is not None:
        r.sample(case_of(*last))
    return r


def replay(case):
    t, v = _dec(case['t']), _dec(case['v'])
    r = Result()
    check_value(t, v, case['ids'], r)
    return [(d, x['cases'][0]['detail']) for d, x in r.violations.items()]


def observe(case):
    t, v = _dec(case['t']), _dec(case['v'])
    o = trip(t, v, case['ids'])
    return {k: list(x[:2]) + ([x[2]] if len(x) > 2 else []) for k, x in o.items()}
