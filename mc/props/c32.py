"""C32 — view definitions are accepted exactly when Tezos accepts them.

Small-scope exhaustive enumeration of programs: every view name of a structured name universe x a few codes, and
every code tree up to a size bound over an instruction alphabet that places SELF / TRANSFER_TOKENS /
CREATE_CONTRACT / SET_DELEGATE at every depth under ordinary blocks (DIP, IF, ITER, ...) and under the three kinds of
lambda body (LAMBDA, LAMBDA_REC, pushed lambda literal).  Each `view "name" unit unit { code }` goes through the real
`ViewSection.match`; the oracle is the statement's predicate, verbatim.  "Anywhere" / "outside a lambda" are structural:
a further alphabet adds the terminal instructions FAILWITH and NEVER as ordinary leaves, so restricted instructions also
occur AFTER an instruction that ends the block (unreachable code), at every depth; such views must still be rejected.

What `ViewSection.match` does (read from the code): `Micheline.match` builds a class per node (purely structural: a
primitive must be registered with that number of args, type constructors assert a few shape rules, NO type checking
of code), then `ViewSection.create_type` checks the name and walks the code with `check_code`.  So a generated view
can be rejected for reasons that have nothing to do with views only if a primitive is not representable at all; such
cases are detected with a stand-alone `Micheline.match(code)` and get no verdict.
"""
from __future__ import annotations

from functools import lru_cache

from mc.engine.report import Result

ID = 'C32'
LEVEL = 'exploration'
RULE = ('cases = (view name, code tree, input form); code trees: every instruction sequence with <=N instruction nodes '
        'over the alphabet (leaves incl. the 4 restricted instructions and near-misses; one-block wrappers incl. LAMBDA, '
        'LAMBDA_REC, PUSH of a lambda literal (bare / inside list, pair, option, map); two-block wrappers; a "terminal" '
        'alphabet with FAILWITH and NEVER as leaves so that restricted instructions follow a block-ending instruction); names: all '
        'strings <=2 (T:<=3) over a 12-character alphabet, for every length 0..40 a valid name and the same name with one '
        'forbidden character at every position, every 7-bit character alone and embedded, a few non-ASCII letters/digits. '
        'Non-trivial = the view contains a restricted instruction or its name is invalid or at the length boundary '
        '(>=31); distinct by (name, code, form)')
BOUND = {
    'quick': 'code trees: core alphabet (5 leaves, 5+1 wrappers) size<=4, wide alphabet (10 leaves, 13+4 wrappers) size<=3; '
             'Lambda_rec alphabet size<=3; terminal alphabet (6 leaves incl. FAILWITH, NEVER; 3+1 wrappers) size<=4; all names x 5 codes; 6 names x all core trees size<=2; text form for wide and terminal trees size<=2',
    'thorough': 'code trees: core alphabet size<=5, wide alphabet size<=3, middle alphabet (6 leaves, 7+1 wrappers incl. nested '
                'pushed lambdas) size<=4; terminal alphabet size<=5; names <=3 over 12 chars and the rest x 8 codes; 6 names x all core trees size<=3; '
                'text form for wide and terminal trees size<=2',
}
ASSUMPTIONS = [
    '"letters, digits" in the statement are the ASCII ones (Tezos: a-z A-Z 0-9 _ . % @); non-ASCII letters are forbidden',
    'name length is counted in characters; it differs from Tezos\' byte count only for names that are rejected anyway',
    'SELF inside the script of a CREATE_CONTRACT that is itself inside a lambda body belongs to another contract: no verdict',
    'code that pytezos cannot represent at all outside a view (the Lambda_rec data primitive is not registered) gets no '
    'verdict: that rejection is not a view-acceptance decision',
    'param/return types are unit; code is structurally well-formed but not type-correct (match does not type-check)',
]
LEVEL_TEXT = ('exhaustive over all code trees up to the size bound and the whole name universe: decides the acceptance rule '
              'for every placement of a restricted instruction up to that nesting depth; deeper nestings and other '
              'instructions are outside the bound')

ALLOWED = set('abcdefghijklmnopqrstuvwxyzABCDEFGHIJKLMNOPQRSTUVWXYZ0123456789_.%@')
U = {'prim': 'unit'}
LAM_T = {'prim': 'lambda', 'args': [U, U]}
NAT = {'prim': 'nat'}


def _script(code):
    return [{'prim': 'parameter', 'args': [U]}, {'prim': 'storage', 'args': [U]}, {'prim': 'code', 'args': [code]}]


_TRIVIAL = [{'prim': 'CDR'}, {'prim': 'NIL', 'args': [{'prim': 'operation'}]}, {'prim': 'PAIR'}]

# head -> (micheline builder, text builder).  Leaves take no body, wrappers take rendered bodies.
LEAVES = {
    'DROP': ({'prim': 'DROP'}, 'DROP'),
    'SELF': ({'prim': 'SELF'}, 'SELF'),
    'TT': ({'prim': 'TRANSFER_TOKENS'}, 'TRANSFER_TOKENS'),
    'SD': ({'prim': 'SET_DELEGATE'}, 'SET_DELEGATE'),
    'CC': ({'prim': 'CREATE_CONTRACT', 'args': [_script(_TRIVIAL)]},
           'CREATE_CONTRACT { parameter unit ; storage unit ; code { CDR ; NIL operation ; PAIR } }'),
    'SELF_ADDRESS': ({'prim': 'SELF_ADDRESS'}, 'SELF_ADDRESS'),
    'SELF%': ({'prim': 'SELF', 'annots': ['%foo']}, 'SELF %foo'),
    'PUSHSTR': ({'prim': 'PUSH', 'args': [{'prim': 'string'}, {'string': 'SELF'}]}, 'PUSH string "SELF"'),
    'CONTRACT': ({'prim': 'CONTRACT', 'args': [U]}, 'CONTRACT unit'),
    'FAILWITH': ({'prim': 'FAILWITH'}, 'FAILWITH'),
    'NEVER': ({'prim': 'NEVER'}, 'NEVER'),
    'CC_SELF': ({'prim': 'CREATE_CONTRACT', 'args': [_script([{'prim': 'SELF'}, {'prim': 'DROP'}] + _TRIVIAL)]},
                'CREATE_CONTRACT { parameter unit ; storage unit ; code { SELF ; DROP ; CDR ; NIL operation ; PAIR } }'),
}
UNARY = {
    'DIP': (lambda b: {'prim': 'DIP', 'args': [b]}, 'DIP {0}'),
    'ITER': (lambda b: {'prim': 'ITER', 'args': [b]}, 'ITER {0}'),
    'LOOP': (lambda b: {'prim': 'LOOP', 'args': [b]}, 'LOOP {0}'),
    'MAP': (lambda b: {'prim': 'MAP', 'args': [b]}, 'MAP {0}'),
    'LOOP_LEFT': (lambda b: {'prim': 'LOOP_LEFT', 'args': [b]}, 'LOOP_LEFT {0}'),
    'DIPN': (lambda b: {'prim': 'DIP', 'args': [{'int': '2'}, b]}, 'DIP 2 {0}'),
    'LAMBDA': (lambda b: {'prim': 'LAMBDA', 'args': [U, U, b]}, 'LAMBDA unit unit {0}'),
    'LAMBDA_REC': (lambda b: {'prim': 'LAMBDA_REC', 'args': [U, U, b]}, 'LAMBDA_REC unit unit {0}'),
    'PUSH': (lambda b: {'prim': 'PUSH', 'args': [LAM_T, b]}, 'PUSH (lambda unit unit) {0}'),
    'PUSH_LIST': (lambda b: {'prim': 'PUSH', 'args': [{'prim': 'list', 'args': [LAM_T]}, [b]]},
                  'PUSH (list (lambda unit unit)) {{ {0} }}'),
    'PUSH_PAIR': (lambda b: {'prim': 'PUSH', 'args': [{'prim': 'pair', 'args': [NAT, LAM_T]},
                                                      {'prim': 'Pair', 'args': [{'int': '1'}, b]}]},
                  'PUSH (pair nat (lambda unit unit)) (Pair 1 {0})'),
    'PUSH_SOME': (lambda b: {'prim': 'PUSH', 'args': [{'prim': 'option', 'args': [LAM_T]}, {'prim': 'Some', 'args': [b]}]},
                  'PUSH (option (lambda unit unit)) (Some {0})'),
    'PUSH_MAP': (lambda b: {'prim': 'PUSH', 'args': [{'prim': 'map', 'args': [NAT, LAM_T]},
                                                     [{'prim': 'Elt', 'args': [{'int': '1'}, b]}]]},
                 'PUSH (map nat (lambda unit unit)) {{ Elt 1 {0} }}'),
    'PUSH_REC': (lambda b: {'prim': 'PUSH', 'args': [LAM_T, {'prim': 'Lambda_rec', 'args': [b]}]},
                 'PUSH (lambda unit unit) (Lambda_rec {0})'),
}
BINARY = {
    'IF': (lambda a, b: {'prim': 'IF', 'args': [a, b]}, 'IF {0} {1}'),
    'IF_NONE': (lambda a, b: {'prim': 'IF_NONE', 'args': [a, b]}, 'IF_NONE {0} {1}'),
    'IF_LEFT': (lambda a, b: {'prim': 'IF_LEFT', 'args': [a, b]}, 'IF_LEFT {0} {1}'),
    'IF_CONS': (lambda a, b: {'prim': 'IF_CONS', 'args': [a, b]}, 'IF_CONS {0} {1}'),
}
SELF_HEADS = ('SELF', 'SELF%')
OP_HEADS = ('TT', 'SD', 'CC', 'CC_SELF')
TERMINAL_HEADS = ('FAILWITH', 'NEVER')
DEAD = ' (only after FAILWITH/NEVER in an enclosing block: unreachable code)'
LAMBDA_KIND = {'LAMBDA': 'LAMBDA', 'LAMBDA_REC': 'LAMBDA_REC', 'PUSH': 'PUSH', 'PUSH_REC': 'PUSH',
               'PUSH_LIST': 'PUSHNEST', 'PUSH_PAIR': 'PUSHNEST', 'PUSH_SOME': 'PUSHNEST', 'PUSH_MAP': 'PUSHNEST'}
KIND_TEXT = {'LAMBDA': 'a LAMBDA body', 'LAMBDA_REC': 'a LAMBDA_REC body', 'PUSH': 'a pushed lambda literal',
             'PUSHNEST': 'a lambda literal nested in pushed data (list/pair/option/map)'}

ALPHABETS = {
    'core': (('DROP', 'SELF', 'TT', 'SD', 'CC'), ('DIP', 'ITER', 'LAMBDA', 'LAMBDA_REC', 'PUSH'), ('IF',)),
    'wide': (('DROP', 'SELF', 'TT', 'SD', 'CC', 'SELF_ADDRESS', 'SELF%', 'PUSHSTR', 'CONTRACT', 'CC_SELF'),
             ('DIP', 'ITER', 'LAMBDA', 'LAMBDA_REC', 'PUSH', 'LOOP', 'MAP', 'LOOP_LEFT', 'DIPN', 'PUSH_LIST', 'PUSH_PAIR',
              'PUSH_SOME', 'PUSH_MAP'),
             ('IF', 'IF_NONE', 'IF_LEFT', 'IF_CONS')),
    'mid': (('DROP', 'SELF', 'TT', 'CC', 'SELF_ADDRESS', 'CC_SELF'),
            ('DIP', 'LAMBDA', 'LAMBDA_REC', 'PUSH', 'PUSH_LIST', 'PUSH_PAIR', 'PUSH_MAP'), ('IF_NONE',)),
    'rec': (('DROP', 'TT', 'SELF'), ('DIP', 'LAMBDA', 'PUSH_REC'), ()),
    'term': (('DROP', 'FAILWITH', 'NEVER', 'SELF', 'TT', 'SD'), ('DIP', 'LAMBDA', 'PUSH'), ('IF',)),
}


# --- trees ---------------------------------------------------------------------------------------------------------
# instr = (head, body...) ; body = tuple of instr
def to_micheline(seq):
    out = []
    for ins in seq:
        h = ins[0]
        if h in LEAVES:
            out.append(LEAVES[h][0])
        elif h in UNARY:
            out.append(UNARY[h][0](to_micheline(ins[1])))
        else:
            out.append(BINARY[h][0](to_micheline(ins[1]), to_micheline(ins[2])))
    return out


def to_text(seq):
    parts = []
    for ins in seq:
        h = ins[0]
        if h in LEAVES:
            parts.append(LEAVES[h][1])
        elif h in UNARY:
            parts.append(UNARY[h][1].format(to_text(ins[1])))
        else:
            parts.append(BINARY[h][1].format(to_text(ins[1]), to_text(ins[2])))
    return '{ ' + ' ; '.join(parts) + ' }' if parts else '{}'


def as_tuple(x):
    """JSON lists -> the tuple form."""
    return tuple((i[0],) + tuple(as_tuple(b) for b in i[1:]) for i in x)


MEMO_MAX = 3


def seqs(alpha, n):
    """All instruction sequences with exactly n instruction nodes, simplest first (streams above MEMO_MAX)."""
    if n <= MEMO_MAX:
        return _seqs_memo(alpha, n)
    return _seqs_gen(alpha, n)


@lru_cache(maxsize=None)
def _seqs_memo(alpha, n):
    return tuple(_seqs_gen(alpha, n))


def _seqs_gen(alpha, n):
    if n == 0:
        yield ()
        return
    for k in range(1, n + 1):
        for first in instrs(alpha, k):
            for rest in seqs(alpha, n - k):
                yield (first,) + rest


def instrs(alpha, k, heads=None):
    leaves, unary, binary = ALPHABETS[alpha]
    if k == 1:
        for h in leaves:
            if heads is None or h in heads:
                yield (h,)
    for h in unary:
        if heads is None or h in heads:
            for b in seqs(alpha, k - 1):
                yield (h, b)
    for h in binary:
        if heads is None or h in heads:
            for i in range(k):
                for a in seqs(alpha, i):
                    for b in seqs(alpha, k - 1 - i):
                        yield (h, a, b)


def trees_with_head(alpha, n, head, k):
    """Sequences of n nodes whose first instruction has the given head and k nodes."""
    for first in instrs(alpha, k, heads=(head,)):
        for rest in seqs(alpha, n - k):
            yield (first,) + rest


def walk(seq, path=(), chain=()):
    """Yield (path, head, chain of enclosing lambda kinds outermost first) for every instruction node."""
    for i, ins in enumerate(seq):
        p = path + (i,)
        yield p, ins[0], chain
        sub = chain + ((LAMBDA_KIND[ins[0]],) if ins[0] in LAMBDA_KIND else ())
        for bi, b in enumerate(ins[1:]):
            yield from walk(b, p + (bi,), sub)


def walk_dead(seq, chain=(), dead=False):
    """Yield (head, lambda chain, dead?) - dead = an earlier instruction of this or an enclosing block is terminal."""
    for ins in seq:
        yield ins[0], chain, dead
        sub = chain + ((LAMBDA_KIND[ins[0]],) if ins[0] in LAMBDA_KIND else ())
        for b in ins[1:]:
            yield from walk_dead(b, sub, dead)
        if ins[0] in TERMINAL_HEADS:
            dead = True


def map_heads(seq, f, path=()):
    out = []
    for i, ins in enumerate(seq):
        p = path + (i,)
        out.append((f(p, ins[0]),) + tuple(map_heads(b, f, p + (bi,)) for bi, b in enumerate(ins[1:])))
    return tuple(out)


# --- oracle: the statement, verbatim ---------------------------------------------------------------------------------
def name_verdict(name):
    if len(name) > 31:
        return 'name longer than 31'
    bad = [c for c in name if c not in ALLOWED]
    if bad:
        return 'name with non-ASCII character' if any(ord(c) > 127 for c in bad) else 'name with forbidden ASCII character'
    return None


def code_verdict(tree):
    """-> (reason to reject or None, undecided?, kinds protecting restricted instructions)."""
    undecided, kinds, found = False, set(), set()
    for h, chain, dead in walk_dead(tree):
        if h in SELF_HEADS:
            found.add(('SELF', dead))
        elif h in OP_HEADS:
            if not chain:
                found.add(('OP', dead))
            else:
                kinds.update(chain)
                if h == 'CC_SELF':
                    undecided = True
    reason = None
    for key, text in ((('SELF', False), 'SELF'), (('OP', False), 'restricted instruction outside a lambda body'),
                      (('SELF', True), 'SELF' + DEAD), (('OP', True), 'restricted instruction outside a lambda body' + DEAD)):
        if key in found:
            reason = text
            break
    return reason, undecided, kinds


def expected(name, tree):
    """-> ('reject', reason) | ('accept', label) | ('undecided', why)."""
    creason, undecided, kinds = code_verdict(tree)
    nreason = name_verdict(name)
    if creason:
        return 'reject', creason
    if nreason:
        return 'reject', nreason
    if undecided:
        return 'undecided', 'SELF only inside the script of a CREATE_CONTRACT within a lambda body'
    if kinds:
        return 'accept', 'restricted instructions only inside lambda bodies (' + '+'.join(sorted(kinds)) + ')'
    return 'accept', 'no restricted instruction'


# --- implementation ----------------------------------------------------------------------------------------------------
def view_expr(name, tree, form='micheline'):
    code = to_micheline(tree)
    if form == 'text':
        from pytezos.michelson.parse import michelson_to_micheline
        text = f'view "{name}" unit unit {to_text(tree)}'
        expr = michelson_to_micheline(text)
        want = {'prim': 'view', 'args': [{'string': name}, U, U, code]}
        if expr != want:
            raise RuntimeError(f'harness: parser output differs from the generated Micheline for {text!r}: {expr!r}')
        return expr
    return {'prim': 'view', 'args': [{'string': name}, U, U, code]}


def run_impl(name, tree, form='micheline'):
    """-> ('accepted', '') | ('rejected', message) | ('broken', what)."""
    from pytezos.michelson.sections.view import ViewSection
    expr = view_expr(name, tree, form)
    try:
        cls = ViewSection.match(expr)
    except Exception as e:  # noqa
        return 'rejected', f'{type(e).__name__}: {e.args[-1] if e.args else ""}'
    if not (isinstance(cls, type) and issubclass(cls, ViewSection)) or getattr(cls, 'name', None) != name:
        return 'broken', f'match returned {cls!r} name={getattr(cls, "name", None)!r}'
    return 'accepted', ''


def representable(tree):
    from pytezos.michelson.micheline import Micheline
    try:
        Micheline.match(to_micheline(tree))
        return True
    except Exception:  # noqa
        return False


def blame(name, tree, form):
    """A well-formed view was rejected although the statement accepts it: find the smallest explanation."""
    restricted = [(p, h, c) for p, h, c in walk(tree) if h in OP_HEADS]
    for path, head, chain in restricted:
        only = map_heads(tree, lambda p, h: 'DROP' if (h in OP_HEADS and p != path) else h)
        if run_impl(name, only, form)[0] != 'rejected':
            continue
        kinds = list(dict.fromkeys(chain))
        anc = {path[:j] for j in range(1, len(path), 2)}
        for k in kinds:
            def f(p, h, k=k):
                if h in OP_HEADS and p != path:
                    return 'DROP'
                if p in anc and h in LAMBDA_KIND and LAMBDA_KIND[h] != k:
                    return 'DIP'
                return h
            if run_impl(name, map_heads(tree, f), form)[0] == 'rejected':
                return f'restricted instruction inside {KIND_TEXT[k]} rejected'
        return 'restricted instruction inside nested lambda bodies (' + '+'.join(sorted(set(chain))) + ') rejected'
    return 'view without any reason for rejection rejected'


def check(case):
    """-> (outcome label, descriptor or None, detail, no_verdict?)."""
    name, tree, form = case['name'], as_tuple(case['code']), case.get('form', 'micheline')
    exp, why = expected(name, tree)
    got, msg = run_impl(name, tree, form)
    if got == 'broken':
        return f'{exp}: {why} / BROKEN', 'match returned something that is not the view', msg, False
    if exp == 'undecided':
        return f'not judged: {why} / {got}', None, '', True
    if exp == 'reject':
        if got == 'rejected':
            own = 'not allowed in views' in msg or 'name' in msg
            return f'reject: {why} / rejected' + ('' if own else ' (by an unrelated error)'), None, '', False
        return f'reject: {why} / ACCEPTED', f'view accepted: {why}', f'name={name!r} code={to_text(tree)}', False
    # statement accepts
    if got == 'accepted':
        return f'accept: {why} / accepted', None, '', False
    if not representable(tree):
        return f'not judged: code not representable in pytezos outside a view / rejected', None, '', True
    if 'not allowed in views' in msg:
        d = blame(name, tree, form)
    elif 'name' in msg:
        d = 'valid view name rejected'
    else:
        d = 'well-formed view rejected by an unrelated error'
    return f'accept: {why} / REJECTED', d, f'name={name!r} code={to_text(tree)} error={msg}', False


# --- name universe ----------------------------------------------------------------------------------------------------
NAME_CHARS = ['a', 'Z', '0', '_', '.', '%', '@', '-', ' ', '!', '/', '\u00e9']
FORBIDDEN = ['-', ' ', '!', '/', '\u00e9']
VALID_POOL = 'abcdefghijklmnopqrstuvwxyzABCDEFGHIJKLMNOPQRSTUVWXYZ0123456789_.%@'


def names(tier):
    import itertools
    seen, out = set(), []

    def add(n):
        if n not in seen:
            seen.add(n)
            out.append(n)

    for ln in range(0, (3 if tier == 'thorough' else 2) + 1):
        for t in itertools.product(NAME_CHARS, repeat=ln):
            add(''.join(t))
    for ln in range(0, 41):
        valid = (VALID_POOL * 2)[ln % 7:][:ln]
        add(valid)
        for pos in range(ln):
            for c in FORBIDDEN:
                add(valid[:pos] + c + valid[pos + 1:])
    for chunk in range(0, len(VALID_POOL), 31):
        add(VALID_POOL[chunk:chunk + 31])
    for o in range(128):
        add(chr(o))
        add('a' + chr(o) + 'b')
    # non-ASCII letters / digits that str.isalpha / isalnum / isdigit would let through, and a trailing newline
    for s in ['\u0430', '\u00aa', '\u00b2', '\uff11', '\u0661', 'abc\n', '\nabc', 'a\u200bb', '\u00e9' * 31,
              'a' * 30 + '\u00e9', 'a' * 31 + '\n', '_' * 31, '_' * 32, '%' * 31, '@.%_', 'a' * 64, 'a' * 1000]:
        add(s)
    return out


NAME_CODES = {
    'quick': [(), (('DROP',),), (('SELF',),), (('TT',),), (('LAMBDA', (('TT',),)),)],
    'thorough': [(), (('DROP',),), (('SELF',),), (('TT',),), (('LAMBDA', (('TT',),)),), (('SD',),), (('CC',),),
                 (('DIP', (('LAMBDA', (('SD',),)),)),)],
}
TREE_NAMES = ['v', '', 'a' * 31, 'a' * 32, 'a-b', '%entry_Point.0@']


def text_safe(name):
    return all(32 <= ord(c) < 127 and c not in '"\\' for c in name)


# --- shards ----------------------------------------------------------------------------------------------------------------
TERM_T = 5


def shards(tier, seed):
    t = tier == 'thorough'
    out = []
    plan = [('core', 5 if t else 4), ('wide', 3), ('rec', 3), ('term', TERM_T if t else 4)] + ([('mid', 4)] if t else [])
    for alpha, nmax in plan:
        leaves, unary, binary = ALPHABETS[alpha]
        out.append(('trees', alpha, 0, None, 0))
        for n in range(1, nmax + 1):
            for h in leaves:
                out.append(('trees', alpha, n, h, 1))
            for h in unary + binary:
                for k in range(1, n + 1):
                    out.append(('trees', alpha, n, h, k))
    # biggest first so the pool stays busy
    out.sort(key=lambda s: (-(s[2] * 10 + (s[4] if s[3] in UNARY or s[3] in BINARY else 0)), s[1], str(s[3])))
    step = 16
    for k in range(step):
        out.append(('names', k, step))
    for n in range(0, (3 if t else 2) + 1):
        out.append(('treenames', n))
    return [('text', 2, k, step) for k in range(step)] + out


def cases_of(spec, tier):
    kind = spec[0]
    if kind == 'trees':
        _, alpha, n, head, k = spec
        if n == 0:
            yield {'name': 'v', 'code': ()}
            return
        for tree in trees_with_head(alpha, n, head, k):
            yield {'name': 'v', 'code': tree}
    elif kind == 'names':
        _, k, step = spec
        for i, nm in enumerate(names(tier)):
            if i % step == k:
                for code in NAME_CODES[tier]:
                    yield {'name': nm, 'code': code}
    elif kind == 'treenames':
        for tree in seqs('core', spec[1]):
            for nm in TREE_NAMES[1:]:
                yield {'name': nm, 'code': tree}
    elif kind == 'text':
        _, nmax, k, step = spec
        i = 0
        for n in range(0, nmax + 1):
            for tree in seqs('wide', n):
                i += 1
                if i % step == k:
                    yield {'name': 'v', 'code': tree, 'form': 'text'}
            for tree in seqs('term', n):
                if any(h in TERMINAL_HEADS for _, h, _ in walk(tree)):
                    i += 1
                    if i % step == k:
                        yield {'name': 'v', 'code': tree, 'form': 'text'}
        for nm in names(tier):
            if text_safe(nm):
                i += 1
                if i % step == k:
                    for code in NAME_CODES['quick'][:3]:
                        yield {'name': nm, 'code': code, 'form': 'text'}


def run_shard(spec, tier):
    r = Result()
    case = None
    for case in cases_of(spec, tier):
        r.ev()
        label, desc, detail, nov = check(case)
        r.out(label)
        if nov:
            r.no_verdict += 1
        name, tree = case['name'], case['code']
        if len(name) >= 31 or name_verdict(name) or any(h in OP_HEADS or h in SELF_HEADS for _, h, _ in walk(tree)):
            r.nt((name, tree, case.get('form')))
        if desc:
            r.viol(desc, case, detail)
        if len(r.samples) < 1 and (spec[0] != 'trees' or len(tree) > 1):
            r.sample(case)
    if case is not None:
        r.sample(case)
    return r


def replay(case):
    label, desc, detail, _ = check(case)
    return [(desc, f'{label}: {detail}')] if desc else []


def observe(case):
    return list(run_impl(case['name'], as_tuple(case['code']), case.get('form', 'micheline')))
