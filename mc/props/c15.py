"""C15 — big_map operations and lazy diffs agree with a dictionary layered over the on-chain contents.

Model checking (explicit-state BFS, canonical-state dedup).  One *run* fixes a configuration:
  key type, key universe K (1, 2 or 3 keys), how the big_map comes to exist ("source"):
    fresh    EMPTY_BIG_MAP (real instruction)                          -- nothing on chain
    literal  storage literal { Elt k v ; ... } attached to the context -- nothing on chain, initial local layer L0
    chain    storage `<id>` attached to a context whose shell serves the on-chain contents D by script-expr hash
    copy     the same id arriving through the *parameter* (pytezos registers a temporary copy of the on-chain map)
  and D (resp. L0): EVERY assignment key -> absent | value, i.e. every split of the key universe.
The on-chain contents are served by a fake node (an RpcNode subclass answering `get`) behind the REAL ShellQuery, so
ExecutionContext.get_big_map_value builds the real RPC path  .../context/big_maps/<id>/<expr hash>.

A configuration may hold a SECOND big_map in the same execution context (cfg['second']: own key type, source and contents;
on-chain id 5 next to id 7, on-chain values distinct from the first map's).  Both live where a contract would have them: the
storage is `pair (big_map ..) (big_map ..)` (one or both given by id / by literal), a `copy` arrives through the parameter, a
`fresh` one comes from EMPTY_BIG_MAP.  The two maps share their key universe (also under two key types whose packed keys
coincide, int/nat), so the same key hash is looked up in both: whatever the context carries from one call to the next
(id registry, temporary ids, anything remembered about the node's answers) is exercised by every interleaving.

From the initial state the explorer applies every operation of the alphabet
  GET k, MEM k, UPDATE k None|Some v, GET_AND_UPDATE k None|Some v          (k in K, v in {0,1}; on either big_map)
through the REAL instruction classes on a REAL MichelsonStack, in lock-step with mc.ref.layered.Layered (one per big_map).
  * every transition: the observation (GET/GET_AND_UPDATE option, MEM bool) must equal the reference's;
  * every new state: the history is replayed on a fresh context and the real aggregate_lazy_diff (what
    MichelsonProgram.end calls) of EVERY big_map is judged: every key_hash == base58('expr', blake2b-256(reference PACK(key)));
    no key twice with conflicting content; the updates applied IN ORDER to D (keyed by hash) == the reference's final
    dictionary; alloc diffs carry the declared key/value types; merge_lazy_diff of that diff reads the same content;
  * every new state (storage-held and single fresh maps only): the same history as a contract through Interpreter.run_code
    (fresh context, BEGIN, code with DUP/PUSH/GET/..., END) must emit a lazy_diff with the same content and pass the same judgement.
States are deduplicated on (reference layers, implementation items/removed_keys/ptr of every map); a violating transition is
not expanded further, so the first counterexample reported is a shortest one.
With ONE big_map the explorer's objects share one context for the whole run (its tables are fixed per run).  With TWO big_maps
what the context carries from call to call is the point, so every transition is executed on a fresh world on which exactly the
shortest history of its pre-state has been replayed (the recorded history IS the whole call history of that context, and
`--replay` reproduces it), and the state also contains the set of (id, key hash) lookups the node has answered so far - a
read that only touches the context (GET k on map 0 before GET k on map 1) therefore leads to a new state and is explored.

Key types.  Besides the hand-picked ones, a generated family: every type with a distinct optimized (PACK) form - address,
key_hash, chain_id, key, signature, a right comb of three - alone, under each of the five one-hole contexts
`or _ nat`, `or nat _`, `option _`, `pair _ nat`, `pair nat _`, and under every composition of two of them (three levels),
because the key hash is taken of the OPTIMIZED rendering and every container has to pass that mode down.
"""
from __future__ import annotations

import itertools
import json
import re

from mc import adapter as A
from mc.engine.report import Result
from mc.ref import mtypes as T
from mc.ref.layered import Layered, apply_diff

ID = 'C15'
LEVEL = 'model_checking'
RULE = ('per configuration (key type, key universe, source in fresh/literal/chain/copy, every assignment of on-chain or '
        'literal contents to the keys; optionally a second big_map with its own source/contents in the same execution context): '
        'BFS over operation histories from the alphabet GET/MEM/UPDATE/GET_AND_UPDATE x big_map x key x '
        '{None, Some 0, Some 1}, deduplicated on (reference layers, implementation items+removed_keys+ptr of every map; with two maps '
        'also the set of (id, key hash) lookups the node has answered, and every transition is executed on a fresh world on which the '
        'history of its pre-state was replayed, so the recorded history is the complete call history of the context), to closure '
        'under a depth cap. states = distinct (configuration, canonical state); transitions = real instruction executions judged; '
        'traces = shortest history of every state replayed from scratch (direct + through Interpreter.run_code). '
        'non-trivial = distinct (configuration, pre-state, operation) where the operation writes, or reads a key that is '
        'bound on chain or was written before')
BOUND = {'quick': 'one map: key types int (|K|=2 and |K|=3) and string (|K|=3); |K|=2 for 60 generated key types: the 6 types with a distinct '
                  'optimized form (address, key_hash, chain_id, key, signature, 3-comb) alone, each under the 5 one-hole contexts '
                  '(or L/R, option, pair L/R; combs of 4+ excluded: 29 types) and one of them under each of the 25 two-level contexts; '
                  'on-chain values {absent,2}, literal values {absent,0,1}, all 4 sources. two maps in one context (every transition on a '
                  'freshly replayed world): |K|=1 for the key-type pairs int/int, int/nat, (or address nat)/(or address nat) x all 16 '
                  'source pairs x every content (second map: on-chain {absent,3}, literal {absent,1}); |K|=2 int/int chain+chain for the 5 '
                  'content pairs "complementary splits" and "both full", writes None/Some 0. closure of the state graph (caps: depth 8, '
                  '12 for two maps; 5*4^(keys) states per configuration)',
         'thorough': 'one map: 12 key types (int, string, pair, bytes, address, nat, mutez, key_hash, option, or, 3-comb, chain_id) with '
                     '|K|=3, on-chain values {absent,0,2}; int keys with |K|=4, on-chain values {absent,2}; the 6 distinct-optimized-form '
                     'types under all one- and two-level contexts (180 types, combs of 4+ excluded) with |K|=2 and under the one-level '
                     'contexts with |K|=3; literal values {absent,0,1}; all 4 sources. two maps in one context: |K|=2 int/int for all 16 '
                     'source pairs x every content (literal values {absent,0} / {absent,1}), |K|=1 for 15 key-type pairs (each of the 12 '
                     'with itself, int/nat, nat/mutez, (or address nat) with itself) x 16 source pairs. closure (caps: depth 10, 14 for two '
                     'maps; 5*4^(keys) states per configuration)'}
ASSUMPTIONS = ['the canonical state (items, removed_keys as a set, ptr) determines the future behaviour of a BigMapType whose '
               'context tables are fixed per run; the order of removed_keys (hash order) only permutes diff entries',
               'lazy diffs are read as Tezos applies them: entries in order, a later entry for the same key wins; two '
               'entries for one key with identical content are tolerated',
               'a `copy` diff is judged as "contents of the source map, then the updates" (pytezos does not emit the source id)',
               'key hashes of the explored key types (no combs of 4+) are the same for PACK and for big_map indexing',
               'with two big_maps in one run_code storage, alloc diffs are attributed to the literal maps in storage order '
               '(pytezos numbers fresh ids in traversal order); on-chain maps are attributed by id']
LEVEL_TEXT = ('every history over a 3-key universe reaches one of finitely many canonical states; BFS closes the state graph for '
              'every split of the keys between chain and local layer (also for two big_maps sharing one execution context), so '
              'within the alphabet the agreement with the layered dictionary is decided, not sampled')

CHAIN_IDS = (7, 5)    # ids of the on-chain big_maps (first, second map of a configuration)
CHAIN_ID = CHAIN_IDS[0]
VT = ('nat',)
VALS = [0, 1]
KEYTYPES = {
    'int': (('int',), [0, 1, -1, 64]),
    'string': (('string',), ['', 'a', 'B']),
    'pair': (('pair', ('int',), ('int',)), [(0, 0), (0, 1), (1, -1)]),
    'bytes': (('bytes',), [b'', b'\x00', b'\xff']),
    'address': (('address',), [('tz1', T.H0, ''), ('KT1', T.H0, ''), ('KT1', T.H0, 'a')]),
    'nat': (('nat',), [0, 1, 128]),
    'mutez': (('mutez',), [0, 1, 2 ** 62]),
    'key_hash': (('key_hash',), [('tz1', T.H0), ('tz2', T.H0), ('tz1', T.HF)]),
    'option': (('option', ('int',)), [None, ('Some', 0), ('Some', -1)]),
    'or': (('or', ('int',), ('string',)), [('L', 0), ('R', ''), ('R', 'a')]),
    'pair3': (('pair', ('string',), ('pair', ('bytes',), ('bool',))), [('', (b'', False)), ('', (b'', True)), ('a', (b'\x00', False))]),
    'chain_id': (('chain_id',), [bytes(4), b'\xff' * 4, b'\x7a\x06\xa7\x70']),
}
OPTS = [None] + [('Some', v) for v in VALS]

# ---- generated key types: a type whose optimized form differs from the readable one, under 0, 1 or 2 containers
NAT = ('nat',)
SPECIAL = [('address',), ('key_hash',), ('chain_id',), ('key',), ('signature',), ('pair', NAT, ('pair', NAT, NAT))]
WRAPPERS = [lambda x: ('or', x, NAT), lambda x: ('or', NAT, x), lambda x: ('option', x),
            lambda x: ('pair', x, NAT), lambda x: ('pair', NAT, x)]


def max_comb(t):
    """Length of the longest right comb of pairs inside t."""
    n, x = 1, t
    while x[0] == 'pair':
        n, x = n + 1, x[2]
    return max([n if t[0] == 'pair' else 1] + [max_comb(a) for a in t[1:]])


def keys_of(t):
    """Up to 3 collision-forcing keys of type t, simplest first; the hole of every container is visited by the first two."""
    p = t[0]
    if p == 'or':
        a, b = keys_of(t[1]), keys_of(t[2])
        out = [('L', a[0]), ('R', b[0])] + [('L', x) for x in a[1:]] + [('R', x) for x in b[1:]]
    elif p == 'option':
        a = keys_of(t[1])
        out = [('Some', a[0]), None] + [('Some', x) for x in a[1:]]
    elif p == 'pair':
        a, b = keys_of(t[1]), keys_of(t[2])
        out = [(a[0], b[0]), (a[1], b[0]), (a[0], b[1])]
    else:
        out = list(T.domain(t, 3))
    return out[:3]


def _generated():
    d0 = list(SPECIAL)
    d1 = [w(x) for x in SPECIAL for w in WRAPPERS]
    d2_all, d2_diag, i = [], [], 0
    for w1 in WRAPPERS:
        for w2 in WRAPPERS:
            ok = [w1(w2(x)) for x in SPECIAL if max_comb(w1(w2(x))) <= 3]
            d2_all += ok
            rot = [w1(w2(SPECIAL[(i + j) % len(SPECIAL)])) for j in range(len(SPECIAL))]
            d2_diag.append(next(t for t in rot if max_comb(t) <= 3))
            i += 1
    d1 = [t for t in d1 if max_comb(t) <= 3]
    return d0, d1, d2_diag, d2_all


GEN0, GEN1, GEN2_DIAG, GEN2_ALL = _generated()
GEN = {T.t_str(t): (t, keys_of(t)) for t in GEN0 + GEN1 + GEN2_ALL}


def keytype(name):
    return KEYTYPES[name] if name in KEYTYPES else GEN[name]


def alphabet(nslots, opts=None):
    """Operations over `nslots` = (number of big_maps) x |K| slots; slot = map * |K| + key; opts = indexes into OPTS written."""
    ops = []
    for k in range(nslots):
        ops.append(('GET', k))
        ops.append(('MEM', k))
    for nm in ('UPDATE', 'GET_AND_UPDATE'):
        for k in range(nslots):
            for o in (opts or range(len(OPTS))):
                ops.append((nm, k, o))
    return ops


# --------------------------------------------------------------------------------------------- configurations
SOURCES = ('chain', 'literal', 'copy', 'fresh')


def contents(source, nk, chain_vals, lit_vals):
    if source == 'fresh':
        return [[None] * nk]
    vals = lit_vals if source == 'literal' else chain_vals
    return [list(c) for c in itertools.product(vals, repeat=nk)]


def one_map(out, ktname, nk, chain_vals, cap):
    out.append({'kt': ktname, 'nk': nk, 'source': 'fresh', 'content': [None] * nk, 'cap': cap})
    for content in itertools.product([None] + VALS, repeat=nk):
        out.append({'kt': ktname, 'nk': nk, 'source': 'literal', 'content': list(content), 'cap': cap})
    for src in ('chain', 'copy'):
        for content in itertools.product(chain_vals, repeat=nk):
            out.append({'kt': ktname, 'nk': nk, 'source': src, 'content': list(content), 'cap': cap})


def two_maps(out, kt1, kt2, nk, pairs, lit1, cap, opts=None, keep=None):
    """First map: on-chain values {absent,2}, literal values lit1; second map: on-chain {absent,3}, literal {absent,1}.
    opts: indexes into OPTS the write operations use (default: all); keep(c1, c2): which pairs of contents to take (default: all)."""
    for s1, s2 in pairs:
        for c1 in contents(s1, nk, [None, 2], lit1):
            for c2 in contents(s2, nk, [None, 3], [None, 1]):
                if keep and not keep(c1, c2):
                    continue
                cfg = {'kt': kt1, 'nk': nk, 'source': s1, 'content': c1, 'cap': cap,
                       'second': {'kt': kt2, 'source': s2, 'content': c2}}
                if opts:
                    cfg['opts'] = list(opts)
                out.append(cfg)


def configs(tier):
    out = []
    all_pairs = [(a, b) for a in SOURCES for b in SOURCES]
    or_addr = T.t_str(('or', ('address',), NAT))
    if tier == 'quick':
        for ktname, nk, chain_vals in [('int', 2, [None, 2]), ('int', 3, [None, 2]), ('string', 3, [None, 2])]:
            one_map(out, ktname, nk, chain_vals, 8)
        # |K|=2 on two on-chain maps: the second map binds exactly the keys the first does not, or both bind every key
        two_maps(out, 'int', 'int', 2, [('chain', 'chain')], [None, 0], 12, opts=[0, 1],
                 keep=lambda c1, c2: all((a is None) != (b is None) for a, b in zip(c1, c2)) or None not in c1 + c2)
        for kt1, kt2 in [('int', 'int'), ('int', 'nat'), (or_addr, or_addr)]:
            two_maps(out, kt1, kt2, 1, all_pairs, [None, 0, 1], 12)
        for t in GEN0 + GEN1 + GEN2_DIAG:
            one_map(out, T.t_str(t), 2, [None, 2], 8)
    else:
        for kt in KEYTYPES:
            one_map(out, kt, 3, [None, 0, 2], 10)
        one_map(out, 'int', 4, [None, 2], 10)
        two_maps(out, 'int', 'int', 2, all_pairs, [None, 0], 14)
        for kt in KEYTYPES:
            two_maps(out, kt, kt, 1, all_pairs, [None, 0, 1], 14)
        for kt1, kt2 in [('int', 'nat'), ('nat', 'mutez'), (or_addr, or_addr)]:
            two_maps(out, kt1, kt2, 1, all_pairs, [None, 0, 1], 14)
        for t in GEN1:
            one_map(out, T.t_str(t), 3, [None, 2], 10)
        seen = set()
        for t in GEN0 + GEN1 + GEN2_ALL:
            if t not in seen:
                seen.add(t)
                one_map(out, T.t_str(t), 2, [None, 2], 10)
    return out


def shards(tier, seed):
    return configs(tier)


def cfg_key_of(cfg):
    k = (cfg['kt'], cfg['nk'], cfg['source'], tuple(cfg['content']))
    if cfg.get('opts'):
        k += ('opts', tuple(cfg['opts']))
    if cfg.get('second'):
        s = cfg['second']
        k += ('+', s['kt'], s['source'], tuple(s['content']))
    return k


# --------------------------------------------------------------------------------------------- the world of one run
class HarnessGap(Exception):
    """The code under test asked the fake node for something the statement's world does not contain."""


_NODE_CLS = None


def node_cls():
    global _NODE_CLS
    if _NODE_CLS is None:
        from pytezos.rpc.node import RpcError, RpcNode

        class FakeNode(RpcNode):
            def __init__(self, served):
                super().__init__('http://c15.invalid')
                self.served = served          # {(id, expr_hash): micheline value}
                self.calls = []

            def request(self, method, path, **kw):
                raise HarnessGap(f'raw request {method} {path}')

            def post(self, path, params=None, json=None, timeout=None):
                raise HarnessGap(f'POST {path}')

            def get(self, path, params=None, timeout=None):
                m = re.fullmatch(r'/?chains/main/blocks/head/context/big_maps/(-?\d+)/(expr[1-9A-HJ-NP-Za-km-z]+)', path)
                if not m:
                    raise HarnessGap(f'GET {path}')
                k = (int(m.group(1)), m.group(2))
                self.calls.append(k)
                if k in self.served:
                    return json_copy(self.served[k])
                raise RpcError(f'Not found: {path}')

        _NODE_CLS = FakeNode
    return _NODE_CLS


def json_copy(x):
    return json.loads(json.dumps(x))


class MapSpec:
    """One big_map of a configuration: key type, key universe, source, on-chain contents / initial literal layer."""

    def __init__(self, m, ktname, nk, source, content):
        self.m, self.source = m, source
        self.KT, keys = keytype(ktname)
        self.keys = keys[:nk]
        if len(self.keys) != nk or len(set(self.keys)) != nk:
            raise RuntimeError(f'harness: key type {ktname} has no {nk} distinct keys')
        self.id = CHAIN_IDS[m]
        self.kt_expr = T.t_to_micheline(self.KT)
        self.vt_expr = T.t_to_micheline(VT)
        self.bm_expr = {'prim': 'big_map', 'args': [self.kt_expr, self.vt_expr]}
        self.chain, self.local0 = {}, {}
        if source in ('chain', 'copy'):
            self.chain = {self.keys[i]: v for i, v in enumerate(content) if v is not None}
        if source == 'literal':
            self.local0 = {self.keys[i]: ('Some', v) for i, v in enumerate(content) if v is not None}
        self.hash = {k: T.script_expr_hash(T.pack(self.KT, k)) for k in self.keys}

    def literal_expr(self):
        items = T.sorted_set(self.KT, list(self.local0))
        return [{'prim': 'Elt', 'args': [T.v_to_micheline(self.KT, k), T.v_to_micheline(VT, self.local0[k][1])]} for k in items]

    def section_value(self):
        return self.literal_expr() if self.source == 'literal' else {'int': str(self.id)}

    def reference(self):
        return Layered(self.chain, self.local0)


_SPECS = {}


def map_spec(*key):
    """MapSpec objects are immutable descriptions (reference side only): one per distinct description and process."""
    if key not in _SPECS:
        _SPECS[key] = MapSpec(*key)
    return _SPECS[key]


class World:
    """Fresh context + fake node + the big_map(s) under test, for one configuration."""

    def __init__(self, cfg):
        from pytezos.context.impl import ExecutionContext
        from pytezos.rpc.shell import ShellQuery
        self.cfg = cfg
        self.nk = cfg['nk']
        self.maps = [map_spec(0, cfg['kt'], cfg['nk'], cfg['source'], tuple(cfg['content']))]
        if cfg.get('second'):
            s = cfg['second']
            self.maps.append(map_spec(1, s['kt'], cfg['nk'], s['source'], tuple(s['content'])))
        self.tag = ' [two big_maps in one context]' if len(self.maps) == 2 else ''
        served = {}
        for sp in self.maps:
            for k, v in sp.chain.items():
                served[(sp.id, sp.hash[k])] = T.v_to_micheline(VT, v)
        self.node = node_cls()(served)
        self.shell = ShellQuery(node=self.node)
        self.ctx = ExecutionContext(shell=self.shell)
        self.bms = self._make()
        # run_code can express the configuration when every map sits in the storage (or is the single fresh map)
        self.e2e = all(sp.source in ('chain', 'literal') for sp in self.maps) or (len(self.maps) == 1 and cfg['source'] == 'fresh')

    def slot(self, s):
        """slot -> (map spec, reference key)."""
        sp = self.maps[s // self.nk]
        return sp, sp.keys[s % self.nk]

    def _make(self):
        from pytezos.michelson.micheline import Micheline
        from pytezos.michelson.sections.parameter import ParameterSection
        from pytezos.michelson.sections.storage import StorageSection
        from pytezos.michelson.stack import MichelsonStack
        bms = [None] * len(self.maps)
        groups = [(ParameterSection, 'parameter', [sp for sp in self.maps if sp.source == 'copy']),
                  (StorageSection, 'storage', [sp for sp in self.maps if sp.source in ('chain', 'literal')])]
        for cls, prim, group in groups:      # the order of MichelsonProgram.begin: parameter, then storage
            if not group:
                continue
            ty, val = section_of(group)
            sec = cls.match({'prim': prim, 'args': [ty]}).from_micheline_value(val)
            sec.attach_context(self.ctx)       # what MichelsonProgram.begin / BEGIN do
            items = [sec.item] if len(group) == 1 else list(sec.item.items)
            if len(items) != len(group):
                raise ShapeError(f'{prim} section of {len(group)} big_maps holds {len(items)} items')
            for sp, it in zip(group, items):
                bms[sp.m] = it
        for sp in self.maps:
            if sp.source == 'fresh':
                st = MichelsonStack()
                Micheline.match({'prim': 'EMPTY_BIG_MAP', 'args': [sp.kt_expr, sp.vt_expr]}).execute(st, [], self.ctx)
                assert len(st.items) == 1
                bms[sp.m] = st.items[0]
        return bms

    def reference(self):
        return tuple(sp.reference() for sp in self.maps)

    # ---- one real instruction
    def step(self, bms, op):
        """-> (observation, new list of big_map objects).  Raises whatever the instruction raises."""
        from pytezos.michelson.instructions.struct import GetAndUpdateInstruction, GetInstruction, MemInstruction, UpdateInstruction
        from pytezos.michelson.stack import MichelsonStack
        from pytezos.michelson.types.big_map import BigMapType
        sp, rk = self.slot(op[1])
        bm = bms[sp.m]
        key = A.to_impl(sp.KT, rk)
        name = op[0]
        if name in ('GET', 'MEM'):
            st = MichelsonStack([key, bm])
            (GetInstruction if name == 'GET' else MemInstruction).execute(st, [], self.ctx)
            if len(st.items) != 1:
                raise ShapeError(f'{name} left {len(st.items)} items')
            if name == 'GET':
                return ('opt', A.from_impl(st.items[0], ('option', VT))), bms
            return ('bool', A.from_impl(st.items[0], ('bool',))), bms
        val = A.to_impl(('option', VT), OPTS[op[2]])
        st = MichelsonStack([key, val, bm])
        if name == 'UPDATE':
            UpdateInstruction.execute(st, [], self.ctx)
            if len(st.items) != 1 or not isinstance(st.items[0], BigMapType):
                raise ShapeError(f'UPDATE left {st.items!r}')
            obs, new = None, st.items[0]
        else:
            GetAndUpdateInstruction.execute(st, [], self.ctx)
            if len(st.items) != 2 or not isinstance(st.items[1], BigMapType):
                raise ShapeError(f'GET_AND_UPDATE left {st.items!r}')
            obs, new = ('opt', A.from_impl(st.items[0], ('option', VT))), st.items[1]
        out = list(bms)
        out[sp.m] = new
        return obs, out

    def canon1(self, sp, bm):
        items = []
        for k, v in bm.items:
            items.append((repr(A.from_impl(k, sp.KT)), None if v is None else repr(A.from_impl(v, VT))))
        removed = sorted(repr(A.from_impl(k, sp.KT)) for k in bm.removed_keys)
        return (bm.ptr, tuple(items), tuple(removed), bm.context is self.ctx)

    def canon(self, bms):
        c = tuple(self.canon1(sp, bm) for sp, bm in zip(self.maps, bms))
        return c[0] if len(c) == 1 else c

    def canon_core(self, bms):
        """The part of the canonical state a replay from scratch must reproduce (ptr, items, removed keys)."""
        return tuple(self.canon1(sp, bm)[:3] for sp, bm in zip(self.maps, bms))


def section_of(group):
    if len(group) == 1:
        return group[0].bm_expr, group[0].section_value()
    return ({'prim': 'pair', 'args': [sp.bm_expr for sp in group]},
            {'prim': 'Pair', 'args': [sp.section_value() for sp in group]})


class ShapeError(Exception):
    pass


def reraise_gap(e):
    """Instruction classes wrap every exception into MichelsonRuntimeError: a gap of the fake node must stay a harness error."""
    x = e
    while x is not None:
        if isinstance(x, HarnessGap):
            raise x
        x = x.__cause__ or x.__context__


def op_text(w, op):
    sp, rk = w.slot(op[1])
    k = T.v_str(sp.KT, rk) + (f' @map{sp.m}' if len(w.maps) > 1 else '')
    if len(op) == 2:
        return f'{op[0]} {k}'
    o = OPTS[op[2]]
    return f'{op[0]} {k} {"None" if o is None else "Some %d" % o[1]}'


def op_class(op):
    if len(op) == 2:
        return op[0]
    return f'{op[0]} {"None" if OPTS[op[2]] is None else "Some"}'


def ref_step(w, refs, op):
    """-> (expected observation, new tuple of reference models)."""
    sp, rk = w.slot(op[1])
    obs, r2 = refs[sp.m].step((op[0], rk) if len(op) == 2 else (op[0], rk, OPTS[op[2]]))
    return obs, refs[:sp.m] + (r2,) + refs[sp.m + 1:]


def refs_canon(refs):
    c = tuple(r.canon() for r in refs)
    return c[0] if len(c) == 1 else c


# --------------------------------------------------------------------------------------------- judging a lazy diff
def judge_diff(w, sp, ld, ref, via):
    """-> (list of (what, detail), content dict keyed by hash or None).  `ld`: the diff entries attributed to big_map `sp`
    (the list aggregate_lazy_diff filled)."""
    out = []
    src = sp.source
    mine = [d for d in ld if d.get('kind') == 'big_map']
    if len(mine) != 1 or len(ld) != 1:
        return [(f'{via}: expected exactly one big_map diff, got {len(ld)}', json.dumps(ld)[:400])], None
    d = mine[0]
    diff = d['diff']
    action = diff.get('action')
    exp_action = {'fresh': 'alloc', 'literal': 'alloc', 'chain': 'update', 'copy': 'copy'}[src]
    if action != exp_action or (src == 'chain' and d.get('id') != str(sp.id)) or (src != 'chain' and not str(d.get('id', '')).isdigit()):
        out.append((f'{via}: diff action/id unexpected for a {src} big_map', f'action={action} id={d.get("id")}'))
        return out, None
    if action == 'alloc':
        kt = T.t_from_micheline(A.strip_annots(diff.get('key_type') or {'prim': '?'}))
        vt = T.t_from_micheline(A.strip_annots(diff.get('value_type') or {'prim': '?'}))
        if kt != sp.KT or vt != VT:
            out.append((f'{via}: alloc diff carries wrong key/value type', f'{kt} {vt}'))
    entries = []
    for u in diff.get('updates', []):
        try:
            k = T.v_from_micheline(sp.KT, u['key'])
            v = ('Some', T.v_from_micheline(VT, u['value'])) if 'value' in u else None
        except (T.BadValue, KeyError) as e:
            out.append((f'{via}: diff entry is not a well-formed key/value', f'{u} ({e})'))
            return out, None
        h = T.script_expr_hash(T.pack(sp.KT, k))
        if u.get('key_hash') != h:
            out.append((f'{via}: key_hash is not the script-expr hash of the packed key',
                        f'key type {T.t_str(sp.KT)} key {u["key"]}: got {u.get("key_hash")}, expected {h}'))
        entries.append((h, k, v))
    seen = {}
    for h, k, v in entries:
        if h in seen and seen[h] != v:
            out.append((f'{via}: diff mentions a key twice with conflicting content',
                        f'key {T.v_str(sp.KT, k)}: {seen[h]} and {v}; diff={json.dumps(diff.get("updates"))[:600]}'))
            return out, None
        seen[h] = v
    base = {sp.hash[k]: v for k, v in sp.chain.items()} if action in ('update', 'copy') else {}
    got = apply_diff(base, [(h, v) for h, _, v in entries])
    exp = {sp.hash[k]: v for k, v in ref.final().items()}
    if got != exp:
        bad = [k for k in sp.keys if got.get(sp.hash[k]) != exp.get(sp.hash[k])]
        extra = sorted(set(got) - set(sp.hash.values()))
        out.append((f'{via}: diff applied to the on-chain contents differs from the dictionary',
                    f'keys {[T.v_str(sp.KT, k) for k in bad]} extra={extra}: dictionary={ {T.v_str(sp.KT, k): v for k, v in ref.final().items()} } '
                    f'chain+diff={got} updates={json.dumps(diff.get("updates"))[:600]}'))
    return out, seen


def judge_merge(w, sp, ld, res_bm, ref):
    """merge_lazy_diff (how pytezos reads a diff back into a BigMapType) must read the same content."""
    merged = res_bm.merge_lazy_diff(ld)
    ups = []
    for k, v in merged.items:
        ups.append((sp.hash.get(A.from_impl(k, sp.KT), repr(k)), ('Some', A.from_impl(v, VT))))
    for k in merged.removed_keys:
        ups.append((sp.hash.get(A.from_impl(k, sp.KT), repr(k)), None))
    if len({h for h, _ in ups}) != len(ups):
        return []    # duplicates: already judged on the raw diff
    base = {sp.hash[k]: v for k, v in sp.chain.items()} if sp.source in ('chain', 'copy') else {}
    got = apply_diff(base, ups)
    exp = {sp.hash[k]: v for k, v in ref.final().items()}
    if got != exp:
        return [('merge_lazy_diff of the emitted diff differs from the dictionary', f'merged items={merged.items!r} removed={merged.removed_keys!r}')]
    return []


def attribute(w, ld):
    """Split the lazy_diff list of one run_code over the big_maps of the storage: on-chain maps by id, literal/fresh maps
    take the alloc entries in order.  -> list (one entry list per map) | None when the entries cannot be attributed."""
    is_upd = lambda d: isinstance(d, dict) and d.get('kind') == 'big_map' and d.get('diff', {}).get('action') == 'update'
    upd, rest = [d for d in ld if is_upd(d)], [d for d in ld if not is_upd(d)]
    out = []
    for sp in w.maps:
        if sp.source == 'chain':
            out.append([d for d in upd if d.get('id') == str(sp.id)])
        else:
            out.append([rest.pop(0)] if rest else [])
    if rest or sum(len(x) for x in out) != len(ld):
        return None
    return out


# --------------------------------------------------------------------------------------------- replaying a history
def replay_direct(cfg, history):
    """Fresh world, real instructions.  -> (world, big_maps, references, observations)."""
    w = World(cfg)
    bms, refs, obs = w.bms, w.reference(), []
    for op in history:
        o, bms = w.step(bms, tuple(op))
        _, refs = ref_step(w, refs, tuple(op))
        obs.append(o)
    return w, bms, refs, obs


def script_for(w, history):
    """The history as a contract (Micheline) for Interpreter.run_code: parameter unit; storage = the big_map, or the pair of
    big_maps (kept unpaired on the stack during the run, the first on top)."""
    push = lambda t, v: {'prim': 'PUSH', 'args': [T.t_to_micheline(t), T.v_to_micheline(t, v)]}
    two = len(w.maps) == 2
    code = [{'prim': 'CDR'}]
    if two:
        code.append({'prim': 'UNPAIR'})
    elif w.cfg['source'] == 'fresh':
        code += [{'prim': 'DROP'}, {'prim': 'EMPTY_BIG_MAP', 'args': [w.maps[0].kt_expr, w.maps[0].vt_expr]}]
    for op in history:
        sp, k = w.slot(op[1])
        if sp.m == 1:
            code.append({'prim': 'SWAP'})
        if op[0] in ('GET', 'MEM'):
            code += [{'prim': 'DUP'}, push(sp.KT, k), {'prim': op[0]}, {'prim': 'DROP'}]
        elif op[0] == 'UPDATE':
            code += [push(('option', VT), OPTS[op[2]]), push(sp.KT, k), {'prim': 'UPDATE'}]
        else:
            code += [push(('option', VT), OPTS[op[2]]), push(sp.KT, k), {'prim': 'GET_AND_UPDATE'}, {'prim': 'DROP'}]
        if sp.m == 1:
            code.append({'prim': 'SWAP'})
    if two:
        code.append({'prim': 'PAIR'})
    code += [{'prim': 'NIL', 'args': [{'prim': 'operation'}]}, {'prim': 'PAIR'}]
    if w.cfg['source'] == 'fresh':
        ty, storage = w.maps[0].bm_expr, []
    else:
        ty, storage = section_of(w.maps)
    script = [{'prim': 'parameter', 'args': [{'prim': 'unit'}]}, {'prim': 'storage', 'args': [ty]}, {'prim': 'code', 'args': [code]}]
    return script, storage


def run_code_diff(cfg, history):
    """The same history through Interpreter.run_code on a fresh world; -> (world, lazy_diff | None, storage, error text)."""
    from pytezos.michelson.repl import Interpreter
    w = World(cfg)
    script, storage = script_for(w, history)
    _, st, ld, stdout, err = Interpreter.run_code(parameter={'prim': 'Unit'}, storage=storage, script=script, shell=w.shell)
    if err is not None:
        return w, None, None, f'{err!r} / {stdout[-2:]}'
    return w, ld, st, None


def check_state(cfg, history, last_desc, want_e2e=True, prepared=None):
    """Invariant of the state reached by `history` (replayed from scratch; `prepared` = (world, big_maps, references) of a
    replay the caller has just made on a fresh world and will not use again).  -> (violations, canon core, diff contents)."""
    out = []
    w, bms, refs = prepared or replay_direct(cfg, history)[:3]
    last_desc += w.tag
    core = w.canon_core(bms)
    contents_, clean = [], True
    for sp, bm, ref in zip(w.maps, bms, refs):
        ld = []
        try:
            res = bm.aggregate_lazy_diff(ld)
        except Exception as e:
            reraise_gap(e)
            out.append((f'aggregate_lazy_diff raises {type(e.__cause__ or e).__name__} {last_desc}', repr(e)))
            contents_.append(None)
            clean = False
            continue
        vs, content = judge_diff(w, sp, ld, ref, 'aggregate_lazy_diff')
        out += [(f'{what} {last_desc}', det) for what, det in vs]
        contents_.append(content)
        clean = clean and not vs
        if content is not None and not vs:
            try:
                out += [(f'{what} {last_desc}', det) for what, det in judge_merge(w, sp, ld, res, ref)]
            except Exception as e:
                out.append((f'merge_lazy_diff raises {type(e.__cause__ or e).__name__} {last_desc}', repr(e)))
    if want_e2e and w.e2e:
        try:
            w2, ld2, st2, err = run_code_diff(cfg, history)
        except Exception as e:
            reraise_gap(e)
            w2, ld2, err = None, None, f'run_code raised {e!r}'
        if err is not None:
            out.append((f'run_code fails on a well-typed big_map program {last_desc}', err))
        else:
            parts = attribute(w2, ld2)
            if parts is None:
                out.append((f'run_code: lazy_diff entries do not match the big_maps of the storage {last_desc}', json.dumps(ld2)[:600]))
            else:
                for sp, part, ref, content in zip(w2.maps, parts, refs, contents_):
                    vs2, content2 = judge_diff(w2, sp, part, ref, 'run_code')
                    # the directly driven diff was already judged: report run_code only where it adds something
                    if vs2 and clean:
                        out += [(f'{what} {last_desc}', det) for what, det in vs2]
                    if content is not None and content2 is not None and content != content2:
                        out.append((f'run_code lazy_diff differs from aggregate_lazy_diff on the same history {last_desc}',
                                    f'{content2} vs {content}'))
    return out, core, contents_


# --------------------------------------------------------------------------------------------- BFS
def explore(cfg, r: Result, tier):
    w = World(cfg)
    # One big_map: the explorer's objects live in ONE context for the whole run (the context tables are fixed per run).
    # Two big_maps share the context on purpose, so what the context carries from call to call is part of the case: every
    # transition is executed on a fresh world on which exactly the history of its pre-state has been replayed.
    exact = len(w.maps) == 2
    nslots = cfg['nk'] * len(w.maps)
    ops = alphabet(nslots, cfg.get('opts'))
    cfg_key = cfg_key_of(cfg)
    case0 = {'cfg': cfg, 'history': []}
    ref0 = w.reference()
    r.state((cfg_key, refs_canon(ref0), w.canon(w.bms)))
    vs, _, _ = check_state(cfg, [], 'in the initial state')
    r.traces += 1
    for d, det in vs:
        r.viol(d, case0, det)
    r.sample(case0)
    frontier = [] if vs else [(w.bms, ref0, [], w.canon(w.bms))]
    depth = 0
    nstates = 1
    last_case = case0
    while frontier:
        if depth >= cfg['cap'] or nstates > 5 * 4 ** nslots:   # a correct implementation has at most 4^(keys) states
            r.cap(f'cap reached (depth {depth}, {nstates} states) with unexpanded states: configuration {cfg_key}')
            break
        depth += 1
        nxt = []
        for bms, refs, hist, canon in frontier:
            pre = (refs_canon(refs), canon)
            for op in ops:
                r.ev()
                r.transitions += 1
                h2 = hist + [list(op)]
                case = {'cfg': cfg, 'history': h2}
                last_case = case
                sp, rk = w.slot(op[1])
                status = refs[sp.m].status(rk)
                desc = f'after {op_class(op)} on {status} key'
                if len(op) == 3 or status != 'absent':
                    r.nt((cfg_key, pre, op))
                exp_obs, refs2 = ref_step(w, refs, op)
                try:
                    if exact:
                        wt, bms_t, _, _ = replay_direct(cfg, hist)
                        r.traces += 1
                    else:
                        wt, bms_t = w, bms
                    obs, bms2 = wt.step(bms_t, op)
                except Exception as e:
                    reraise_gap(e)
                    r.out(f'{op[0]} raises')
                    r.viol(f'{op_class(op)} raises {type(e.__cause__ or e).__name__} on {status} key{w.tag}', case,
                           f'{cfg_key} history {[op_text(w, o) for o in h2]}: {e!r}')
                    continue
                if obs != exp_obs:
                    r.out(f'{op[0]} observation differs')
                    r.viol(f'{op_class(op)} observation wrong on {status} key{w.tag}', case,
                           f'{cfg_key} history {[op_text(w, o) for o in h2]}: got {obs}, dictionary says {exp_obs}')
                    continue
                r.out(f'{op_class(op)} on {status} key -> {"-" if obs is None else ("Some" if obs[1] not in (None, False, True) else obs[1])}'
                      + (' (2 maps)' if w.tag else ''))
                c2 = wt.canon(bms2)
                if exact:
                    c2 = (c2, tuple(sorted(set(wt.node.calls))))   # what the context has asked the node so far is part of the state
                st_key = (cfg_key, refs_canon(refs2), c2)
                if not r.state(st_key):
                    continue
                nstates += 1
                vs, core2, _ = check_state(cfg, h2, desc, want_e2e=True, prepared=(wt, bms2, refs2) if exact else None)
                r.traces += (not exact) + w.e2e
                if core2 != wt.canon_core(bms2):
                    raise RuntimeError(f'harness: replay of {h2} reaches {core2}, BFS state is {wt.canon_core(bms2)}')
                if vs:
                    r.out('state invariant broken')
                    for d, det in vs:
                        r.viol(d, case, f'{cfg_key} history {[op_text(w, o) for o in h2]}: {det}')
                    continue
                nxt.append((bms2, refs2, h2, c2))
        frontier = nxt
    r.extra[f'closure depth {depth} ({len(w.maps)} map{"s" if w.tag else ""}, |K|={cfg["nk"]})'] += 1
    r.sample(last_case)


def run_shard(cfg, tier):
    r = Result()
    explore(cfg, r, tier)
    return r


# --------------------------------------------------------------------------------------------- replay / observe
def replay(case):
    cfg, history = case['cfg'], [tuple(o) for o in case['history']]
    out = []
    w = World(cfg)
    bms, refs = w.bms, w.reference()
    vs, _, _ = check_state(cfg, [], 'in the initial state')
    out += vs
    for i, op in enumerate(history):
        sp, rk = w.slot(op[1])
        status = refs[sp.m].status(rk)
        desc = f'after {op_class(op)} on {status} key'
        exp_obs, refs = ref_step(w, refs, op)
        try:
            obs, bms = w.step(bms, op)
        except Exception as e:
            reraise_gap(e)
            out.append((f'{op_class(op)} raises {type(e.__cause__ or e).__name__} on {status} key{w.tag}', repr(e)))
            break
        if obs != exp_obs:
            out.append((f'{op_class(op)} observation wrong on {status} key{w.tag}',
                        f'step {i} {op_text(w, op)}: got {obs}, dictionary says {exp_obs}'))
            break
        vs, _, _ = check_state(cfg, [list(o) for o in history[:i + 1]], desc)
        if vs:
            out += [(d, f'after step {i} {op_text(w, op)}: {det}') for d, det in vs]
            break
    return out


def observe(case):
    cfg, history = case['cfg'], [tuple(o) for o in case['history']]
    try:
        w, bms, refs, obs = replay_direct(cfg, history)
        ups = []
        for bm in bms:
            ld = []
            bm.aggregate_lazy_diff(ld)
            ups.append(sorted(json.dumps(u, sort_keys=True) for d in ld for u in d['diff']['updates']))
        return {'obs': [repr(o) for o in obs], 'canon': repr(w.canon(bms)), 'diff': ups, 'calls': w.node.calls}
    except Exception as e:
        return {'raises': repr(e)}
