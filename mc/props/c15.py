"""C15 — big_map operations and lazy diffs agree with a dictionary layered over the on-chain contents.

Model checking (explicit-state BFS, canonical-state dedup).  One *run* fixes a configuration:
  key type, key universe K (2 or 3 keys), how the big_map comes to exist ("source"):
    fresh    EMPTY_BIG_MAP (real instruction)                          -- nothing on chain
    literal  storage literal { Elt k v ; ... } attached to the context -- nothing on chain, initial local layer L0
    chain    storage `<id>` attached to a context whose shell serves the on-chain contents D by script-expr hash
    copy     the same id arriving through the *parameter* (pytezos registers a temporary copy of the on-chain map)
  and D (resp. L0): EVERY assignment key -> absent | value, i.e. every split of the key universe.
The on-chain contents are served by a fake node (an RpcNode subclass answering `get`) behind the REAL ShellQuery, so
ExecutionContext.get_big_map_value builds the real RPC path  .../context/big_maps/<id>/<expr hash>.

From the initial state the explorer applies every operation of the alphabet
  GET k, MEM k, UPDATE k None|Some v, GET_AND_UPDATE k None|Some v          (k in K, v in {0,1})
through the REAL instruction classes on a REAL MichelsonStack, in lock-step with mc.ref.layered.Layered.
  * every transition: the observation (GET/GET_AND_UPDATE option, MEM bool) must equal the reference's;
  * every new state: the history is replayed on a fresh context and the real aggregate_lazy_diff (what
    MichelsonProgram.end calls) is judged: every key_hash == base58('expr', blake2b-256(reference PACK(key)));
    no key twice with conflicting content; the updates applied IN ORDER to D (keyed by hash) == the reference's final
    dictionary; alloc diffs carry the declared key/value types; merge_lazy_diff of that diff reads the same content;
  * every new state (not for `copy`): the same history as a contract through Interpreter.run_code (fresh context, BEGIN,
    code with DUP/PUSH/GET/..., END) must emit a lazy_diff with the same content and pass the same judgement.
States are deduplicated on (reference layer, implementation items/removed_keys/ptr); a violating transition is not
expanded further, so the first counterexample reported is a shortest one.
"""
from __future__ import annotations

import itertools
import json
import re

from mc import adapter as A
from mc.engine.report import Result
from mc.ref import mtypes as T
from mc.ref.layered import Layered, apply_diff

ID = 'C15'
LEVEL = 'model_checking'
RULE = ('per configuration (key type, key universe, source in fresh/literal/chain/copy, every assignment of on-chain or '
        'literal contents to the keys): BFS over operation histories from the alphabet GET/MEM/UPDATE/GET_AND_UPDATE x key x '
        '{None, Some 0, Some 1}, deduplicated on (reference layer, implementation items+removed_keys+ptr), to closure under a '
        'depth cap. states = distinct (configuration, canonical state); transitions = real instruction executions judged; '
        'traces = shortest history of every state replayed from scratch (direct + through Interpreter.run_code). '
        'non-trivial = distinct (configuration, pre-state, operation) where the operation writes, or reads a key that is '
        'bound on chain or was written before')
BOUND = {'quick': 'key types int (|K|=2 and |K|=3) and string (|K|=3), on-chain values {absent,2}, literal values {absent,0,1}, all 4 sources, '
                  'closure of the state graph (reached at depth <= 2|K|+1; caps: depth 8, 5*4^|K| states per configuration)',
         'thorough': '12 key types (int, string, pair, bytes, address, nat, mutez, key_hash, option, or, 3-comb, chain_id) with '
                     '|K|=3, on-chain values {absent,0,2}; int keys with |K|=4, on-chain values {absent,2}; literal values '
                     '{absent,0,1}; all 4 sources; closure (caps: depth 10, 5*4^|K| states per configuration)'}
ASSUMPTIONS = ['the canonical state (items, removed_keys as a set, ptr) determines the future behaviour of a BigMapType whose '
               'context tables are fixed per run; the order of removed_keys (hash order) only permutes diff entries',
               'lazy diffs are read as Tezos applies them: entries in order, a later entry for the same key wins; two '
               'entries for one key with identical content are tolerated',
               'a `copy` diff is judged as "contents of the source map, then the updates" (pytezos does not emit the source id)',
               'key hashes of the explored key types (no combs of 4+) are the same for PACK and for big_map indexing']
LEVEL_TEXT = ('every history over a 3-key universe reaches one of finitely many canonical states; BFS closes the state graph for '
              'every split of the keys between chain and local layer, so within the alphabet the agreement with the layered '
              'dictionary is decided, not sampled')

CHAIN_ID = 7          # id of the on-chain big_map
VT = ('nat',)
VALS = [0, 1]
KEYTYPES = {
    'int': (('int',), [0, 1, -1, 64]),
    'string': (('string',), ['', 'a', 'B']),
    'pair': (('pair', ('int',), ('int',)), [(0, 0), (0, 1), (1, -1)]),
    'bytes': (('bytes',), [b'', b'\x00', b'\xff']),
    'address': (('address',), [('tz1', T.H0, ''), ('KT1', T.H0, ''), ('KT1', T.H0, 'a')]),
    'nat': (('nat',), [0, 1, 128]),
    'mutez': (('mutez',), [0, 1, 2 ** 62]),
    'key_hash': (('key_hash',), [('tz1', T.H0), ('tz2', T.H0), ('tz1', T.HF)]),
    'option': (('option', ('int',)), [None, ('Some', 0), ('Some', -1)]),
    'or': (('or', ('int',), ('string',)), [('L', 0), ('R', ''), ('R', 'a')]),
    'pair3': (('pair', ('string',), ('pair', ('bytes',), ('bool',))), [('', (b'', False)), ('', (b'', True)), ('a', (b'\x00', False))]),
    'chain_id': (('chain_id',), [bytes(4), b'\xff' * 4, b'\x7a\x06\xa7\x70']),
}
OPTS = [None] + [('Some', v) for v in VALS]


def alphabet(nk):
    ops = []
    for k in range(nk):
        ops.append(('GET', k))
        ops.append(('MEM', k))
    for nm in ('UPDATE', 'GET_AND_UPDATE'):
        for k in range(nk):
            for o in range(len(OPTS)):
                ops.append((nm, k, o))
    return ops


# --------------------------------------------------------------------------------------------- configurations
def configs(tier):
    out = []
    if tier == 'quick':
        plan = [('int', 2, [None, 2]), ('int', 3, [None, 2]), ('string', 3, [None, 2])]
        cap = 8
    else:
        plan = [(kt, 3, [None, 0, 2]) for kt in KEYTYPES] + [('int', 4, [None, 2])]
        cap = 10
    for ktname, nk, chain_vals in plan:
        out.append({'kt': ktname, 'nk': nk, 'source': 'fresh', 'content': [None] * nk, 'cap': cap})
        for content in itertools.product([None] + VALS, repeat=nk):
            out.append({'kt': ktname, 'nk': nk, 'source': 'literal', 'content': list(content), 'cap': cap})
        for src in ('chain', 'copy'):
            for content in itertools.product(chain_vals, repeat=nk):
                out.append({'kt': ktname, 'nk': nk, 'source': src, 'content': list(content), 'cap': cap})
    return out


def shards(tier, seed):
    return configs(tier)


# --------------------------------------------------------------------------------------------- the world of one run
class HarnessGap(Exception):
    """The code under test asked the fake node for something the statement's world does not contain."""


_NODE_CLS = None


def node_cls():
    global _NODE_CLS
    if _NODE_CLS is None:
        from pytezos.rpc.node import RpcError, RpcNode

        class FakeNode(RpcNode):
            def __init__(self, served):
                super().__init__('http://c15.invalid')
                self.served = served          # {(id, expr_hash): micheline value}
                self.calls = []

            def request(self, method, path, **kw):
                raise HarnessGap(f'raw request {method} {path}')

            def post(self, path, params=None, json=None, timeout=None):
                raise HarnessGap(f'POST {path}')

            def get(self, path, params=None, timeout=None):
                m = re.fullmatch(r'/?chains/main/blocks/head/context/big_maps/(-?\d+)/(expr[1-9A-HJ-NP-Za-km-z]+)', path)
                if not m:
                    raise HarnessGap(f'GET {path}')
                k = (int(m.group(1)), m.group(2))
                self.calls.append(k)
                if k in self.served:
                    return json_copy(self.served[k])
                raise RpcError(f'Not found: {path}')

        _NODE_CLS = FakeNode
    return _NODE_CLS


def json_copy(x):
    return json.loads(json.dumps(x))


class World:
    """Fresh context + fake node + the big_map under test, for one configuration."""

    def __init__(self, cfg):
        from pytezos.context.impl import ExecutionContext
        from pytezos.rpc.shell import ShellQuery
        self.cfg = cfg
        self.KT, self.keys = KEYTYPES[cfg['kt']]
        self.keys = self.keys[:cfg['nk']]
        self.kt_expr = T.t_to_micheline(self.KT)
        self.vt_expr = T.t_to_micheline(VT)
        self.bm_expr = {'prim': 'big_map', 'args': [self.kt_expr, self.vt_expr]}
        src = cfg['source']
        self.chain = {}
        if src in ('chain', 'copy'):
            self.chain = {self.keys[i]: v for i, v in enumerate(cfg['content']) if v is not None}
        self.local0 = {}
        if src == 'literal':
            self.local0 = {self.keys[i]: ('Some', v) for i, v in enumerate(cfg['content']) if v is not None}
        self.hash = {k: T.script_expr_hash(T.pack(self.KT, k)) for k in self.keys}
        served = {(CHAIN_ID, self.hash[k]): T.v_to_micheline(VT, v) for k, v in self.chain.items()}
        self.node = node_cls()(served)
        self.shell = ShellQuery(node=self.node)
        self.ctx = ExecutionContext(shell=self.shell)
        self.bm = self._make()

    def literal_expr(self):
        items = T.sorted_set(self.KT, list(self.local0))
        return [{'prim': 'Elt', 'args': [T.v_to_micheline(self.KT, k), T.v_to_micheline(VT, self.local0[k][1])]} for k in items]

    def _make(self):
        from pytezos.michelson.micheline import Micheline
        from pytezos.michelson.sections.parameter import ParameterSection
        from pytezos.michelson.sections.storage import StorageSection
        from pytezos.michelson.stack import MichelsonStack
        src = self.cfg['source']
        if src == 'fresh':
            st = MichelsonStack()
            Micheline.match({'prim': 'EMPTY_BIG_MAP', 'args': [self.kt_expr, self.vt_expr]}).execute(st, [], self.ctx)
            assert len(st.items) == 1
            return st.items[0]
        if src == 'copy':
            sec = ParameterSection.match({'prim': 'parameter', 'args': [self.bm_expr]}).from_micheline_value({'int': str(CHAIN_ID)})
        else:
            sec = StorageSection.match({'prim': 'storage', 'args': [self.bm_expr]}).from_micheline_value(
                {'int': str(CHAIN_ID)} if src == 'chain' else self.literal_expr())
        sec.attach_context(self.ctx)       # what MichelsonProgram.begin / BEGIN do
        return sec.item

    def reference(self):
        return Layered(self.chain, self.local0)

    # ---- one real instruction
    def step(self, bm, op):
        """-> (observation, new big_map object).  Raises whatever the instruction raises."""
        from pytezos.michelson.instructions.struct import GetAndUpdateInstruction, GetInstruction, MemInstruction, UpdateInstruction
        from pytezos.michelson.stack import MichelsonStack
        from pytezos.michelson.types.big_map import BigMapType
        key = A.to_impl(self.KT, self.keys[op[1]])
        name = op[0]
        if name in ('GET', 'MEM'):
            st = MichelsonStack([key, bm])
            (GetInstruction if name == 'GET' else MemInstruction).execute(st, [], self.ctx)
            if len(st.items) != 1:
                raise ShapeError(f'{name} left {len(st.items)} items')
            if name == 'GET':
                return ('opt', A.from_impl(st.items[0], ('option', VT))), bm
            return ('bool', A.from_impl(st.items[0], ('bool',))), bm
        val = A.to_impl(('option', VT), OPTS[op[2]])
        st = MichelsonStack([key, val, bm])
        if name == 'UPDATE':
            UpdateInstruction.execute(st, [], self.ctx)
            if len(st.items) != 1 or not isinstance(st.items[0], BigMapType):
                raise ShapeError(f'UPDATE left {st.items!r}')
            return None, st.items[0]
        GetAndUpdateInstruction.execute(st, [], self.ctx)
        if len(st.items) != 2 or not isinstance(st.items[1], BigMapType):
            raise ShapeError(f'GET_AND_UPDATE left {st.items!r}')
        return ('opt', A.from_impl(st.items[0], ('option', VT))), st.items[1]

    def canon(self, bm):
        items = []
        for k, v in bm.items:
            items.append((repr(A.from_impl(k, self.KT)), None if v is None else repr(A.from_impl(v, VT))))
        removed = sorted(repr(A.from_impl(k, self.KT)) for k in bm.removed_keys)
        return (bm.ptr, tuple(items), tuple(removed), bm.context is self.ctx)


class ShapeError(Exception):
    pass


def reraise_gap(e):
    """Instruction classes wrap every exception into MichelsonRuntimeError: a gap of the fake node must stay a harness error."""
    x = e
    while x is not None:
        if isinstance(x, HarnessGap):
            raise x
        x = x.__cause__ or x.__context__


def op_text(w, op):
    k = T.v_str(w.KT, w.keys[op[1]])
    if len(op) == 2:
        return f'{op[0]} {k}'
    o = OPTS[op[2]]
    return f'{op[0]} {k} {"None" if o is None else "Some %d" % o[1]}'


def op_class(op):
    if len(op) == 2:
        return op[0]
    return f'{op[0]} {"None" if OPTS[op[2]] is None else "Some"}'


def ref_op(w, op):
    if len(op) == 2:
        return (op[0], w.keys[op[1]])
    return (op[0], w.keys[op[1]], OPTS[op[2]])


# --------------------------------------------------------------------------------------------- judging a lazy diff
def judge_diff(w, ld, ref, via):
    """-> (list of (what, detail), content dict keyed by hash or None).  `ld` is the list aggregate_lazy_diff filled."""
    out = []
    src = w.cfg['source']
    mine = [d for d in ld if d.get('kind') == 'big_map']
    if len(mine) != 1 or len(ld) != 1:
        return [(f'{via}: expected exactly one big_map diff, got {len(ld)}', json.dumps(ld)[:400])], None
    d = mine[0]
    diff = d['diff']
    action = diff.get('action')
    exp_action = {'fresh': 'alloc', 'literal': 'alloc', 'chain': 'update', 'copy': 'copy'}[src]
    if action != exp_action or (src == 'chain' and d.get('id') != str(CHAIN_ID)) or (src != 'chain' and not str(d.get('id', '')).isdigit()):
        out.append((f'{via}: diff action/id unexpected for a {src} big_map', f'action={action} id={d.get("id")}'))
        return out, None
    if action == 'alloc':
        kt = T.t_from_micheline(A.strip_annots(diff.get('key_type') or {'prim': '?'}))
        vt = T.t_from_micheline(A.strip_annots(diff.get('value_type') or {'prim': '?'}))
        if kt != w.KT or vt != VT:
            out.append((f'{via}: alloc diff carries wrong key/value type', f'{kt} {vt}'))
    entries = []
    for u in diff.get('updates', []):
        try:
            k = T.v_from_micheline(w.KT, u['key'])
            v = ('Some', T.v_from_micheline(VT, u['value'])) if 'value' in u else None
        except (T.BadValue, KeyError) as e:
            out.append((f'{via}: diff entry is not a well-formed key/value', f'{u} ({e})'))
            return out, None
        h = T.script_expr_hash(T.pack(w.KT, k))
        if u.get('key_hash') != h:
            out.append((f'{via}: key_hash is not the script-expr hash of the packed key',
                        f'key {u["key"]}: got {u.get("key_hash")}, expected {h}'))
        entries.append((h, k, v))
    seen = {}
    for h, k, v in entries:
        if h in seen and seen[h] != v:
            out.append((f'{via}: diff mentions a key twice with conflicting content',
                        f'key {T.v_str(w.KT, k)}: {seen[h]} and {v}; diff={json.dumps(diff.get("updates"))[:600]}'))
            return out, None
        seen[h] = v
    base = {w.hash[k]: v for k, v in w.chain.items()} if action in ('update', 'copy') else {}
    got = apply_diff(base, [(h, v) for h, _, v in entries])
    exp = {w.hash[k]: v for k, v in ref.final().items()}
    if got != exp:
        bad = [k for k in w.keys if got.get(w.hash[k]) != exp.get(w.hash[k])]
        extra = sorted(set(got) - set(w.hash.values()))
        out.append((f'{via}: diff applied to the on-chain contents differs from the dictionary',
                    f'keys {[T.v_str(w.KT, k) for k in bad]} extra={extra}: dictionary={ {T.v_str(w.KT, k): v for k, v in ref.final().items()} } '
                    f'chain+diff={got} updates={json.dumps(diff.get("updates"))[:600]}'))
    return out, seen


def judge_merge(w, ld, res_bm, ref):
    """merge_lazy_diff (how pytezos reads a diff back into a BigMapType) must read the same content."""
    merged = res_bm.merge_lazy_diff(ld)
    ups = []
    for k, v in merged.items:
        ups.append((w.hash.get(A.from_impl(k, w.KT), repr(k)), ('Some', A.from_impl(v, VT))))
    for k in merged.removed_keys:
        ups.append((w.hash.get(A.from_impl(k, w.KT), repr(k)), None))
    if len({h for h, _ in ups}) != len(ups):
        return []    # duplicates: already judged on the raw diff
    base = {w.hash[k]: v for k, v in w.chain.items()} if w.cfg['source'] in ('chain', 'copy') else {}
    got = apply_diff(base, ups)
    exp = {w.hash[k]: v for k, v in ref.final().items()}
    if got != exp:
        return [('merge_lazy_diff of the emitted diff differs from the dictionary', f'merged items={merged.items!r} removed={merged.removed_keys!r}')]
    return []


# --------------------------------------------------------------------------------------------- replaying a history
def replay_direct(cfg, history):
    """Fresh world, real instructions.  -> (world, big_map, reference, observations)."""
    w = World(cfg)
    bm, ref, obs = w.bm, w.reference(), []
    for op in history:
        o, bm = w.step(bm, tuple(op))
        _, ref = ref.step(ref_op(w, tuple(op)))
        obs.append(o)
    return w, bm, ref, obs


def script_for(w, history):
    """The history as a contract (Micheline) for Interpreter.run_code: parameter unit; storage (big_map kt vt)."""
    push = lambda t, v: {'prim': 'PUSH', 'args': [T.t_to_micheline(t), T.v_to_micheline(t, v)]}
    code = [{'prim': 'CDR'}]
    if w.cfg['source'] == 'fresh':
        code += [{'prim': 'DROP'}, {'prim': 'EMPTY_BIG_MAP', 'args': [w.kt_expr, w.vt_expr]}]
    for op in history:
        k = w.keys[op[1]]
        if op[0] in ('GET', 'MEM'):
            code += [{'prim': 'DUP'}, push(w.KT, k), {'prim': op[0]}, {'prim': 'DROP'}]
        elif op[0] == 'UPDATE':
            code += [push(('option', VT), OPTS[op[2]]), push(w.KT, k), {'prim': 'UPDATE'}]
        else:
            code += [push(('option', VT), OPTS[op[2]]), push(w.KT, k), {'prim': 'GET_AND_UPDATE'}, {'prim': 'DROP'}]
    code += [{'prim': 'NIL', 'args': [{'prim': 'operation'}]}, {'prim': 'PAIR'}]
    script = [{'prim': 'parameter', 'args': [{'prim': 'unit'}]}, {'prim': 'storage', 'args': [w.bm_expr]}, {'prim': 'code', 'args': [code]}]
    storage = {'int': str(CHAIN_ID)} if w.cfg['source'] == 'chain' else (w.literal_expr() if w.cfg['source'] == 'literal' else [])
    return script, storage


def run_code_diff(cfg, history):
    """The same history through Interpreter.run_code on a fresh world; -> (world, lazy_diff | None, storage, error text)."""
    from pytezos.michelson.repl import Interpreter
    w = World(cfg)
    script, storage = script_for(w, history)
    _, st, ld, stdout, err = Interpreter.run_code(parameter={'prim': 'Unit'}, storage=storage, script=script, shell=w.shell)
    if err is not None:
        return w, None, None, f'{err!r} / {stdout[-2:]}'
    return w, ld, st, None


def check_state(cfg, history, last_desc, want_e2e=True):
    """Invariant of the state reached by `history` (replayed from scratch).  -> (violations, canon, diff content)."""
    out = []
    w, bm, ref, _ = replay_direct(cfg, history)
    canon = w.canon(bm)
    ld = []
    try:
        res = bm.aggregate_lazy_diff(ld)
    except Exception as e:
        reraise_gap(e)
        return [(f'aggregate_lazy_diff raises {type(e.__cause__ or e).__name__} {last_desc}', repr(e))], canon, None
    vs, content = judge_diff(w, ld, ref, 'aggregate_lazy_diff')
    out += [(f'{what} {last_desc}', det) for what, det in vs]
    if content is not None and not vs:
        try:
            out += [(f'{what} {last_desc}', det) for what, det in judge_merge(w, ld, res, ref)]
        except Exception as e:
            out.append((f'merge_lazy_diff raises {type(e.__cause__ or e).__name__} {last_desc}', repr(e)))
    if want_e2e and cfg['source'] != 'copy':
        w2, ld2, st2, err = run_code_diff(cfg, history)
        if err is not None:
            out.append((f'run_code fails on a well-typed big_map program {last_desc}', err))
        else:
            vs2, content2 = judge_diff(w2, ld2, ref, 'run_code')
            # the directly driven diff was already judged: report run_code only where it adds something
            if vs2 and not vs:
                out += [(f'{what} {last_desc}', det) for what, det in vs2]
            if content is not None and content2 is not None and content != content2:
                out.append((f'run_code lazy_diff differs from aggregate_lazy_diff on the same history {last_desc}',
                            f'{content2} vs {content}'))
    return out, canon, content


# --------------------------------------------------------------------------------------------- BFS
def explore(cfg, r: Result, tier):
    w = World(cfg)
    ops = alphabet(cfg['nk'])
    cfg_key = (cfg['kt'], cfg['nk'], cfg['source'], tuple(cfg['content']))
    case0 = {'cfg': cfg, 'history': []}
    ref0 = w.reference()
    r.state((cfg_key, ref0.canon(), w.canon(w.bm)))
    vs, _, _ = check_state(cfg, [], 'in the initial state')
    r.traces += 1
    for d, det in vs:
        r.viol(d, case0, det)
    r.sample(case0)
    frontier = [] if vs else [(w.bm, ref0, [])]
    depth = 0
    nstates = 1
    last_case = case0
    while frontier:
        if depth >= cfg['cap'] or nstates > 5 * 4 ** cfg['nk']:   # a correct implementation has at most 4^|K| states
            r.cap(f'cap reached (depth {depth}, {nstates} states) with unexpanded states: configuration {cfg_key}')
            break
        depth += 1
        nxt = []
        for bm, ref, hist in frontier:
            pre = (ref.canon(), w.canon(bm))
            for op in ops:
                r.ev()
                r.transitions += 1
                h2 = hist + [list(op)]
                case = {'cfg': cfg, 'history': h2}
                last_case = case
                rk = w.keys[op[1]]
                status = ref.status(rk)
                desc = f'after {op_class(op)} on {status} key'
                if len(op) == 3 or status != 'absent':
                    r.nt((cfg_key, pre, op))
                exp_obs, ref2 = ref.step(ref_op(w, op))
                try:
                    obs, bm2 = w.step(bm, op)
                except Exception as e:
                    reraise_gap(e)
                    r.out(f'{op[0]} raises')
                    r.viol(f'{op_class(op)} raises {type(e.__cause__ or e).__name__} on {status} key', case,
                           f'{cfg_key} history {[op_text(w, o) for o in h2]}: {e!r}')
                    continue
                if obs != exp_obs:
                    r.out(f'{op[0]} observation differs')
                    r.viol(f'{op_class(op)} observation wrong on {status} key', case,
                           f'{cfg_key} history {[op_text(w, o) for o in h2]}: got {obs}, dictionary says {exp_obs}')
                    continue
                r.out(f'{op_class(op)} on {status} key -> {"-" if obs is None else ("Some" if obs[1] not in (None, False, True) else obs[1])}')
                st_key = (cfg_key, ref2.canon(), w.canon(bm2))
                if not r.state(st_key):
                    continue
                nstates += 1
                vs, canon2, _ = check_state(cfg, h2, desc, want_e2e=True)
                r.traces += 1 + (cfg['source'] != 'copy')
                if canon2[:3] != w.canon(bm2)[:3]:
                    raise RuntimeError(f'harness: replay of {h2} reaches {canon2}, BFS state is {w.canon(bm2)}')
                if vs:
                    r.out('state invariant broken')
                    for d, det in vs:
                        r.viol(d, case, f'{cfg_key} history {[op_text(w, o) for o in h2]}: {det}')
                    continue
                nxt.append((bm2, ref2, h2))
        frontier = nxt
    r.extra[f'closure depth {depth}'] += 1
    r.sample(last_case)


def run_shard(cfg, tier):
    r = Result()
    explore(cfg, r, tier)
    return r


# --------------------------------------------------------------------------------------------- replay / observe
def replay(case):
    cfg, history = case['cfg'], [tuple(o) for o in case['history']]
    out = []
    w = World(cfg)
    bm, ref = w.bm, w.reference()
    vs, _, _ = check_state(cfg, [], 'in the initial state')
    out += vs
    for i, op in enumerate(history):
        status = ref.status(w.keys[op[1]])
        desc = f'after {op_class(op)} on {status} key'
        exp_obs, ref = ref.step(ref_op(w, op))
        try:
            obs, bm = w.step(bm, op)
        except Exception as e:
            reraise_gap(e)
            out.append((f'{op_class(op)} raises {type(e.__cause__ or e).__name__} on {status} key', repr(e)))
            break
        if obs != exp_obs:
            out.append((f'{op_class(op)} observation wrong on {status} key',
                        f'step {i} {op_text(w, op)}: got {obs}, dictionary says {exp_obs}'))
            break
        vs, _, _ = check_state(cfg, [list(o) for o in history[:i + 1]], desc)
        if vs:
            out += [(d, f'after step {i} {op_text(w, op)}: {det}') for d, det in vs]
            break
    return out


def observe(case):
    cfg, history = case['cfg'], [tuple(o) for o in case['history']]
    try:
        w, bm, ref, obs = replay_direct(cfg, history)
        ld = []
        bm.aggregate_lazy_diff(ld)
        ups = sorted(json.dumps(u, sort_keys=True) for d in ld for u in d['diff']['updates'])
        return {'obs': [repr(o) for o in obs], 'canon': repr(w.canon(bm)), 'diff': ups, 'calls': w.node.calls}
    except Exception as e:
        return {'raises': repr(e)}
