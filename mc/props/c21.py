"""C21 — BLS12-381 operations respect group and field laws.

Bounded exhaustive exploration.  Points are k*G1 / k*G2 for every k of a small scalar set that contains 0
(the point at infinity), small multiples and r-1 (= -G); Fr elements come from a boundary set modulo r.
Every value is put on a REAL MichelsonStack by the real PUSH instruction (96/192-byte encodings, 32-byte
little-endian scalars), the real ADD / NEG / MUL / INT / PAIRING_CHECK instruction classes are executed on
that stack, and the top of the stack is compared

  (a) with reference values computed by mc.ref.blsref on proper projective points (infinity = Z==0) and
      encoded by the reference encoder - never through the to_point/from_point path under test;
  (b) with the laws of the statement evaluated on the implementation's own outputs
      (identity, inverse, commutativity, associativity, both distributivities, Fr ring laws);
  (c) PAIRING_CHECK [(a_i*G1, b_i*G2)] must be True exactly when sum a_i*b_i == 0 (mod r): the product of
      pairings is e(G1,G2)^(sum a_i b_i) and e(G1,G2) has order r - known arithmetically, no pairing is
      computed by the oracle.
  (d) every accepted python-object form of an encoding (raw bytes, bare hex text, 0x-prefixed hex text, and an int for
      Fr) must decode to the same value as the Micheline literal and encode back to the same bytes; the point set contains,
      per coordinate, the first multiple of the generator whose 48-byte coordinate starts with a zero byte.
  (e) call histories: all multiplications of one point happen in one shard, and one case per point runs a whole
      sequence of MULs (forward, then reversed) whose scalars include values that coincide modulo 2**32, 2**61-1 (the
      modulus of CPython's numeric hash) and 2**64 but differ modulo r; every call of the sequence is judged.
      PAIRING_CHECK lists contain byte-identical pairs repeated two and three times where the multiplicity decides.
"""
from __future__ import annotations

import itertools

from mc.engine.report import Result
from mc.ref import blsref as B

ID = 'C21'
LEVEL = 'exploration'
R = B.R
RULE = ('every operand tuple over the point set {k*G} (k=0 is infinity) and the scalar set, per instruction and per law; '
        'non-trivial = distinct (check, type, operand scalars) whose operands include the point at infinity, a pair '
        'P,-P, equal points (doubling), a scalar that is 0 / r-1 / reduced modulo r, or (pairing) a list whose '
        'exponent sum is 0 with non-zero terms or that contains the same pair more than once, a point one of whose '
        'coordinates is encoded with a leading zero byte, a scalar >= 2**32 that equals a smaller scalar of the same '
        'shard modulo 2**32 / 2**61-1 / 2**64, a value entered as hex text, or a MUL call sequence on one point; each '
        'instruction result is compared with the projective reference, each call of a sequence is judged, and each law is '
        'evaluated on the outputs of the real instructions')
BOUND = {
    'quick': 'law points k*G1,k*G2 for k in {0,1,2,3,r-1}; encoding/ADD/NEG/MUL/python-object points additionally the first k<=64 per '
             'coordinate with a leading zero byte (G1: 11,37; G2: 5,12,14,38); MUL scalars {0,1,2,3,r-1,r-2,(r+1)/2} + {1,2}+{2^32, 2^61-1, 2^64}; '
             'one forward+reversed MUL sequence per point over the small, aliasing and r-1 scalars; Fr set of 10 incl. 0,1,r-1,2^61,2^64+2; '
             'all pairs for ADD, all triples for associativity, all (P,Q,k) and (P,a,b) with k,a,b in {0,1,2,r-1} for distributivity; '
             'python-object forms bytes / hex / 0x-hex (/ int) of every point and Fr element; '
             'PAIRING_CHECK: empty list, all 16 single pairs, all 256 two-pair lists over coefficients {0,1,2,-1}, and 53 three-pair '
             'lists [(a,1),(c,1),(e,1)] and [(1,a),(1,c),(1,e)] over {1,-1,-2} (repeated pairs)',
    'thorough': 'law points k in {0,1,2,3,4,5,7,r-1,r-2,(r-1)/2} (+ the leading-zero-byte points as in quick); MUL scalars 10 + 6 aliasing; '
                'Fr set of 14; same products; PAIRING_CHECK: all single pairs and all 2401 two-pair lists over {0,1,2,3,-1,-2,-3}, '
                '431 three-pair lists over {1,2,-1,-2,0,-3} on either side, 81 four-pair lists [(a,1)..] over {1,-1,-3}',
}
ASSUMPTIONS = [
    'py_ecc field/curve arithmetic on projective points is correct (the reference shares it with pytezos; what is '
    'independent is the encoding/decoding and the handling of infinity)',
    'e(G1,G2) has exact order r, so a product of pairings of generator multiples is one iff the exponent sum is 0 mod r',
    'points are multiples of the generators only; arbitrary curve points outside the prime-order subgroups are not explored',
]
LEVEL_TEXT = ('exploration: every operand combination over a small point/scalar alphabet that forces infinity, inverses, '
              'doubling and modular wrap-around is decided against a projective reference and against the group/field '
              'laws; says nothing about points that are not small multiples (or negatives) of the generators')

G1T = {'prim': 'bls12_381_g1'}
G2T = {'prim': 'bls12_381_g2'}
FRT = {'prim': 'bls12_381_fr'}
TYP = {'g1': G1T, 'g2': G2T, 'fr': FRT}
CLS = {'g1': 'BLS12_381_G1Type', 'g2': 'BLS12_381_G2Type', 'fr': 'BLS12_381_FrType', 'int': 'IntType', 'nat': 'NatType',
       'bool': 'BoolType'}


def point_ks(tier):
    if tier == 'quick':
        return [0, 1, 2, 3, R - 1]
    return [0, 1, 2, 3, 4, 5, 7, R - 1, R - 2, (R - 1) // 2]


# scalars that are different modulo r but coincide with the small scalars 1, 2 once reduced to a machine word or hashed:
# modulo 2**32, modulo 2**61-1 (CPython hashes an int to its residue modulo this prime) and modulo 2**64
WORDS = [2 ** 32, 2 ** 61 - 1, 2 ** 64]
ALIAS = [s + w for w in WORDS for s in (1, 2)]


def base_scalars(tier):
    if tier == 'quick':
        return [0, 1, 2, 3, R - 1, R - 2, (R + 1) // 2]
    return [0, 1, 2, 3, 5, 2 ** 64, R - 1, R - 2, (R + 1) // 2, (R - 1) // 2]


def mul_scalars(tier):
    return base_scalars(tier) + ALIAS


def seq_scalars(tier):
    """scalars of the per-point MUL call sequence (cheap ones plus r-1); the sequence is run forward, then reversed"""
    return [1, 2, 3] + ALIAS + [0, R - 1] + ([] if tier == 'quick' else [2 ** 64, 5])


def dist_scalars(tier):
    """scalars used in the two distributivity laws (each case costs three MULs)"""
    return [0, 1, 2, R - 1] if tier == 'quick' else base_scalars(tier)


def fr_set(tier):
    base = [0, 1, 2, 3, R - 1, R - 2, (R + 1) // 2, 2 ** 128 + 1, 2 ** 61, 2 ** 64 + 2]
    if tier != 'quick':
        base += [(R - 1) // 2, 2 ** 64, 2 ** 254, 5]
    return base


ZINTS = [0, 1, 2, R - 1, R, R + 1, 2 * R + 3, 2 ** 256, -1, -2, -R, -R - 1]   # nat/int operands of MUL with Fr
PAIR_COEF = {'quick': [0, 1, 2, -1], 'thorough': [0, 1, 2, 3, -1, -2, -3]}


# ------------------------------------------------------------------ reference side (memoised per process)
_PT = {}


def rpt(ty, k):
    k %= R
    if (ty, k) not in _PT:
        _PT[ty, k] = B.g1(k) if ty == 'g1' else B.g2(k)
    return _PT[ty, k]


def renc(ty, k):
    """reference encoding of k*G (ty g1/g2) or of the scalar k (fr)."""
    if ty == 'fr':
        return B.fr_bytes(k)
    key = (ty, 'enc', k % R)
    if key not in _PT:
        _PT[key] = (B.enc_g1 if ty == 'g1' else B.enc_g2)(rpt(ty, k))
    return _PT[key]


def klass(k):
    k %= R
    return 'inf' if k == 0 else 'fin'


_BND = {}


def boundary_ks(ty, limit=64):
    """Per 48-byte coordinate of the encoding, the smallest k in 1..limit such that the coordinate of k*G starts with a
    zero byte (found by walking G, 2G, 3G, .. with the reference): values whose encoding has a zero byte at a field
    boundary.  G1 -> [11, 37], G2 -> [5, 12, 14, 38]."""
    if ty not in _BND:
        from py_ecc import optimized_bls12_381 as O
        G, enc = (O.G1, B.enc_g1) if ty == 'g1' else (O.G2, B.enc_g2)
        found = {}
        p = G
        for k in range(1, limit + 1):
            e = enc(p)
            for off in range(0, len(e), 48):
                if e[off] == 0:
                    found.setdefault(off, k)
            p = O.add(p, G)
        _BND[ty] = sorted(set(found.values()))
    return _BND[ty]


def enc_ks(tier, ty):
    """points used wherever a single encoding is decoded/encoded (round trip, NEG, ADD pairs, MUL, python objects)"""
    P = point_ks(tier)
    return P + [k for k in boundary_ks(ty) if k not in P]


# ------------------------------------------------------------------ implementation side
_ctx = None


def _context():
    global _ctx
    if _ctx is None:
        from pytezos.context.impl import ExecutionContext
        _ctx = ExecutionContext()
    return _ctx


def lit(ty, k):
    """Micheline literal for k*G / the scalar k, built from the reference encoding."""
    if ty in ('g1', 'g2', 'fr'):
        return TYP[ty], {'bytes': renc(ty, k).hex()}
    return {'prim': ty}, {'int': str(k)}          # nat / int


def run(prims, operands):
    """operands: list of (ty, k) top-first.  PUSHes them with the real PUSH instruction (bottom first), executes the
    instruction names in `prims` in order, returns ('ok', class name, value) of the top or ('exc', type, message)."""
    from pytezos.michelson.instructions.base import MichelsonInstruction
    from pytezos.michelson.stack import MichelsonStack
    st = MichelsonStack()
    out = []
    try:
        for ty, k in reversed(operands):
            t, v = lit(ty, k)
            MichelsonInstruction.match({'prim': 'PUSH', 'args': [t, v]}).execute(st, out, _context())
        for p in prims:
            MichelsonInstruction.match({'prim': p}).execute(st, out, _context())
        top = st.items[0]
        return ('ok', type(top).__name__, top.value, len(st.items))
    except Exception as e:  # noqa
        return ('exc', type(e).__name__, str(e)[:200])


def run_values(prim, values):
    """Same, but operands are (ty, raw bytes/int) produced by earlier instructions (for the laws)."""
    from pytezos.michelson.instructions.base import MichelsonInstruction
    from pytezos.michelson.stack import MichelsonStack
    st = MichelsonStack()
    try:
        for ty, v in reversed(values):
            if ty == 'fr' and isinstance(v, int):
                v = B.fr_bytes(v)
            MichelsonInstruction.match({'prim': 'PUSH', 'args': [TYP[ty], {'bytes': v.hex()}]}).execute(st, [], _context())
        MichelsonInstruction.match({'prim': prim}).execute(st, [], _context())
        top = st.items[0]
        return ('ok', type(top).__name__, top.value, len(st.items))
    except Exception as e:  # noqa
        return ('exc', type(e).__name__, str(e)[:200])


def show(res):
    if res[0] == 'exc':
        return f'raises {res[1]}: {res[2]}'
    v = res[2]
    return f'{res[1]} {v.hex()[:24] + ".." if isinstance(v, bytes) else v}'


# ------------------------------------------------------------------ checks: each returns list[(descriptor, detail)]
def opclass(case):
    """operand class string used in descriptors (kept coarse): is the point at infinity among the point operands?"""
    pts = [case['a']]
    if case['check'] == 'add':
        pts.append(case['b'])
    return 'operand at infinity' if any(k % R == 0 for k in pts) else 'finite operands'


def expect(res, ty, want, what, cls_of):
    """Compare an instruction result with the reference; returns [] or one (descriptor, detail)."""
    if res[0] == 'exc':
        return [(f'{what} raises [{cls_of}]', f'{what}: {show(res)}')]
    if res[1] != CLS[ty]:
        return [(f'{what} returns a value of type {res[1]} instead of {CLS[ty]}', f'{what}: got {show(res)}')]
    got = res[2]
    if ty == 'fr':
        if not (isinstance(got, int) and 0 <= got < R):
            return [(f'{what} returns an Fr value outside [0, r)', f'{what}: got {got}')]
        if got != want % R:
            return [(f'{what} wrong field element', f'{what}: got {got}, expected {want % R}')]
        return []
    if got != want:
        return [(f'{what} wrong result [{cls_of}]', f'{what}: got {got.hex()[:40]}.., expected {want.hex()[:40]}..')]
    if res[3] != 1:
        return [(f'{what} leaves {res[3]} items on the stack', what)]
    return []


def check(case):
    c = case['check']
    ty = case.get('ty')
    V = []
    if c == 'roundtrip':
        # encode . decode = id on the type's own to_point / from_point, and decode(encoding) is the reference point
        from py_ecc import optimized_bls12_381 as O
        from pytezos.michelson import types as T
        cls = getattr(T, CLS[ty])
        k = case['a']
        enc = renc(ty, k)
        v = cls.from_value(enc)
        try:
            pt = v.to_point()
            back = cls.from_point(pt).value
        except Exception as e:  # noqa
            return [(f'{ty} decode/encode raises [{klass(k)}]', f'k={k}: {type(e).__name__} {e}')]
        if back != enc:
            V.append((f'{ty} encoding does not round-trip through to_point/from_point [{klass(k)}]',
                      f'k={k}: {enc.hex()[:32]}.. -> to_point -> from_point -> {back.hex()[:32]}..'))
        ref = rpt(ty, k)
        same = (O.is_inf(pt) and O.is_inf(ref)) or (not O.is_inf(pt) and not O.is_inf(ref) and O.eq(pt, ref))
        if not same:
            V.append((f'{ty} to_point does not decode to the encoded point [{klass(k)}]',
                      f'k={k}: decoded {"infinity" if O.is_inf(pt) else "finite point"}, reference {"infinity" if O.is_inf(ref) else "finite"}'))
        try:
            fwd = cls.from_point(ref).value
            if fwd != enc:
                V.append((f'{ty} from_point encodes a projective point wrongly [{klass(k)}]', f'k={k}: {fwd.hex()[:32]}..'))
        except Exception as e:  # noqa
            V.append((f'{ty} from_point raises [{klass(k)}]', f'k={k}: {type(e).__name__} {e}'))
        return V
    if c == 'add':
        a, b = case['a'], case['b']
        if ty == 'fr':
            return expect(run(['ADD'], [('fr', a), ('fr', b)]), 'fr', a + b, 'ADD bls12_381_fr', '')
        return expect(run(['ADD'], [(ty, a), (ty, b)]), ty, renc(ty, a + b), f'ADD bls12_381_{ty}', opclass(case))
    if c == 'neg':
        a = case['a']
        if ty == 'fr':
            return expect(run(['NEG'], [('fr', a)]), 'fr', -a, 'NEG bls12_381_fr', '')
        return expect(run(['NEG'], [(ty, a)]), ty, renc(ty, -a), f'NEG bls12_381_{ty}', opclass(case))
    if c == 'mul':
        a, b = case['a'], case['b']
        if ty == 'fr':
            ta, tb = case['ta'], case['tb']
            return expect(run(['MUL'], [(ta, a), (tb, b)]), 'fr', a * b, f'MUL {ta} {tb}', '')
        V = expect(run(['MUL'], [(ty, a), ('fr', b)]), ty, renc(ty, a * b), f'MUL bls12_381_{ty} bls12_381_fr',
                   opclass({'check': 'mul', 'a': a}))
        return V
    if c == 'int':
        a = case['a']
        res = run(['INT'], [('fr', a)])
        if res[0] == 'exc' or res[1] != 'IntType' or res[2] != a % R:
            return [('INT on bls12_381_fr does not return the canonical representative', f'a={a}: {show(res)}')]
        return []
    if c == 'pushint':
        # PUSH bls12_381_fr <int literal> is the literal reduced modulo r
        from pytezos.michelson.instructions.base import MichelsonInstruction
        from pytezos.michelson.stack import MichelsonStack
        st = MichelsonStack()
        a = case['a']
        try:
            MichelsonInstruction.match({'prim': 'PUSH', 'args': [FRT, {'int': str(a)}]}).execute(st, [], _context())
            top = st.items[0]
            got = top.to_micheline_value(mode='optimized')
        except Exception as e:  # noqa
            return [('PUSH bls12_381_fr <int> raises', f'a={a}: {type(e).__name__} {e}')]
        if type(top).__name__ != CLS['fr'] or got != {'bytes': B.fr_bytes(a).hex()}:
            return [('PUSH bls12_381_fr <int> is not the literal modulo r', f'a={a}: {got}')]
        return []
    if c == 'mulseq':
        # call history: the same point multiplied by every scalar of the sequence, then again in reversed order, in one
        # process; EVERY call is judged against the reference (a result must not depend on the calls made before it)
        a, scalars = case['a'], list(case['scalars'])
        for pos, b in enumerate(scalars + scalars[::-1]):
            vs = expect(run(['MUL'], [(ty, a), ('fr', b)]), ty, renc(ty, a * b),
                        f'MUL bls12_381_{ty} bls12_381_fr (one call of a sequence of multiplications of the same point)',
                        opclass({'check': 'mul', 'a': a}))
            if vs:
                return [(vs[0][0], f'call #{pos + 1} of the sequence, scalar {b}: {vs[0][1]}')]
        return []
    if c == 'pyobj':
        return pyobj(case)
    if c == 'laws':
        return laws(case)
    if c == 'frlaws':
        return frlaws(case)
    if c == 'pairing':
        return pairing(case)
    raise ValueError(c)


def _val(res):
    return res[2] if res[0] == 'ok' else None


def pyobj(case):
    """Encodings entered through the python-object layer (what ContractInterface parameters / storage use): raw bytes, bare
    hex text, 0x-prefixed hex text (and an int for Fr) of the reference encoding must all decode to the encoded value,
    encode back to the same bytes, and behave as that group element (v + (-v) = O through the real NEG / ADD)."""
    from pytezos.michelson import types as T
    from pytezos.michelson.instructions.base import MichelsonInstruction
    from pytezos.michelson.stack import MichelsonStack
    ty, k, form = case['ty'], case['a'], case['form']
    cls = getattr(T, CLS[ty])
    enc = renc(ty, k)
    obj = {'bytes': enc, 'hex': enc.hex(), '0xhex': '0x' + enc.hex(), 'int': k % R}[form]
    what = f'{ty} from_python_object(<{form}>)'
    try:
        v = cls.from_python_object(obj)
        val = v.value
        back = v.to_micheline_value(mode='optimized')
        py = v.to_python_object()
    except Exception as e:  # noqa
        return [(f'{what} / re-encoding raises', f'k={k}: {type(e).__name__} {str(e)[:160]}')]
    want = k % R if ty == 'fr' else enc
    if type(v) is not cls or val != want:
        shown = f'{len(val)} bytes {val.hex()[:32]}..' if isinstance(val, bytes) else val
        return [(f'{what} does not decode to the encoded value', f'k={k}: {enc.hex()[:32]}.. decoded as {shown}')]
    if back != {'bytes': enc.hex()} or py != want:
        return [(f'{what} does not encode back to the same bytes', f'k={k}: micheline {str(back)[:60]}, python object {str(py)[:60]}')]
    # the decoded value is that group element: v + (-v) = O
    st = MichelsonStack()
    try:
        st.push(v)
        st.push(cls.from_python_object(obj))
        for prim in ('NEG', 'ADD'):
            MichelsonInstruction.match({'prim': prim}).execute(st, [], _context())
        top = st.items[0]
        res = ('ok', type(top).__name__, top.value, len(st.items))
    except Exception as e:  # noqa
        res = ('exc', type(e).__name__, str(e)[:200])
    zero = 0 if ty == 'fr' else renc(ty, 0)
    if res[0] != 'ok' or res[1] != CLS[ty] or res[2] != zero:
        return [(f'{what}: v + (-v) is not the neutral element', f'k={k}: {show(res)}')]
    return []


def laws(case):
    """Group laws on the implementation's own outputs.  case: ty, law, a, b[, c]"""
    ty, law = case['ty'], case['law']
    a, b, c = case.get('a'), case.get('b'), case.get('c')
    ea, eb = renc(ty, a), (renc(ty, b) if b is not None and law not in ('distrib_scalar',) else None)
    O = renc(ty, 0)
    seen_inf = []

    def op(prim, *vals):
        res = run_values(prim, list(vals))
        if any(v == O for _, v in vals) or (res[0] == 'ok' and res[2] == O):
            seen_inf.append(1)
        return res

    def bad(name, l, r_):
        cl = 'infinity among operands or intermediate results' if seen_inf else 'finite points only'
        return [(f'{name} fails on bls12_381_{ty} [{cl}]', f'{case}: left {show(l)} right {show(r_)}')]
    if law == 'identity':
        l, r_ = op('ADD', (ty, ea), (ty, O)), op('ADD', (ty, O), (ty, ea))
        if _val(l) != ea or _val(r_) != ea:
            return bad('identity P+O=O+P=P', l, r_)
    elif law == 'inverse':
        n = op('NEG', (ty, ea))
        if n[0] != 'ok' or not isinstance(n[2], bytes):
            return bad('inverse P+(-P)=O', n, n)
        l = op('ADD', (ty, ea), (ty, n[2]))
        if _val(l) != O:
            return bad('inverse P+(-P)=O', l, ('ok', '', O, 1))
        nn = op('NEG', (ty, n[2]))
        if _val(nn) != ea:
            return bad('involution -(-P)=P', nn, ('ok', '', ea, 1))
    elif law == 'commut':
        l, r_ = op('ADD', (ty, ea), (ty, eb)), op('ADD', (ty, eb), (ty, ea))
        if l[0] != 'ok' or _val(l) != _val(r_):
            return bad('commutativity P+Q=Q+P', l, r_)
    elif law == 'assoc':
        ec = renc(ty, c)
        pq, qr = op('ADD', (ty, ea), (ty, eb)), op('ADD', (ty, eb), (ty, ec))
        if pq[0] != 'ok' or qr[0] != 'ok':
            return bad('associativity (P+Q)+R=P+(Q+R)', pq, qr)
        l, r_ = op('ADD', (ty, pq[2]), (ty, ec)), op('ADD', (ty, ea), (ty, qr[2]))
        if l[0] != 'ok' or _val(l) != _val(r_):
            return bad('associativity (P+Q)+R=P+(Q+R)', l, r_)
    elif law == 'distrib_point':      # k(P+Q) = kP + kQ ; c is the scalar
        s = pq = op('ADD', (ty, ea), (ty, eb))
        if pq[0] != 'ok':
            return bad('distributivity k(P+Q)=kP+kQ', pq, pq)
        l = op('MUL', (ty, pq[2]), ('fr', c))
        ka, kb = op('MUL', (ty, ea), ('fr', c)), op('MUL', (ty, eb), ('fr', c))
        if ka[0] != 'ok' or kb[0] != 'ok':
            return bad('distributivity k(P+Q)=kP+kQ', ka, kb)
        r_ = op('ADD', (ty, ka[2]), (ty, kb[2]))
        if l[0] != 'ok' or _val(l) != _val(r_):
            return bad('distributivity k(P+Q)=kP+kQ', l, r_)
        del s
    elif law == 'distrib_scalar':     # (b+c)P = bP + cP ; b, c scalars
        s = op('ADD', ('fr', b), ('fr', c))
        if s[0] != 'ok' or not isinstance(s[2], int):
            return bad('distributivity (a+b)P=aP+bP', s, s)
        l = op('MUL', (ty, ea), ('fr', s[2]))
        pb, pc = op('MUL', (ty, ea), ('fr', b)), op('MUL', (ty, ea), ('fr', c))
        if pb[0] != 'ok' or pc[0] != 'ok':
            return bad('distributivity (a+b)P=aP+bP', pb, pc)
        r_ = op('ADD', (ty, pb[2]), (ty, pc[2]))
        if l[0] != 'ok' or _val(l) != _val(r_):
            return bad('distributivity (a+b)P=aP+bP', l, r_)
    elif law == 'mul_units':          # 0*P = O, 1*P = P, (r-1)*P = -P
        z, o, m = op('MUL', (ty, ea), ('fr', 0)), op('MUL', (ty, ea), ('fr', 1)), op('MUL', (ty, ea), ('fr', R - 1))
        n = op('NEG', (ty, ea))
        if _val(z) != O:
            return bad('0*P=O', z, ('ok', '', O, 1))
        if _val(o) != ea:
            return bad('1*P=P', o, ('ok', '', ea, 1))
        if m[0] != 'ok' or _val(m) != _val(n):
            return bad('(r-1)*P=-P', m, n)
    else:
        raise ValueError(law)
    return []


def frlaws(case):
    a, b, c = case['a'], case['b'], case['c']

    def op(prim, *vals):
        res = run_values(prim, [('fr', v) for v in vals])
        return res

    def val(res):
        return res[2] if res[0] == 'ok' and res[1] == CLS['fr'] and isinstance(res[2], int) else None

    def bad(name, l, r_):
        return [(f'Fr {name} fails', f'a={a} b={b} c={c}: left {show(l)} right {show(r_)}')]
    ab, ba = op('ADD', a, b), op('ADD', b, a)
    if val(ab) is None or val(ab) != val(ba):
        return bad('a+b=b+a', ab, ba)
    mab, mba = op('MUL', a, b), op('MUL', b, a)
    if val(mab) is None or val(mab) != val(mba):
        return bad('a*b=b*a', mab, mba)
    bc = op('ADD', b, c)
    if val(bc) is None:
        return bad('(a+b)+c=a+(b+c)', bc, bc)
    l, r_ = op('ADD', val(ab), c), op('ADD', a, val(bc))
    if val(l) is None or val(l) != val(r_):
        return bad('(a+b)+c=a+(b+c)', l, r_)
    mbc = op('MUL', b, c)
    if val(mbc) is None:
        return bad('(a*b)*c=a*(b*c)', mbc, mbc)
    l, r_ = op('MUL', val(mab), c), op('MUL', a, val(mbc))
    if val(l) is None or val(l) != val(r_):
        return bad('(a*b)*c=a*(b*c)', l, r_)
    mac = op('MUL', a, c)
    l = op('MUL', a, val(bc))
    r_ = op('ADD', val(mab), val(mac)) if val(mac) is not None else mac
    if val(l) is None or val(l) != val(r_):
        return bad('a*(b+c)=a*b+a*c', l, r_)
    z, o = op('ADD', a, 0), op('MUL', a, 1)
    if val(z) != a % R or val(o) != a % R:
        return bad('a+0=a, a*1=a', z, o)
    n = op('NEG', a)
    if val(n) is None:
        return [('Fr a+(-a)=0 fails: NEG does not return a field element', f'a={a}: NEG gives {show(n)}')]
    s = op('ADD', a, val(n))
    if val(s) != 0:
        return bad('a+(-a)=0', s, ('ok', CLS['fr'], 0, 1))
    return []


PAIR_LIST_T = {'prim': 'list', 'args': [{'prim': 'pair', 'args': [G1T, G2T]}]}


def pairing_run(coefs):
    from pytezos.michelson.instructions.base import MichelsonInstruction
    from pytezos.michelson.stack import MichelsonStack
    st = MichelsonStack()
    lst = [{'prim': 'Pair', 'args': [{'bytes': renc('g1', a).hex()}, {'bytes': renc('g2', b).hex()}]} for a, b in coefs]
    try:
        MichelsonInstruction.match({'prim': 'PUSH', 'args': [PAIR_LIST_T, lst]}).execute(st, [], _context())
        MichelsonInstruction.match({'prim': 'PAIRING_CHECK'}).execute(st, [], _context())
        top = st.items[0]
        return ('ok', type(top).__name__, top.value, len(st.items))
    except Exception as e:  # noqa
        return ('exc', type(e).__name__, str(e)[:200])


def pairing(case):
    coefs = [tuple(p) for p in case['pairs']]
    want = sum(a * b for a, b in coefs) % R == 0
    res = pairing_run(coefs)
    has_inf = any(a % R == 0 or b % R == 0 for a, b in coefs)
    rep_ = len(set((a % R, b % R) for a, b in coefs)) < len(coefs)
    cl = 'a point at infinity in the list' if has_inf else ('empty list' if not coefs else
                                                             'finite points, a pair repeated' if rep_ else 'finite points')
    if res[0] == 'exc':
        return [(f'PAIRING_CHECK raises [{cl}]', f'pairs={coefs}: {show(res)}')]
    if res[1] != 'BoolType' or res[2] is not want:
        return [(f'PAIRING_CHECK returns {res[2]} where the product of pairings is {"one" if want else "not one"} [{cl}]',
                 f'pairs={coefs} (coefficients of G1,G2): exponent sum {sum(a * b for a, b in coefs)}; got {show(res)}')]
    return []


# ------------------------------------------------------------------ enumeration
def nontrivial(case):
    c = case['check']
    ks = [case.get(x) for x in ('a', 'b', 'c') if case.get(x) is not None]
    if c == 'pairing':
        ps = case['pairs']
        cancels = bool(ps) and sum(a * b for a, b in ps) % R == 0 and any(a * b % R for a, b in ps)
        repeated = len(set((a % R, b % R) for a, b in ps)) < len(ps)
        return cancels or repeated or any(a % R == 0 or b % R == 0 for a, b in ps)
    if c == 'mulseq':
        return True
    if c == 'pyobj':
        ty, k = case['ty'], case['a']
        if case['form'] in ('hex', '0xhex'):
            return True
        return k % R in (0, R - 1) or (ty != 'fr' and k in boundary_ks(ty))
    ty = case.get('ty')
    if ty in ('g1', 'g2'):
        pts = [case.get('a')] + ([case.get('b')] if c in ('add', 'laws') and case.get('law') != 'distrib_scalar' else [])
        if any(k in boundary_ks(ty) for k in pts if k is not None):
            return True
        if c == 'mul' and case['b'] in ALIAS:
            return True
    if c in ('add', 'laws') and len(ks) >= 2 and ((ks[0] + ks[1]) % R == 0 or ks[0] % R == ks[1] % R):
        return True
    return any(k % R in (0, R - 1) or not (0 <= k < R) for k in ks)


def cases_of(spec, tier):
    kind = spec[0]
    P = point_ks(tier)
    S = mul_scalars(tier)
    F = fr_set(tier)
    if kind == 'basic':
        ty = spec[1]
        E = enc_ks(tier, ty)
        for k in E:
            yield {'check': 'roundtrip', 'ty': ty, 'a': k}
        for k in E:
            yield {'check': 'neg', 'ty': ty, 'a': k}
        for a, b in itertools.product(E, E):
            yield {'check': 'add', 'ty': ty, 'a': a, 'b': b}
        for k in E:
            yield {'check': 'laws', 'ty': ty, 'law': 'identity', 'a': k}
            yield {'check': 'laws', 'ty': ty, 'law': 'inverse', 'a': k}
        for a, b in itertools.product(E, E):
            yield {'check': 'laws', 'ty': ty, 'law': 'commut', 'a': a, 'b': b}
    elif kind == 'pyobj':
        ty = spec[1]
        for k in (F if ty == 'fr' else enc_ks(tier, ty)):
            for form in ('bytes', 'hex', '0xhex') + (('int',) if ty == 'fr' else ()):
                yield {'check': 'pyobj', 'ty': ty, 'a': k, 'form': form}
    elif kind == 'assoc':
        ty, a = spec[1], spec[2]
        for b, c in itertools.product(P, P):
            yield {'check': 'laws', 'ty': ty, 'law': 'assoc', 'a': a, 'b': b, 'c': c}
    elif kind == 'mul':
        ty, a = spec[1], spec[2]
        for s in S:
            yield {'check': 'mul', 'ty': ty, 'a': a, 'b': s}
        yield {'check': 'laws', 'ty': ty, 'law': 'mul_units', 'a': a}
        yield {'check': 'mulseq', 'ty': ty, 'a': a, 'scalars': seq_scalars(tier)}
    elif kind == 'distp':
        ty, a, k = spec[1], spec[2], spec[3]
        for b in P:
            yield {'check': 'laws', 'ty': ty, 'law': 'distrib_point', 'a': a, 'b': b, 'c': k}
    elif kind == 'dists':
        ty, a, s1 = spec[1], spec[2], spec[3]
        for s2 in dist_scalars(tier):
            yield {'check': 'laws', 'ty': ty, 'law': 'distrib_scalar', 'a': a, 'b': s1, 'c': s2}
    elif kind == 'fr':
        for a in F:
            yield {'check': 'neg', 'ty': 'fr', 'a': a}
            yield {'check': 'int', 'ty': 'fr', 'a': a}
        for a in ZINTS:
            yield {'check': 'pushint', 'ty': 'fr', 'a': a}
        for a, b in itertools.product(F, F):
            yield {'check': 'add', 'ty': 'fr', 'a': a, 'b': b}
            yield {'check': 'mul', 'ty': 'fr', 'ta': 'fr', 'tb': 'fr', 'a': a, 'b': b}
        for z in ZINTS:
            for a in F:
                zt = 'nat' if z >= 0 else 'int'
                yield {'check': 'mul', 'ty': 'fr', 'ta': zt, 'tb': 'fr', 'a': z, 'b': a}
                yield {'check': 'mul', 'ty': 'fr', 'ta': 'fr', 'tb': zt, 'a': a, 'b': z}
                if z >= 0:
                    yield {'check': 'mul', 'ty': 'fr', 'ta': 'int', 'tb': 'fr', 'a': z, 'b': a}
    elif kind == 'frlaws':
        a = spec[1]
        for b, c in itertools.product(F, F):
            yield {'check': 'frlaws', 'ty': 'fr', 'a': a, 'b': b, 'c': c}
    elif kind == 'pairing':
        for pairs in spec[1]:
            yield {'check': 'pairing', 'pairs': [list(p) for p in pairs]}
    else:
        raise ValueError(kind)


def pairing_lists(tier):
    C = PAIR_COEF[tier]
    out = [()]
    out += [((a, b),) for a in C for b in C]
    out += [((a, b), (c, d)) for a in C for b in C for c in C for d in C]
    # three (four) pairs: lists in which the same pair occurs two or three times and the multiplicity decides the verdict,
    # on the G1 side and on the G2 side
    C3 = [1, -1, -2] if tier == 'quick' else [1, 2, -1, -2, 0, -3]
    out += [((a, 1), (c, 1), (e, 1)) for a in C3 for c in C3 for e in C3]
    out += [((1, a), (1, c), (1, e)) for a in C3 for c in C3 for e in C3 if not a == c == e == 1]
    if tier != 'quick':
        C4 = [1, -1, -3]
        out += [tuple((a, 1) for a in t) for t in itertools.product(C4, repeat=4)]
    return out


def shards(tier, seed):
    P = point_ks(tier)
    S = mul_scalars(tier)
    F = fr_set(tier)
    sh = [('fr',)]
    for ty in ('g1', 'g2'):
        sh.append(('basic', ty))
        sh += [('assoc', ty, a) for a in P]
        sh += [('mul', ty, a) for a in enc_ks(tier, ty)]
        sh += [('distp', ty, a, k) for a in P for k in dist_scalars(tier)]
        sh += [('dists', ty, a, s1) for a in P for s1 in dist_scalars(tier)]
    sh += [('frlaws', a) for a in F]
    sh += [('pyobj', ty) for ty in ('g1', 'g2', 'fr')]
    pl = pairing_lists(tier)
    # cost-balanced chunks: a pair with both coefficients non-zero costs one Miller loop + final exponentiation
    pl.sort(key=lambda ps: -sum(1 for a, b in ps if a and b))
    nchunks = 48 if tier == 'quick' else 160
    chunks = [pl[i::nchunks] for i in range(nchunks)]
    sh = [('pairing', ch) for ch in chunks if ch] + sh     # longest first
    return sh


def label(case, vs):
    c = case['check']
    if c == 'pairing':
        want = sum(a * b for a, b in case['pairs']) % R == 0
        return f'pairing n={len(case["pairs"])} expected={want} ' + ('ok' if not vs else 'VIOLATION')
    tag = case.get('law', '')
    tag = tag or case.get('form', '')
    return f'{c}{":" + tag if tag else ""} {case.get("ty")} ' + ('ok' if not vs else 'VIOLATION')


def run_shard(spec, tier):
    r = Result()
    case = None
    for case in cases_of(spec, tier):
        r.ev()
        if nontrivial(case):
            r.nt(sorted(case.items(), key=lambda kv: kv[0]))
        vs = check(case)
        r.out(label(case, vs))
        for d, detail in vs:
            r.viol(d, case, detail)
        if spec[0] in ('basic', 'fr', 'pyobj') and len(r.samples) < 2 and nontrivial(case):
            r.sample(case)
    if case is not None:
        r.sample(case)
    return r


def replay(case):
    return check(case)


def observe(case):
    c = case['check']
    if c == 'pairing':
        return pairing_run([tuple(p) for p in case['pairs']])
    return [list(map(str, v)) for v in check(case)]
