"""C26 — RPC requests retry exactly the transient node failures.

Fault enumeration over the complete environment-answer tree: after each answer the real
RpcNode.request loop either asks again (the explorer branches over the whole alphabet)
or returns / raises (leaf).  The oracle is the statement, written as `expected()`.
"""
from __future__ import annotations

from mc.engine.report import Result
from mc.fakes import FakeResponse, patched_http

ID = 'C26'
LEVEL = 'fault_enumeration'
LEVEL_TEXT = ('the retry loop is a finite-state machine over (attempt number, class of the last answer); the complete answer tree up to the attempt '
              'cap is enumerated, so every reachable behaviour of the loop over the answer alphabet is decided against the statement')
RULE = ('complete tree of node answers: every sequence over the 17-answer alphabet that the real retry loop can '
        'consume (it asks for another answer or finishes); non-trivial = distinct sequences with >=1 retry-eligible '
        'answer; leaves compared with the statement: #requests, delay list, returned JSON / raised error of the last response')
BOUND = {'quick': 'all answer sequences up to the attempt cap (depth<=7), method GET',
         'thorough': 'same tree x {GET,POST,PUT,DELETE} x timeout in {None,5}'}
ASSUMPTIONS = ['requests.request and time.sleep (as imported by pytezos.rpc.node) are the only environment seams',
               'a JSON error list that contains a proto.* entry is not transient whatever its other entries are (the statement: "errors are temporary '
               'and not protocol errors"); answers mixing a proto.* error with the prevalidator TEXT marker, or non-protocol temporary with '
               'non-protocol permanent errors, are left out: the statement does not order those rules']

T1 = [{'kind': 'temporary', 'id': 'node.prevalidation.busy'}]
T2 = [{'kind': 'permanent', 'id': 'a.b'}, {'kind': 'temporary', 'id': 'c.d'}]
ALPHABET = {
    # name: (status, body, content-type, transient?)
    'ok': (200, {'ok': 1}, 'application/json', False),
    't500': (500, T1, 'application/json', True),
    't500x2': (500, [T1[0], {'kind': 'temporary', 'id': 'x.y'}], 'application/json', True),
    't503': (503, T1, 'application/json', True),
    'preval': (500, 'Assert_failure src/lib_shell/prevalidator.ml:1918', 'text/plain', True),
    'perm500': (500, [{'kind': 'permanent', 'id': 'node.bad'}], 'application/json', False),
    'proto500': (500, [{'kind': 'temporary', 'id': 'proto.alpha.michelson_v1.script_rejected'}], 'application/json', False),
    'plain500': (500, 'internal error', 'text/plain', False),
    'plain503': (503, 'unavailable', 'text/html', False),
    'badjson500': (500, '{not json', 'application/json', False),
    'e401': (401, 'no', 'text/plain', False),
    'e404': (404, 'no', 'text/plain', False),
    't400': (400, T1, 'application/json', False),
    # a body that contains a protocol error is a domain failure even if another entry is temporary (either order)
    'mixproto500': (500, [{'kind': 'temporary', 'id': 'node.prevalidation.busy'}, {'kind': 'permanent', 'id': 'proto.alpha.contract.balance_too_low'}], 'application/json', False),
    'protomix500': (500, [{'kind': 'permanent', 'id': 'proto.alpha.gas_exhausted.operation'}, {'kind': 'temporary', 'id': 'node.mempool.busy'}], 'application/json', False),
    # client errors are never retried, whatever their body looks like
    'preval400': (400, 'Assert_failure src/lib_shell/prevalidator.ml:1918', 'text/plain', False),
    't404': (404, T1, 'application/json', False),
}
NAMES = list(ALPHABET)
DELAYS = [0.25, 0.5, 1.0, 2.0, 2.0]


class NeedMore(Exception):
    pass


def drive(seq, method='GET', timeout=None):
    """Run the real RpcNode.request against the answer sequence; returns an observation dict.
    Raises NeedMore if the loop asks for an answer beyond the sequence."""
    from pytezos.rpc.node import RpcError, RpcNode
    calls, sleeps = [], []
    it = iter(seq)

    def fake_request(**kw):
        calls.append((kw.get('method'), kw.get('url'), kw.get('timeout')))
        try:
            name = next(it)
        except StopIteration:
            raise NeedMore()
        st, body, ct, _ = ALPHABET[name]
        return FakeResponse(st, body, ct)

    node = RpcNode('http://n.invalid')
    obs = {}
    with patched_http(fake_request, sleeps.append):
        try:
            kw = {} if timeout is None else {'timeout': timeout}
            res = node.request(method, 'a/b', **kw)
            obs['result'] = ('ok', res.json())
        except NeedMore:
            raise
        except RpcError as e:
            obs['result'] = ('rpc_error', type(e).__name__, list(e.args))
        except Exception as e:  # anything else is not what the statement allows
            obs['result'] = ('crash', type(e).__name__, str(e))
    obs['calls'] = calls
    obs['sleeps'] = sleeps
    return obs


def expected(seq, method, timeout):
    n = 0
    for i, name in enumerate(seq):
        n = i + 1
        if ALPHABET[name][3] and i < 5:
            continue
        break
    last = seq[n - 1]
    st, body, ct, _ = ALPHABET[last]
    if st == 200:
        result = ('ok', body)
    elif st == 401:
        result = ('rpc_error', None, ['Unauthorized: a/b'])
    elif st == 404:
        result = ('rpc_error', None, ['Not found: a/b'])
    elif isinstance(body, list):
        result = ('rpc_error', None, [body[-1]])
    else:
        result = ('rpc_error', None, [body])
    return {'n': n, 'sleeps': DELAYS[:n - 1], 'result': result,
            'calls': [(method, 'http://n.invalid/a/b', timeout or 60)] * n}


def check(seq, method='GET', timeout=None):
    obs = drive(seq, method, timeout)
    exp = expected(seq, method, timeout)
    out = []
    if len(obs['calls']) != exp['n']:
        why = 'retried a non-transient answer' if len(obs['calls']) > exp['n'] else 'did not retry a transient answer'
        if len(seq) >= 6 and len(obs['calls']) > 6:
            why = 'more than six attempts'
        out.append((why, f'seq={seq} requests={len(obs["calls"])} expected={exp["n"]}'))
    elif obs['sleeps'] != exp['sleeps']:
        out.append(('wrong delays', f'seq={seq} sleeps={obs["sleeps"]} expected={exp["sleeps"]}'))
    elif obs['calls'] != exp['calls']:
        out.append(('request arguments differ between attempts', f'seq={seq} calls={obs["calls"]}'))
    r, e = obs['result'], exp['result']
    if r[0] != e[0] or (r[0] == 'ok' and r[1] != e[1]) or (r[0] == 'rpc_error' and r[2] != e[2]):
        out.append((f'wrong final outcome after {ALPHABET[seq[len(obs["calls"]) - 1]][0] if obs["calls"] and len(obs["calls"]) <= len(seq) else "?"}',
                    f'seq={seq} got={r} expected={e}'))
    return out, obs


def explore(prefix, method, timeout, r: Result):
    try:
        vs, obs = check(prefix, method, timeout)
    except NeedMore:
        r.transitions += 1
        for a in NAMES:
            explore(prefix + [a], method, timeout, r)
        return
    r.ev()
    case = {'seq': prefix, 'method': method, 'timeout': timeout}
    if any(ALPHABET[a][3] for a in prefix):
        r.nt((tuple(prefix), method, timeout))
    r.out(f'{len(obs["calls"])} requests -> {obs["result"][0]}')
    for d, detail in vs:
        r.viol(d, case, detail)
    if len(prefix) in (1, 3, 6) and prefix[-1] in ('ok', 'perm500') and len(r.samples) < 4:
        r.sample(case)
    r._last = case


def shards(tier, seed):
    if tier == 'quick':
        return [(first, 'GET', None) for first in NAMES]
    return [(first, m, t) for first in NAMES for m in ('GET', 'POST', 'PUT', 'DELETE') for t in (None, 5)]


def run_shard(spec, tier):
    first, method, timeout = spec
    r = Result()
    explore([first], method, timeout, r)
    r.sample(r._last)
    return r


def replay(case):
    try:
        return check(list(case['seq']), case.get('method', 'GET'), case.get('timeout'))[0]
    except NeedMore:
        return [('loop asks for more answers than the recorded sequence', str(case))]


def observe(case):
    return drive(list(case['seq']), case.get('method', 'GET'), case.get('timeout'))
