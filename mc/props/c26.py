"""C26 — RPC requests retry exactly the transient node failures.

Fault enumeration over the complete environment-answer tree: after each answer the real
retry loop either asks again (the explorer branches over the whole alphabet) or returns /
raises (leaf).  The oracle is the statement, written as `expected()`.

Three more dimensions are enumerated on top of the answer tree:
* ENTRY  - the layer through which the request is issued (RpcNode.request, the RpcNode verb helpers, a two-node
           RpcMultiNode, the public query layer `ShellQuery(...).chains.main.chain_id()` with and without query
           parameters, the `_get/_post/_put/_delete` helpers of the query layer).  The HTTP seam is below all of them, so
           "a request is sent again only after a transient server error" is judged on what reaches the node.
* PAD    - the size of the answer bodies: every body of the alphabet padded before AND after its deciding part
           (text marker / JSON error entries) so that the decision cannot be taken from a bounded head or tail.
* OPTS   - the keyword options a request can carry down to the HTTP seam: stream (absent/True/False), params (absent/{}/non-empty),
           a json body, extra headers of the node object, another requests option (allow_redirects), next to method and timeout; and the
           streaming entry layers of the query layer that set them (`shell.monitor.*()`, `shell.network.peers[..].log(monitor=True)`).
           The retry rule of the statement depends on none of them.
* SESSION - several requests issued one after the other on the SAME client objects (process/object history); every request
           of a session is judged on its own against the statement, which knows no history.
"""
from __future__ import annotations

import json as _json

from mc.engine.report import Result
from mc.fakes import FakeResponse, patched_http

ID = 'C26'
LEVEL = 'fault_enumeration'
LEVEL_TEXT = ('the retry loop is a finite-state machine over (attempt number, class of the last answer); the complete answer tree up to the attempt '
              'cap is enumerated for every entry layer (incl. the streaming monitor queries), body size and single keyword option of a request, and the '
              'whole product of keyword options over a reduced alphabet, so every reachable behaviour of the loop over the answer alphabet is decided '
              'against the statement, which mentions no option; sessions of two and three requests on the same client objects show that this machine '
              'has no memory')
RULE = ('complete tree of node answers: every sequence over the 17-answer alphabet that the real retry loop can consume (it asks for another '
        'answer or finishes), per (entry layer, method, timeout, body padding, keyword options); a sequence the statement calls finished but the code '
        'continues is closed with one success answer and reported.  Keyword options: every combination of stream {absent,True,False} x params '
        '{absent,{},non-empty} x json body x node headers x allow_redirects that the entry layer has keywords for, x method x timeout, each with every '
        'statement-complete sequence over the reduced alphabet ok/t500/preval/perm500/e404.  Sessions: every ordered pair (triple) of statement-complete '
        'sequences over a reduced alphabet issued on the same client objects (also alternating streamed / plain requests), each request judged '
        'separately.  non-trivial = distinct (dimension, sequence) with >=1 retry-eligible answer (sessions: in a request after the first).  Leaves '
        'compared with the statement: #requests, delay list, identical request arguments in every attempt, returned JSON (streaming layers: JSON lines) / '
        'raised error of the last response')
BOUND = {'quick': 'all answer sequences up to the attempt cap (depth<=7) as complete trees: GET x entries {request, verb, multi, query, query+params, _verb, monitor, '
                  'peers log(monitor=True)}; request x {stream=True, POST+timeout=5+all options together}; multi x stream=True; '
                  'body padding {0, 1200} chars on both sides (request, query); one big answer (padding 5000, 70000) at every position of a sequence after 0..5 small '
                  'temporary errors with every continuation over ok/t500/perm500/e404 (request, query; 5000: monitor, request+stream); keyword options: the full product '
                  '(72 combinations for request, 36 multi, 6/12 verbs, 6 monitor, 2 others) x methods x timeout {None,5} x 253 sequences; sessions: 253x253 pairs '
                  '(alphabet ok/t500/preval/perm500/e404) on one RpcNode, 19x19 pairs x 10 entry/option patterns incl. RpcMultiNode, one reused query object, monitor '
                  'then query, streamed then plain request; 19^3 triples x 4 patterns',
         'thorough': 'same trees x {GET,POST,PUT,DELETE} x timeout in {None,5} for request/verb, multi/_verb x 4 methods, complete padded trees {300,1200,4200,17000}; every '
                     'single keyword option x {GET,POST} and all options x 4 methods for request, 4 option sets for multi, 5 each for verb/_verb, 3 for monitor, headers for '
                     'peers log/query; padded 1200 trees for monitor, peers log, request+stream; one big answer per sequence padded {300,5000,70000} x 7 entries and '
                     'request+stream, 1100000 x {request}; keyword option product as in quick; pair sessions 253x253 for 10 entry/option patterns (one with bodies padded '
                     '1200), 19x19 for 5 more, triples 19^3 x 9 patterns'}
ASSUMPTIONS = ['requests.request and time.sleep (as imported by pytezos.rpc.node) are the only environment seams',
               'a JSON error list that contains a proto.* entry is not transient whatever its other entries are (the statement: "errors are temporary '
               'and not protocol errors"); answers mixing a proto.* error with the prevalidator TEXT marker, or non-protocol temporary with '
               'non-protocol permanent errors, are left out: the statement does not order those rules',
               'padding keeps the class of an answer: text bodies get marker-free dump lines before and after, JSON error lists get copies of their '
               'first entry in front and of their last entry behind (each with a filler message)']

T1 = [{'kind': 'temporary', 'id': 'node.prevalidation.busy'}]
ALPHABET = {
    # name: (status, body, content-type, transient?)
    'ok': (200, {'ok': 1}, 'application/json', False),
    't500': (500, T1, 'application/json', True),
    't500x2': (500, [T1[0], {'kind': 'temporary', 'id': 'x.y'}], 'application/json', True),
    't503': (503, T1, 'application/json', True),
    'preval': (500, 'Assert_failure src/lib_shell/prevalidator.ml:1918', 'text/plain', True),
    'perm500': (500, [{'kind': 'permanent', 'id': 'node.bad'}], 'application/json', False),
    'proto500': (500, [{'kind': 'temporary', 'id': 'proto.alpha.michelson_v1.script_rejected'}], 'application/json', False),
    'plain500': (500, 'internal error', 'text/plain', False),
    'plain503': (503, 'unavailable', 'text/html', False),
    'badjson500': (500, '{not json', 'application/json', False),
    'e401': (401, 'no', 'text/plain', False),
    'e404': (404, 'no', 'text/plain', False),
    't400': (400, T1, 'application/json', False),
    # a body that contains a protocol error is a domain failure even if another entry is temporary (either order)
    'mixproto500': (500, [{'kind': 'temporary', 'id': 'node.prevalidation.busy'}, {'kind': 'permanent', 'id': 'proto.alpha.contract.balance_too_low'}], 'application/json', False),
    'protomix500': (500, [{'kind': 'permanent', 'id': 'proto.alpha.gas_exhausted.operation'}, {'kind': 'temporary', 'id': 'node.mempool.busy'}], 'application/json', False),
    # client errors are never retried, whatever their body looks like
    'preval400': (400, 'Assert_failure src/lib_shell/prevalidator.ml:1918', 'text/plain', False),
    't404': (404, T1, 'application/json', False),
}
NAMES = list(ALPHABET)
DELAYS = [0.25, 0.5, 1.0, 2.0, 2.0]
CAP = 6
R2 = ['ok', 't500', 'preval', 'perm500', 'e404']    # session alphabet: two transient shapes, success, server and client failure
R1 = ['ok', 't500', 'perm500', 'e404']

# ---------------------------------------------------------------------------------------------------------------------
# bodies of any size
_DUMP_HEAD = 'Uncaught exception in RPC handler while processing operation 0x'
_DUMP_TAIL = 'Called from Lwt.callback in file "src/core/lwt.ml", line 1849\n'
_FILL = 'injection of the operation was delayed, the worker queue is being flushed '
_BODY = {}


def transient(letter):
    return ALPHABET[letter.split('+')[0]][3]


def padded(name, pad):
    """(status, body, text, content-type) of answer `name` with about `pad` characters before and after its deciding part.
    A letter spelled 'name+P' carries its own padding P whatever the padding of the case is."""
    k = (name, pad)
    if k not in _BODY:
        if '+' in name:
            name, pad = name.split('+')[0], int(name.split('+')[1])
        st, body, ct, _ = ALPHABET[name]
        if pad:
            if isinstance(body, str):
                head = (_DUMP_HEAD + 'a3f1' * (pad // 4 + 1))[:pad - 1] + '\n'
                tail = '\n' + (_DUMP_TAIL * (pad // len(_DUMP_TAIL) + 1))[:pad]
                body = head + body + tail
            elif isinstance(body, list):
                k_fill = pad // 128 + 1
                body = [dict(body[0], msg=_FILL)] * k_fill + body + [dict(body[-1], msg=_FILL)] * k_fill
            else:
                body = {'head': 'x' * pad, **body, 'tail': 'y' * pad}
        _BODY[k] = (st, body, body if isinstance(body, str) else _json.dumps(body), ct)
    return _BODY[k]


# ---------------------------------------------------------------------------------------------------------------------
# entry layers
BASES = ['http://n.invalid', 'http://m.invalid']
QPATH = '/chains/main/chain_id'
ENTRIES = {
    # name: (path as reported in 401/404 messages, honours the timeout argument?, query params seen by the seam, methods)
    'request': ('a/b', True, None, ('GET', 'POST', 'PUT', 'DELETE')),
    'verb': ('a/b', True, None, ('GET', 'POST', 'PUT', 'DELETE')),
    'multi': ('a/b', True, None, ('GET', 'POST', 'PUT', 'DELETE')),
    'query': (QPATH, False, {}, ('GET',)),
    'queryp': (QPATH, False, {'active': 'true'}, ('GET',)),
    '_verb': (QPATH, False, None, ('GET', 'POST', 'PUT', 'DELETE')),
    # streaming query layer: the caller gets a generator over the JSON lines of the (first successful) response
    'monitor': ('/monitor/bootstrapped', False, None, ('GET',)),
    'peerlog': ('/network/peers/idQmPeer/log', False, None, ('GET',)),
}
STREAMING = ('monitor', 'peerlog')

# keyword options of a request: option -> {spelling in an option key: value}; an option key is e.g. 'stream=1,json=1' ('' = no option)
OPT_VALUES = {
    'stream': {'1': True, '0': False},
    'params': {'1': {'active': 'true'}, '0': {}},
    'json': {'1': {'data': 'a1b2'}},
    'headers': {'1': {'authorization': 'Bearer t0k'}},      # given to the RpcNode constructor, sent with every attempt
    'other': {'0': False},                                  # any other requests.request argument: allow_redirects=False
}
OTHER_KW = 'allow_redirects'


def options(optkey):
    """{'stream': True, ...} of an option key."""
    return {k: OPT_VALUES[k][v] for k, v in (p.split('=') for p in optkey.split(',') if p)}


def accepted(entry, method):
    """Options the entry layer has a keyword for."""
    if entry == 'request':
        return ('stream', 'params', 'json', 'headers', 'other')
    if entry == 'multi':
        return ('stream', 'params', 'json', 'other')            # RpcMultiNode takes no headers
    if entry in ('verb', '_verb'):
        return ('params', 'json', 'headers') if method == 'POST' else ('params', 'headers')
    if entry == 'monitor':
        return ('params', 'headers')                            # keyword arguments of the call are the query parameters; stream=True is built in
    return ('headers',)


def option_keys(entry, method, upto=None):
    """Every option key the entry accepts (the product of its options, each absent or one of its values), fewest options first;
    upto=1: only keys with at most one option."""
    keys = ['']
    for o in accepted(entry, method):
        keys = keys + [f'{k},{o}={v}'.strip(',') for k in keys for v in OPT_VALUES[o]]
    keys.sort(key=lambda k: (k.count('='), k))
    return [k for k in keys if upto is None or k.count('=') <= upto]


class NeedMore(BaseException):
    """The code under test asks for an answer beyond the sequence (BaseException: no `except Exception` of the code under test may eat it)."""


class Resp(FakeResponse):
    """A response that can also be read line by line, the way the streaming query layer does."""

    def iter_lines(self, *a, **k):
        return iter(self.text.encode().split(b'\n'))


class Client:
    """The client objects of one session: created once, reused by every request of the session."""

    def __init__(self):
        self.made = {}
        self.multi_used = 0

    def obj(self, what, headers=None):
        """Objects are made on first use INSIDE the judged call, so that a layer that cannot even be constructed is a verdict, not a harness error.
        One node object per headers value; the query objects hang off the node with the same headers."""
        key = (what, _json.dumps(headers, sort_keys=True))
        if key not in self.made:
            from pytezos.rpc.node import RpcMultiNode, RpcNode
            if what == 'node':
                self.made[key] = RpcNode(BASES[0], headers=dict(headers)) if headers else RpcNode(BASES[0])
            elif what == 'multi':
                self.made[key] = RpcMultiNode(list(BASES))
            else:
                from pytezos.rpc.shell import ShellQuery
                shell = ShellQuery(self.obj('node', headers))
                self.made[key] = {'q': lambda: shell.chains.main.chain_id, 'monitor': lambda: shell.monitor.bootstrapped,
                                  'peerlog': lambda: shell.network.peers['idQmPeer'].log}[what]()
        return self.made[key]

    def base_of_next(self, entry):
        """Node address every attempt of the next request must go to (RpcMultiNode: round robin per REQUEST, not per attempt)."""
        return BASES[self.multi_used % len(BASES)] if entry == 'multi' else BASES[0]

    def perform(self, entry, method, timeout, optkey=''):
        """Issue ONE request; returns the value handed to the caller."""
        opts = options(optkey)
        if set(opts) - set(accepted(entry, method)):
            raise ValueError(f'{entry} {method} has no keyword for {optkey}')
        hdr = opts.pop('headers', None)
        if 'other' in opts:
            opts[OTHER_KW] = opts.pop('other')
        kw = dict(opts) if timeout is None else dict(opts, timeout=timeout)
        if entry == 'request':
            return self.obj('node', hdr).request(method, 'a/b', **kw).json()
        if entry == 'verb':
            return getattr(self.obj('node', hdr), method.lower())('a/b', **kw)
        if entry == 'multi':
            self.multi_used += 1
            return self.obj('multi').request(method, 'a/b', **kw).json()
        if entry == 'query':
            return self.obj('q', hdr)()
        if entry == 'queryp':
            return self.obj('q', hdr)(active='true')
        if entry == '_verb':
            return getattr(self.obj('q', hdr), '_' + method.lower())(**opts)
        if entry == 'monitor':
            return list(self.obj('monitor', hdr)(**opts.get('params', {})))
        if entry == 'peerlog':
            return list(self.obj('peerlog', hdr)(monitor=True))
        raise ValueError(entry)


def drive_session(session, entries, method='GET', timeout=None, pad=0, strict=False, opts=('',)):
    """Run the requests of `session` (a list of answer sequences) one after the other on the same client objects, request i through
    entry layer entries[i % len(entries)] with the keyword options opts[i % len(opts)].  Returns one observation dict per request.  A request that asks for more answers than its
    sequence holds gets success answers (strict=False, observation flagged 'overflow') or raises NeedMore (strict=True)."""
    from pytezos.rpc.node import RpcError
    cur = {}

    def fake_request(**kw):
        cur['calls'].append((kw.get('method'), kw.get('url'), kw.get('timeout')))
        cur['args'].append(_json.dumps({k: v for k, v in kw.items() if k not in ('method', 'url', 'timeout')}, sort_keys=True, default=repr))
        i = len(cur['calls']) - 1
        if i < len(cur['seq']):
            name = cur['seq'][i]
        elif strict or i > len(cur['seq']) + 12:
            raise NeedMore()
        else:
            cur['overflow'] += 1
            name = 'ok'
        st, _, text, ct = padded(name, pad)
        return Resp(st, text, ct)

    def fake_sleep(d):
        cur['sleeps'].append(d)

    out = []
    with patched_http(fake_request, fake_sleep):
        client = Client()
        for i, seq in enumerate(session):
            cur.clear()
            cur.update(seq=seq, calls=[], args=[], sleeps=[], overflow=0)
            entry, optkey = entries[i % len(entries)], opts[i % len(opts)]
            obs = {'base': client.base_of_next(entry), 'opts': optkey}
            try:
                obs['result'] = ('ok', client.perform(entry, method, timeout, optkey))
            except RpcError as e:
                obs['result'] = ('rpc_error', type(e).__name__, list(e.args))
            except NeedMore:
                if strict:
                    raise
                obs['result'] = ('crash', 'NeedMore', 'keeps sending the request although every further answer is a success')
            except Exception as e:  # anything else is not what the statement allows
                obs['result'] = ('crash', type(e).__name__, str(e)[:300])
            obs.update(calls=list(cur['calls']), args=list(cur['args']), sleeps=list(cur['sleeps']), overflow=cur['overflow'], entry=entry)
            out.append(obs)
    return out


def drive(seq, method='GET', timeout=None, entry='request', pad=0, opts=''):
    """One request on fresh objects; raises NeedMore if the loop asks for an answer beyond the sequence."""
    return drive_session([seq], [entry], method, timeout, pad, strict=True, opts=(opts,))[0]


def complete(seq):
    """Does the statement say the request is over after these answers?"""
    return bool(seq) and (not transient(seq[-1]) or len(seq) >= CAP)


def expected(seq, method, timeout, entry='request', pad=0, base=BASES[0]):
    n = 0
    for i, name in enumerate(seq):
        n = i + 1
        if transient(name) and i < CAP - 1:
            continue
        break
    path, has_timeout, _, _ = ENTRIES[entry]
    st, body, _, ct = padded(seq[n - 1], pad)
    if st == 200:
        result = ('ok', [body] if entry in STREAMING else body)       # streaming layers hand out the JSON lines of the response
    elif st == 401:
        result = ('rpc_error', None, ['Unauthorized: ' + path])
    elif st == 404:
        result = ('rpc_error', None, ['Not found: ' + path])
    elif isinstance(body, list):
        result = ('rpc_error', None, [body[-1]])
    else:
        result = ('rpc_error', None, [body])
    url = base + '/' + path.strip('/')
    return {'n': n, 'sleeps': DELAYS[:n - 1], 'result': result,
            'calls': [(method, url, (timeout if has_timeout else None) or 60)] * n}


def _short(x, n=400):
    s = repr(x)
    return s if len(s) <= n else s[:n // 2] + ' ... ' + s[-n // 2:]


def judge(seq, obs, method, timeout, pad, where=''):
    """Compare the observation of ONE request with the statement."""
    entry = obs['entry']
    exp = expected(seq, method, timeout, entry, pad, obs['base'])
    where = where + (f'[options {obs["opts"]}] ' if obs.get('opts') else '')
    ncalls = len(obs['calls'])
    out = []
    if ncalls != exp['n']:
        why = 'retried a non-transient answer' if ncalls > exp['n'] else 'did not retry a transient answer'
        if exp['n'] >= CAP and ncalls > CAP:
            why = 'more than six attempts'
        out.append((why, f'{where}seq={seq} requests={ncalls} expected={exp["n"]}'))
    elif obs['sleeps'] != exp['sleeps']:
        out.append(('wrong delays', f'{where}seq={seq} sleeps={obs["sleeps"]} expected={exp["sleeps"]}'))
    elif obs['calls'] != exp['calls'] or len(set(obs['args'])) > 1:
        out.append(('request arguments differ between attempts', f'{where}seq={seq} calls={obs["calls"]} args={_short(sorted(set(obs["args"])))}'))
    elif ENTRIES[entry][2] is not None and _json.loads(obs['args'][0]).get('params') != ENTRIES[entry][2]:
        out.append(('request arguments differ between attempts', f'{where}seq={seq} query parameters sent: {_short(obs["args"][0])}'))
    r, e = obs['result'], exp['result']
    if r[0] != e[0] or (r[0] == 'ok' and r[1] != e[1]) or (r[0] == 'rpc_error' and r[2] != e[2]):
        last = padded(seq[ncalls - 1], pad)[0] if 0 < ncalls <= len(seq) else 200 if ncalls else 'no request'   # beyond the sequence every answer is a success
        out.append((f'wrong final outcome after {last}', f'{where}seq={seq} got={_short(r)} expected={_short(e)}'))
    return out


def check(seq, method='GET', timeout=None, entry='request', pad=0, opts=''):
    obs = drive(seq, method, timeout, entry, pad, opts)
    return judge(seq, obs, method, timeout, pad, f'{method} via {entry}, body padding {pad}: '), obs


def check_session(session, entries, method='GET', timeout=None, pad=0, opts=('',)):
    obss = drive_session(session, entries, method, timeout, pad, opts=tuple(opts))
    out = []
    for i, (seq, obs) in enumerate(zip(session, obss)):
        where = f'request {i + 1} of {len(session)} on the same objects (via {obs["entry"]}): ' if len(session) > 1 else f'{method} via {obs["entry"]}: '
        for d, detail in judge(seq, obs, method, timeout, pad, where):
            out.append((d if i == 0 else d + ' (request after earlier requests on the same client objects)',
                        detail + (f' session={session}' if len(session) > 1 else '')))
    return out, obss


# ---------------------------------------------------------------------------------------------------------------------
def explore(prefix, dims, r: Result, closing=False):
    method, timeout, entry, pad, opts = dims
    try:
        vs, obs = check(prefix, method, timeout, entry, pad, opts)
    except NeedMore:
        r.transitions += 1
        if closing:
            r.ev()
            r.out('keeps asking after the closing success')
            r.viol('more than six attempts' if len(prefix) > CAP else 'retried a non-transient answer',
                   {'seq': prefix, 'method': method, 'timeout': timeout, 'entry': entry, 'pad': pad, 'opts': opts},
                   f'{method} via {entry} [options {opts}] seq={prefix}: the request is sent again even after a success answer')
        elif complete(prefix):
            # the statement says the request is over: do not branch (the tree would not be finite), offer one success and report
            explore(prefix + ['ok'], dims, r, closing=True)
        else:
            for a in NAMES:
                explore(prefix + [a], dims, r)
        return
    r.ev()
    case = {'seq': prefix, 'method': method, 'timeout': timeout, 'entry': entry, 'pad': pad, 'opts': opts}
    if any(transient(a) for a in prefix):
        r.nt(('tree', tuple(prefix), dims))
    r.out(f'{len(obs["calls"])} requests -> {obs["result"][0]}')
    for d, detail in vs:
        r.viol(d, case, detail)
    if len(prefix) in (1, 3, 6) and prefix[-1] in ('ok', 'perm500') and len(r.samples) < 2:
        r.sample(case)
    r._last = case


def reference_tree(alphabet):
    """Every answer sequence over `alphabet` that is complete according to the statement, shortest first."""
    out, level = [], [[a] for a in alphabet]
    while level:
        nxt = []
        for s in level:
            if complete(s):
                out.append(s)
            else:
                nxt.extend(s + [a] for a in alphabet)
        level = nxt
    return out


def shape_sequences(pad, k):
    """Statement-complete sequences with ONE kind of big answer: k small temporary errors, then answer X padded by `pad` (every X of the
    alphabet), then every continuation over the small session alphabet plus the big answer itself."""
    out = []
    for x in NAMES:
        big = f'{x}+{pad}'
        alpha = R1 + ([big] if transient(x) else [])
        level = [['t500'] * k + [big]]
        while level:
            nxt = []
            for q in level:
                if complete(q):
                    out.append(q)
                else:
                    nxt.extend(q + [a] for a in alpha)
            level = nxt
    return out


ALLOPTS = 'stream=1,params=1,json=1,headers=1,other=0'
TREES = {
    'quick': [('GET', None, e, 0, '') for e in ENTRIES] + [('GET', None, e, 1200, '') for e in ('request', 'query')]
             # (the other single options are complete trees in the thorough tier; here they are in the option product and in ALLOPTS)
             + [('GET', None, 'request', 0, 'stream=1'), ('POST', 5, 'request', 0, ALLOPTS), ('GET', None, 'multi', 0, 'stream=1')],
    'thorough': ([(m, t, e, 0, '') for e in ('request', 'verb') for m in ENTRIES[e][3] for t in (None, 5)]
                 + [(m, None, e, 0, '') for e in ('multi', '_verb') for m in ENTRIES[e][3]] + [('GET', 5, 'multi', 0, '')]
                 + [('GET', None, e, 0, '') for e in ('query', 'queryp', 'monitor', 'peerlog')]
                 + [('GET', None, e, p, '') for p in (300, 1200, 4200) for e in ('request', 'query')]
                 + [('GET', None, 'request', 17000, ''), ('POST', 5, 'verb', 1200, '')]
                 # every single keyword option as a complete tree, and all of them together
                 + [(m, None, 'request', 0, o) for m in ('GET', 'POST') for o in option_keys('request', m, upto=1) if o]
                 + [(m, 5, 'request', 0, ALLOPTS) for m in ENTRIES['request'][3]]
                 + [('GET', None, 'multi', 0, o) for o in ('stream=1', 'stream=0', 'params=1', 'stream=1,params=1,json=1,other=0')]
                 + [('GET', None, e, 0, o) for e in ('verb', '_verb') for o in ('params=1', 'params=0', 'headers=1')]
                 + [('POST', None, e, 0, o) for e in ('verb', '_verb') for o in ('json=1', 'params=1,json=1,headers=1')]
                 + [('GET', None, 'monitor', 0, o) for o in ('params=1', 'headers=1', 'params=1,headers=1')]
                 + [('GET', None, e, 0, 'headers=1') for e in ('peerlog', 'query', 'queryp')]
                 + [('GET', None, e, 1200, o) for e, o in (('monitor', ''), ('peerlog', ''), ('request', 'stream=1'))]),
}
# one big answer per sequence, for body sizes whose complete tree would cost minutes: (entry, padding, options)
SHAPES = {
    'quick': [(e, p, '') for p in (5000, 70000) for e in ('request', 'query')] + [('monitor', 5000, ''), ('request', 5000, 'stream=1')],
    'thorough': ([(e, p, '') for p in (300, 5000, 70000) for e in ('request', 'verb', 'multi', 'query', '_verb', 'monitor', 'peerlog')]
                 + [('request', 1100000, '')] + [('request', p, 'stream=1') for p in (300, 5000, 70000)]),
}
PAIR_CHUNKS = 32
OPT_CHUNKS = 8
# (kind, alphabet, entry pattern, pad, option pattern): request i of a session goes through entry pattern[i % len(pattern)] with options
# option pattern[i % len(option pattern)]
SESSIONS = {
    'quick': [('pairs', 'R2', ('request',), 0, ('',))]
             + [('pairs', 'R1', pat, 0, ('',)) for pat in (('query',), ('request', 'query'), ('query', 'verb'), ('multi',), ('monitor', 'query'), ('request', 'peerlog'))]
             + [('pairs', 'R1', ('request',), 0, o) for o in (('stream=1', ''), ('', 'stream=1'), ('stream=1',), ('headers=1', 'params=1'))]
             + [('triples', 'R1', pat, 0, ('',)) for pat in (('request',), ('query', 'request'))]
             + [('triples', 'R1', ('request',), 0, ('stream=1', '')), ('triples', 'R1', ('monitor', 'request', 'query'), 0, ('',))],
    'thorough': [('pairs', 'R2', pat, p, ('',)) for pat, p in ((('request',), 0), (('query',), 0), (('request', 'query'), 1200), (('multi',), 0), (('_verb', 'verb'), 0),
                                                              (('monitor', 'query'), 0), (('request', 'peerlog'), 0))]
                + [('pairs', 'R2', ('request',), 0, o) for o in (('stream=1', ''), ('', 'stream=1'), ('stream=1',))]
                + [('pairs', 'R1', (e,), 0, o) for e in ('request', 'multi') for o in (('stream=0', 'stream=1'), ('params=1,json=1', 'stream=1,other=0'))]
                + [('pairs', 'R1', ('request',), 0, ('headers=1', 'params=1'))]
                + [('triples', 'R1', pat, 0, ('',)) for pat in (('request',), ('query', 'request'), ('multi',), ('verb', '_verb', 'queryp'), ('monitor', 'request', 'query'))]
                + [('triples', 'R1', (e,), 0, o) for e in ('request', 'multi') for o in (('stream=1', ''), ('', 'stream=1', 'params=1'))],
}
# the product of all keyword options an entry layer accepts x methods x timeouts, over the session alphabet R2
OPTION_ENTRIES = list(ENTRIES)


def shards(tier, seed):
    out = [('tree', dims, first) for dims in TREES[tier] for first in NAMES]
    out += [('shape', e, p, k, o) for e, p, o in SHAPES[tier] for k in range(CAP)]
    for kind, alpha, pat, pad, opat in SESSIONS[tier]:
        n = PAIR_CHUNKS if alpha == 'R2' else 4
        out += [('session', kind, alpha, pat, pad, k, n, opat) for k in range(n)]
    for e in OPTION_ENTRIES:
        for m in ENTRIES[e][3]:
            n = OPT_CHUNKS if len(option_keys(e, m)) >= 4 * OPT_CHUNKS else 1
            out += [('options', e, m, t, k, n) for t in ((None, 5) if ENTRIES[e][1] else (None,)) for k in range(n)]
    return out


def run_sessions(sessions, pat, pad, r, label, method='GET', timeout=None, opat=('',)):
    last = None
    for session in sessions:
        vs, obss = check_session(session, pat, method, timeout, pad, opat)
        r.ev()
        r.traces += 1
        case = {'session': session, 'entries': list(pat), 'method': method, 'timeout': timeout, 'pad': pad, 'opts': list(opat)}
        if any(transient(a) for q in session[min(1, len(session) - 1):] for a in q):
            r.nt((label, tuple(map(tuple, session)), pat, pad, method, timeout, opat))
        o = obss[-1]
        r.out(f'{label}: {len(o["calls"])} requests -> {o["result"][0]}')
        for d, detail in vs:
            r.viol(d, case, detail)
        last = case
    if last is not None:
        r.sample(last)


def run_shard(spec, tier):
    r = Result()
    if spec[0] == 'tree':
        _, dims, first = spec
        explore([first], tuple(dims), r)
        r.sample(r._last)
    elif spec[0] == 'shape':
        _, entry, pad, k, o = spec
        run_sessions(([q] for q in shape_sequences(pad, k)), (entry,), 0, r, 'one big answer', opat=(o,))
    elif spec[0] == 'options':
        _, entry, method, timeout, k, n = spec
        ref = reference_tree(R2)
        for o in option_keys(entry, method)[k::n]:
            run_sessions(([q] for q in ref), (entry,), 0, r, 'keyword options', method, timeout, (o,))
    else:
        _, kind, alpha, pat, pad, k, n, opat = spec
        ref = reference_tree(R2 if alpha == 'R2' else R1)
        # the history: every first request of this chunk, followed by every second (and third) request
        run_sessions(([h, s] + ([u] if u else []) for h in ref[k::n] for s in ref for u in (ref if kind == 'triples' else [None])),
                     pat, pad, r, f'request {3 if kind == "triples" else 2} of a session', opat=opat)
    return r


def replay(case):
    method, timeout, pad = case.get('method', 'GET'), case.get('timeout'), case.get('pad', 0)
    if 'session' in case:
        return check_session([list(s) for s in case['session']], list(case['entries']), method, timeout, pad, case.get('opts') or [''])[0]
    seq = list(case['seq'])
    try:
        return check(seq, method, timeout, case.get('entry', 'request'), pad, case.get('opts') or '')[0]
    except NeedMore:
        return [('more than six attempts' if len(seq) > CAP else 'retried a non-transient answer',
                 f'the request is sent again after the recorded sequence {seq}')]


def _slim(obs):
    obs = dict(obs)
    obs['result'] = _short(obs['result'], 2000)
    return obs


def observe(case):
    method, timeout, pad = case.get('method', 'GET'), case.get('timeout'), case.get('pad', 0)
    if 'session' in case:
        return [_slim(o) for o in drive_session([list(s) for s in case['session']], list(case['entries']), method, timeout, pad,
                                                opts=tuple(case.get('opts') or ['']))]
    try:
        return _slim(drive(list(case['seq']), method, timeout, case.get('entry', 'request'), pad, case.get('opts') or ''))
    except NeedMore:
        return 'asks for more answers'
