"""C28 — multi-node clients rotate through nodes regardless of failures.

Fault enumeration: real RpcMultiNode objects (raw, and behind the real ShellQuery tree) are driven over a
recording fake of requests.request; every call is given one of {ok, RpcError(404), RpcError(500 permanent),
transport exception} or, in the wide alphabet, an outcome with SEVERAL answers: transient errors (5xx JSON error of kind
temporary, 5xx text naming prevalidator.ml) that the real retry loop of RpcNode.request retries (sleep faked), 1, 2, 3 or
up to the attempt limit times, followed by success, by a final HTTP error or by a transport exception; and a temporary
proto.* error, which is not retried.  Oracle (the statement): the i-th request OF A CLIENT reaches node i mod n OF THAT
CLIENT, a request being one call of the user: its FIRST attempt is judged; which node the retries of the same request
reach is not pinned by the statement (counted, no verdict).

Five families of cases, all judged call by call:
  seq    a fresh client per outcome sequence: EVERY sequence of length L, for every entry point; behind the
         ShellQuery layer the calls cycle through five kinds of query (streaming monitor, plain GET, the
         raw-context queries that carry their own timeout, a POST helper) in every phase, and every word over
         kind x outcome up to a smaller length; and every word over the wide alphabet (retried requests) up to a
         smaller length, for every entry point;
  long   ONE long-lived client that is fed every outcome word of width W back to back, far beyond the small
         powers of two at which a counter could wrap; and one that is fed EVERY word of width W' over the wide alphabet;
  multi  two clients with n_a, n_b nodes used alternately in one process (every word over client x outcome), the
         second one created after the first has already sent requests; also over outcomes with 0, 1, 2, 5 retries;
  shared ONE client used through three handles (two ShellQuery trees and the client itself), every word over
         handle x outcome; also over outcomes with 0, 1, 2, 5 retries;
  tree   a request through EVERY registered query class of the tree (itself, a child attribute, a child item; GET
         and its POST/PUT/DELETE helper), between probe requests, used twice.
A case is self-contained (it creates all the clients it needs), so replaying it in a fresh process gives the same
verdict whatever state the code under test keeps at class or module level; observe() therefore runs in a fresh
interpreter.
"""
from __future__ import annotations

import inspect
import itertools
import json
import os
import re
import subprocess
import sys

from mc.engine.report import Result
from mc.fakes import FakeResponse, patched_http

ID = 'C28'
LEVEL = 'fault_enumeration'
LEVEL_TEXT = ('the rotation state is one integer modulo n; every outcome sequence up to a length well beyond n is enumerated for n = 1..4 and for '
              'every entry point (raw request, get/post, the ShellQuery layer incl. streaming monitors, queries with their own timeout and every '
              'registered query class), for a long-lived client beyond 2^16 requests, for two clients used alternately in one process and for one '
              'client used through several handles; requests that the single-node layer retries internally (transient errors) are part of the '
              'outcome alphabet, with the real retry loop running; so every reachable behaviour within those bounds is decided')
RULE = ('seq: every outcome sequence of length L over {ok,404,500-permanent,ConnectionError} x n in 1..4 nodes x entry in {request, get, post, '
        'ShellQuery layer cycling monitor/GET/raw-bytes/POST/raw-json queries, in several phases} plus every word over (query kind x outcome) of '
        'length P; long: one client per (n, entry) fed every outcome word of width W back to back for N requests; multi: every word of length M over '
        '(client A|B x outcome) for every ordered pair (n_a, n_b), clients created at first use; shared: every word of length S over (handle in two '
        'shells + raw client x outcome); tree: every registered RpcQuery class x {itself, child attr, child item} x {GET, helper verb} x outcome pair. '
        'rseq: every word of length R over the wide alphabet {ok,404,500-permanent,ConnectionError, temporary proto error (not retried), '
        'transient x1 -> ok, transient x2 -> ok, prevalidator text x1 -> ok, transient x3 -> 404, prevalidator text x2 -> 500, transient x1 -> '
        'ConnectionError, transient until the attempt limit} containing a letter outside the basic four, same entries; long/ext: one client fed EVERY '
        "word of width W' over the wide alphabet back to back; multi and shared also over {ok, 1, 2, 5 retries}. "
        'A request = one call of the user; its first attempt is judged, retries of the same request are not (counted in extra). '
        'non-trivial = a case (for long: an outcome word) in which a call FAILED (raised) or was retried internally and a later request was issued; '
        'distinct by the whole case')
BOUND = {'quick': 'n<=4; seq L=7 (request), L=6 x 2 phases (shell), P=3; long N=2^16+16 (request) / 2^13+16 (shell), W=8; multi M=4 (request) / 3 (shell), '
                  'lazy creation; shared S=3; tree: 49 registered query classes + 2 plain paths; wide alphabet (12 outcomes, up to 5 retries): rseq R=4 (request) / '
                  "3 (shell), long/ext W'=4 (request, 82944 requests) / 3 (shell), multi and shared also over {ok, 1, 2, 5 retries}",
         'thorough': 'n<=4; seq L=9 (request, get, post), L=7 x 3 phases (shell), P=4; long N=2^20+16 (request, get, post) / 2^16+16 (shell), W=10; '
                     'multi M=5 (request) / 4 (shell), lazy and upfront creation; shared S=4; tree: 49 registered query classes + 2 plain paths; wide alphabet '
                     "(12 outcomes, up to 5 retries): rseq R=5 (request, get, post) / 4 (shell), long/ext W'=5 (request) / 4 (get, post, shell), multi (lazy creation) "
                     'and shared also over {ok, 1, 2, 5 retries}'}
ASSUMPTIONS = ['requests.request and sleep are the only environment seams of RpcNode.request',
               'attempts that follow a transient answer (5xx kind temporary / prevalidator.ml) within one call are retries of the same request',
               'a counter wrap beyond 2^16 (quick) / 2^20 (thorough) requests of one client is out of reach of enumeration']
OUTCOMES = ['ok', 'e404', 'e500', 'exc']
# outcome -> the answers given to the successive ATTEMPTS of one request (the last answer repeats).  'tmp' (HTTP 503, JSON error of
# kind temporary) and 'prev' (HTTP 502, text mentioning prevalidator.ml) are the answers the retry loop of RpcNode.request retries
# (it runs for real, over a fake sleep); 'proto' is a temporary error of the protocol, which it does not retry.
SCRIPTS = {'ok': ['ok'], 'e404': ['e404'], 'e500': ['e500'], 'exc': ['exc'], 'proto': ['proto'],
           't1ok': ['tmp', 'ok'], 't2ok': ['tmp', 'tmp', 'ok'], 'p1ok': ['prev', 'ok'], 't3e404': ['tmp', 'tmp', 'tmp', 'e404'],
           'p2e500': ['prev', 'prev', 'e500'], 't1exc': ['tmp', 'exc'], 'tfail': ['tmp']}
RETRYABLE = ('tmp', 'prev')
RETRIES_SEEN = [0]     # attempts after the first one of a request: which node they reach is not pinned by the statement
EXT = OUTCOMES + ['proto', 't1ok', 't2ok', 'p1ok', 't3e404', 'p2e500', 't1exc', 'tfail']   # the wide alphabet (short words)
ALT = ['ok', 't1ok', 'p2e500', 'tfail']      # four letters with 0, 1, 2 and 5 retries: for the families over pairs (who x outcome)
ALPHABETS = {'basic': OUTCOMES, 'ext': EXT, 'alt': ALT}
SHELL_KINDS = ['monitor', 'get', 'rawb', 'post', 'rawj']
DIRECT = ('request', 'get', 'post')

D_AFTER_FAIL = 'request after failure goes to wrong node'
D_AFTER_OK = 'request after success goes to wrong node'
D_AFTER_RETRY = 'request after an internally retried request goes to wrong node'
D_LONG = 'request of a long-lived client goes to wrong node'
D_MULTI = 'request goes to wrong node when another multi-node client is used in the same process'
D_SHARED = 'request goes to wrong node when one client is used through several handles'
D_TREE = 'request through a query class of the ShellQuery tree goes to wrong node'



class _Response(FakeResponse):
    def iter_lines(self):   # streaming (monitor) replies
        return iter(self.text.encode().splitlines())


_URL = re.compile(r'http://c(\d+)n(\d+)\.invalid/')


# ----------------------------------------------------------------------------------------------------------------
# the recording environment
# ----------------------------------------------------------------------------------------------------------------
class Session:
    """Real RpcMultiNode clients over one recording fake of requests.request."""

    def __init__(self):
        self.clients = []
        self.ns = []
        self.sent = []      # per client: node indices in wire order (every attempt)
        self.firsts = []    # per client: node reached by the FIRST attempt of each request
        self.reqs = []      # per client: requests issued so far (a request = one call of the user, however often it is retried)
        self.nwire = 0      # every request seen on the wire, whoever sent it
        self.script, self.attempt, self.cur = SCRIPTS['ok'], 0, []
        import requests.exceptions
        from pytezos.rpc.node import RpcError, RpcMultiNode
        self.RpcError, self.RpcMultiNode, self.ConnectionError = RpcError, RpcMultiNode, requests.exceptions.ConnectionError

    def client(self, n):
        c = len(self.clients)
        self.clients.append(self.RpcMultiNode([f'http://c{c}n{i}.invalid' for i in range(n)]))
        self.ns.append(n)
        self.sent.append([])
        self.firsts.append([])
        self.reqs.append(0)
        return c

    def fake(self, **kw):
        self.nwire += 1
        a = self.script[min(self.attempt, len(self.script) - 1)]
        self.attempt += 1
        m = _URL.match(str(kw.get('url')))
        if m is not None and int(m.group(1)) < len(self.sent):
            self.sent[int(m.group(1))].append(int(m.group(2)))
            self.cur.append((int(m.group(1)), int(m.group(2)), a))
        if a == 'ok':
            return _Response(200, {'x': 1})
        if a == 'e404':
            return _Response(404, 'nope', 'text/plain')
        if a == 'e500':
            return _Response(500, [{'kind': 'permanent', 'id': 'x.y'}])
        if a == 'tmp':
            return _Response(503, [{'kind': 'temporary', 'id': 'node.prevalidation.busy'}])
        if a == 'prev':
            return _Response(502, 'Assert_failure src/lib_shell/prevalidator.ml:1918:8', 'text/plain')
        if a == 'proto':
            return _Response(500, [{'kind': 'temporary', 'id': 'proto.alpha.michelson_v1.script_rejected'}])
        raise self.ConnectionError('boom')

    def call(self, c, fn, outcome, exact=True):
        """One call on behalf of client c.  Returns (how the call ended, None | why the rotation is broken).
        exact: the call is ONE request of the user by construction: its first attempt is judged, the attempts that follow an answer
        the retry loop retries are retries of the same request (not judged); otherwise (only with outcomes that are never retried)
        every request the call issues is judged."""
        n, i = self.ns[c], self.reqs[c]
        w0 = self.nwire
        self.script, self.attempt, self.cur = SCRIPTS[outcome], 0, []
        try:
            fn()
            res = 'returned'
        except self.RpcError:
            res = 'RpcError'
        except Exception as e:  # transport errors, and whatever a broken client may raise
            res = 'transport error' if type(e).__name__ == 'ConnectionError' else 'other exception'
        new = [(h, a) for cc, h, a in self.cur if cc == c]
        nodes = [h for h, _ in new]
        bad = None
        if self.nwire - w0 != len(new):
            bad = f'{self.nwire - w0 - len(new)} request(s) left for a node that is not one of this client'
        elif exact:
            retries = 0
            if not new:
                bad = f'the call put no request on the wire, expected one to node {i % n}'
            elif nodes[0] != i % n:
                bad = f'request #{i} of the client reached node {nodes[0]}, expected {i % n}'
            else:
                for j in range(1, len(new)):
                    if new[j - 1][1] not in RETRYABLE:
                        bad = (f'the call put {len(new)} requests on the wire (nodes {nodes}) although answer #{j - 1} was not one that is '
                               f'retried, expected 1 to node {i % n}')
                        break
                    retries += 1
            if new:
                self.firsts[c].append(nodes[0])
            self.reqs[c] += 1
            RETRIES_SEEN[0] += retries
            if retries:
                res += ' after retries'
        else:
            for j, h in enumerate(nodes):
                if h != (i + j) % n:
                    bad = f'request #{i + j} of the client reached node {h}, expected {(i + j) % n}'
                    break
            self.firsts[c] += nodes
            self.reqs[c] += len(new)
        return res, bad


def _shell_call(shell, kind):
    if kind == 'monitor':
        shell.monitor.bootstrapped()
    elif kind == 'get':
        shell.chains.main.chain_id()
    elif kind == 'rawb':
        shell.head.context.raw.bytes(depth=0)
    elif kind == 'rawj':
        shell.blocks['head~2'].context.raw.json.big_maps.index[7].total_bytes()
    else:
        shell.head.context.seed.post()


def _direct_call(client, method):
    if method == 'request':
        client.request('GET', 'p')
    elif method == 'get':
        client.get('p')
    else:
        client.post('p', json={})


def _plain(prev):
    """Descriptor of a failure that needs nothing but one client and one handle."""
    if len(SCRIPTS.get(prev, ())) > 1 or prev == 'tfail':
        return D_AFTER_RETRY
    return D_AFTER_FAIL if prev not in ('ok', '-') else D_AFTER_OK


def _res_class(results):
    s = set(results) - {'returned'}
    return 'every call returned' if not s else ' + '.join(sorted(s))


def _nontrivial(results):
    return any(x != 'returned' for x in results[:-1])


# ----------------------------------------------------------------------------------------------------------------
# the five families.  Each runner returns (violations, results per call, observation)
# ----------------------------------------------------------------------------------------------------------------
def _kinds_of(case):
    if case.get('method', 'request') != 'shell':
        return None
    if 'kinds' in case:
        return list(case['kinds'])
    return [('monitor', 'get')[i % 2] for i in range(len(case['seq']))]  # cases recorded before the kinds were explicit


def run_seq(case):
    from pytezos.rpc.shell import ShellQuery
    n, seq, method = case['n'], case['seq'], case.get('method', 'request')
    kinds = _kinds_of(case)
    s = Session()
    results, out = [], []
    with patched_http(s.fake, lambda d: None):
        c = s.client(n)
        cl = s.clients[c]
        shell = ShellQuery(node=cl) if kinds else None
        for i, o in enumerate(seq):
            if kinds:
                res, bad = s.call(c, lambda: _shell_call(shell, kinds[i]), o)
            else:
                res, bad = s.call(c, lambda: _direct_call(cl, method), o)
            results.append(res)
            if bad:
                prev = seq[i - 1] if i else '-'
                out.append((_plain(prev),
                            f'n={n} entry={method} kinds={kinds} seq={list(seq)} call #{i}: {bad}; wire (every attempt)={s.sent[c]} first attempts={s.firsts[c]}'))
                break
    return out, results, s.sent


def long_outcome(j, W, alpha=OUTCOMES):
    """Outcome of request j: the outcome words of width W over the alphabet in counting order, back to back."""
    k, pos = divmod(j, W)
    return alpha[(k // len(alpha) ** (W - 1 - pos)) % len(alpha)]


def run_long(case, r=None):
    from pytezos.rpc.shell import ShellQuery
    n, N, W, method = case['n'], case['N'], case['W'], case['method']
    an = case.get('alpha', 'basic')
    alpha = ALPHABETS[an]
    s = Session()
    out = []
    word = []
    with patched_http(s.fake, lambda d: None):
        c = s.client(n)
        cl = s.clients[c]
        shell = ShellQuery(node=cl) if method == 'shell' else None
        for j in range(N):
            o = long_outcome(j, W, alpha)
            if shell is not None:
                kind = SHELL_KINDS[j % 5]
                res, bad = s.call(c, lambda: _shell_call(shell, kind), o)
            else:
                res, bad = s.call(c, lambda: _direct_call(cl, method), o)
            word.append(res)
            if bad:
                out.append((D_LONG if j >= 16 else _plain(long_outcome(j - 1, W, alpha) if j else '-'),
                            f'n={n} entry={method} one client, outcome words of width {W} over the {an} alphabet back to back: call #{j} (outcome {o}, previous '
                            f'{[long_outcome(x, W, alpha) for x in range(max(0, j - 3), j)]}): {bad}; first attempts of the previous requests {s.firsts[c][-6:-1]}'))
                break
            if len(word) == W:
                if r is not None:
                    r.ev()
                    if _nontrivial(word):
                        r.nt(('long', n, method, j // W) if an == 'basic' else ('long', an, n, method, j // W))
                    r.out(f'long/{method}{"" if an == "basic" else "/" + an}: {_res_class(word)}')
                word = []
    tail = s.sent[c][-8:]
    return out, [], {'requests': s.reqs[c], 'attempts': len(s.sent[c]), 'last': tail}


def run_multi(case):
    """Two clients (n_a, n_b nodes) in one process; word = [[client, outcome], ...]."""
    from pytezos.rpc.shell import ShellQuery
    ns, word, entry, create = case['ns'], case['word'], case['entry'], case.get('create', 'lazy')
    s = Session()
    ids, shells = {}, {}
    results, out = [], []

    def make(which):
        ids[which] = s.client(ns[which])
        if entry == 'shell':
            shells[which] = ShellQuery(node=s.clients[ids[which]])

    with patched_http(s.fake, lambda d: None):
        if create == 'upfront':
            make(0)
            make(1)
        for i, (which, o) in enumerate(word):
            if which not in ids:
                make(which)
            c = ids[which]
            if entry == 'shell':
                kind = SHELL_KINDS[(i + 1) % 5]
                res, bad = s.call(c, lambda: _shell_call(shells[which], kind), o)
            else:
                res, bad = s.call(c, lambda: _direct_call(s.clients[c], 'request'), o)
            results.append(res)
            if bad:
                both = len({w for w, _ in word[:i + 1]}) == 2
                out.append((D_MULTI if both else _plain(word[i - 1][1] if i else '-'), f'clients A,B with {ns} nodes ({create} creation), entry={entry}, word={word}: call #{i} on client '
                                     f'{"AB"[which]}: {bad}; wire (every attempt) per client={[s.sent[ids[k]] for k in sorted(ids)]}'))
                break
    return out, results, [s.sent[ids[k]] if k in ids else None for k in (0, 1)]


def run_shared(case):
    """One client used through handles 0,1 (two ShellQuery trees) and 2 (the client itself)."""
    from pytezos.rpc.shell import ShellQuery
    n, word = case['n'], case['word']
    s = Session()
    results, out = [], []
    with patched_http(s.fake, lambda d: None):
        c = s.client(n)
        cl = s.clients[c]
        shells = [ShellQuery(node=cl), ShellQuery(node=cl)]
        for i, (h, o) in enumerate(word):
            if h == 2:
                res, bad = s.call(c, lambda: _direct_call(cl, 'get'), o)
            else:
                kind = SHELL_KINDS[(i + 2) % 5]
                res, bad = s.call(c, lambda: _shell_call(shells[h], kind), o)
            results.append(res)
            if bad:
                several = len({w for w, _ in word[:i + 1]}) > 1
                out.append((D_SHARED if several else _plain(word[i - 1][1] if i else '-'), f'n={n} handles 0,1 = two ShellQuery trees, 2 = the client itself; word={word}: call #{i}: {bad}; '
                                      f'wire (every attempt)={s.sent[c]}'))
                break
    return out, results, s.sent


def tree_paths():
    """Every registered query class of the tree, plus two plain documented paths as controls."""
    import pytezos.rpc  # noqa: F401  (registers the classes)
    from pytezos.rpc.query import RpcQuery
    paths = sorted(p for p in RpcQuery.__extensions__ if p)
    return paths + ['/version', '/chains/{}/blocks/{}/header']


def _navigate(shell, wild_path):
    q = shell
    prev = ''
    for seg in wild_path.strip('/').split('/'):
        if seg == '{}':
            q = q[{'chains': 'main', 'blocks': 'head'}.get(prev, '0')]
        else:
            q = getattr(q, seg)
        prev = seg
    return q


def tree_actions(path):
    """(verb, args) pairs available on the query class registered for this path."""
    from pytezos.rpc.query import RpcQuery
    cls = RpcQuery.__extensions__.get(path, RpcQuery)
    acts = [('call', None)]
    for verb in ('post', 'put', 'delete'):
        f = getattr(cls, verb, None)
        if f is None:
            continue
        req = [p for p in list(inspect.signature(f).parameters.values())[1:]
               if p.default is p.empty and p.kind in (p.POSITIONAL_ONLY, p.POSITIONAL_OR_KEYWORD)]
        if req:
            acts += [(verb, [a] * len(req)) for a in ({}, '00')]
        else:
            acts.append((verb, []))
    return acts


def run_tree(case):
    """probe, X (fresh navigation), probe, X again on the same query object, probe - judged request by request."""
    from pytezos.rpc.shell import ShellQuery
    n, path, below, verb, args, outs = case['n'], case['path'], case['below'], case['verb'], case['args'], case['outs']
    s = Session()
    results, out, counts = [], [], []
    state = {}
    with patched_http(s.fake, lambda d: None):
        c = s.client(n)
        shell = ShellQuery(node=s.clients[c])

        def x():
            q = state.get('q')
            if q is None:
                q = _navigate(shell, path)
                if below == 'attr':
                    q = q.x
                elif below == 'item':
                    q = q['0']
                state['q'] = q
            if verb == 'call':
                q()
            else:
                getattr(q, verb)(*args)

        def probe():
            shell.chains.main.chain_id()

        plan = [(probe, 'ok', True), (x, outs[0], False), (probe, outs[1], True), (x, outs[1], False), (probe, 'ok', True)]
        for i, (fn, o, exact) in enumerate(plan):
            before = len(s.sent[c])
            res, bad = s.call(c, fn, o, exact)
            results.append(res)
            counts.append(len(s.sent[c]) - before)
            if bad:
                out.append((D_TREE, f'n={n} query {path} ({below or "itself"}).{verb}{tuple(args or ())} outcomes={outs}: step #{i} of '
                                    f'[probe, X, probe, X, probe]: {bad}; wire={s.sent[c]}'))
                break
    return out, results, {'wire': s.sent, 'requests_per_step': counts, 'reached': type(state.get('q')).__name__}


RUNNERS = {'seq': run_seq, 'long': run_long, 'multi': run_multi, 'shared': run_shared, 'tree': run_tree}


def run_case(case):
    return RUNNERS[case.get('kind', 'seq')](case)


# ----------------------------------------------------------------------------------------------------------------
# shards
# ----------------------------------------------------------------------------------------------------------------
def _cost(spec, tier):
    """Rough CPU estimate in ms (measured per request: raw client 0.035, through the query layer 0.35), only used to balance the lanes."""
    k = spec[0]
    if k == 'seq':
        _, n, L, first, method, shift = spec
        return 4 ** (L - 1) * L * (0.375 if method == 'shell' else 0.035)
    if k == 'prod':
        _, n, P, first, k0 = spec
        return 20 ** (P - 1) * (5 if k0 is None else 1) * P * 0.32
    if k == 'rseq':
        _, n, R, first, method = spec
        return len(EXT) ** (R - 1) * R * 2.4 * (0.375 if method == 'shell' else 0.035)
    if k == 'long':
        return spec[2] * (0.324 if spec[3] == 'shell' else 0.03) * (1 if spec[5] == 'basic' else 2.4)
    if k == 'multi':
        _, na, nb, M, entry, create, first, alpha = spec
        return 8 ** M / (1 if first is None else 4) * M * (0.4 if entry == 'shell' else 0.04) * (1 if alpha == 'basic' else 3)
    if k == 'shared':
        _, n, S, first, alpha = spec
        return 3 * 12 ** (S - 1) * S * 0.35 * (1 if alpha == 'basic' else 3)
    return 450 * 1.2


def shards(tier, seed):
    q = tier == 'quick'
    sp = []
    for n in (1, 2, 3, 4):
        for first in OUTCOMES:
            for m in (['request'] if q else list(DIRECT)):
                sp.append(('seq', n, 7 if q else 9, first, m, 0))
            for shift in ((0, 3) if q else (0, 2, 4)):
                sp.append(('seq', n, 6 if q else 7, first, 'shell', shift))
            for k0 in ([None] if q else SHELL_KINDS):
                sp.append(('prod', n, 3 if q else 4, first, k0))
            sp.append(('shared', n, 3 if q else 4, first, 'basic'))
        for first in ALT:
            sp.append(('shared', n, 3 if q else 4, first, 'alt'))
        for first in EXT:       # the wide alphabet (requests that are retried inside the client), short words
            for m in (['request'] if q else list(DIRECT)):
                sp.append(('rseq', n, 4 if q else 5, first, m))
            sp.append(('rseq', n, 3 if q else 4, first, 'shell'))
        for m in (['request', 'shell'] if q else list(DIRECT) + ['shell']):
            N = (2 ** (13 if q else 16) if m == 'shell' else 2 ** (16 if q else 20)) + 16
            sp.append(('long', n, N, m, 8 if q else 10, 'basic'))
            W = 3 if q and m == 'shell' else 5 if m == 'request' and not q else 4     # EVERY word of width W over the wide alphabet, back to back
            sp.append(('long', n, len(EXT) ** W * W, m, W, 'ext'))
        for part in range(8):
            sp.append(('tree', n, part, 8))
    for na in (1, 2, 3, 4):
        for nb in (1, 2, 3, 4):
            for entry in ('request', 'shell'):
                M = (3 if q else 4) if entry == 'shell' else (4 if q else 5)
                for create in (['lazy'] if q else ['lazy', 'upfront']):
                    for first in ([None] if q else OUTCOMES):
                        sp.append(('multi', na, nb, M, entry, create, first, 'basic'))
                    for first in ([None] if q else ALT) if create == 'lazy' else []:
                        sp.append(('multi', na, nb, M, entry, create, first, 'alt'))
    # static lanes are shards[k::16]: order by cost, boustrophedon, so that the lanes are balanced
    sp.sort(key=lambda x: (-_cost(x, tier), repr(x)))
    out = []
    for g in range(0, len(sp), 16):
        grp = sp[g:g + 16]
        out += grp if (g // 16) % 2 == 0 else grp[::-1]
    return out


def _cases(spec):
    k = spec[0]
    if k == 'seq':
        _, n, L, first, method, shift = spec
        for rest in itertools.product(OUTCOMES, repeat=L - 1):
            case = {'kind': 'seq', 'n': n, 'seq': [first, *rest], 'method': method}
            if method == 'shell':
                case['kinds'] = [SHELL_KINDS[(i + shift) % 5] for i in range(L)]
            yield case
    elif k == 'prod':
        _, n, P, first, only = spec
        letters = [(kd, o) for kd in SHELL_KINDS for o in OUTCOMES]
        for k0 in (SHELL_KINDS if only is None else [only]):
            for rest in itertools.product(letters, repeat=P - 1):
                w = [(k0, first), *rest]
                yield {'kind': 'seq', 'n': n, 'seq': [o for _, o in w], 'method': 'shell', 'kinds': [kd for kd, _ in w]}
    elif k == 'rseq':
        _, n, R, first, method = spec
        for rest in itertools.product(EXT, repeat=R - 1):
            seq = [first, *rest]
            if all(o in OUTCOMES for o in seq):
                continue        # words over the basic outcomes are all in the seq family, at a greater length
            case = {'kind': 'seq', 'n': n, 'seq': seq, 'method': method}
            if method == 'shell':
                case['kinds'] = [SHELL_KINDS[(i + EXT.index(first)) % 5] for i in range(R)]
            yield case
    elif k == 'multi':
        _, na, nb, M, entry, create, first, alpha = spec
        letters = [[c, o] for c in (0, 1) for o in ALPHABETS[alpha]]
        for w in itertools.product(letters, repeat=M):
            if first is not None and w[0][1] != first:
                continue
            yield {'kind': 'multi', 'ns': [na, nb], 'word': [list(x) for x in w], 'entry': entry, 'create': create}
    elif k == 'shared':
        _, n, S, first, alpha = spec
        letters = [[h, o] for h in (0, 1, 2) for o in ALPHABETS[alpha]]
        for h0 in (0, 1, 2):
            for rest in itertools.product(letters, repeat=S - 1):
                yield {'kind': 'shared', 'n': n, 'word': [[h0, first], *[list(x) for x in rest]]}
    elif k == 'tree':
        _, n, part, parts = spec
        for i, path in enumerate(tree_paths()):
            if i % parts != part:
                continue
            for below in ('', 'attr', 'item'):
                for verb, args in tree_actions(path) if not below else [('call', None)]:
                    for o1 in OUTCOMES:
                        for o2 in OUTCOMES:
                            yield {'kind': 'tree', 'n': n, 'path': path, 'below': below, 'verb': verb, 'args': args, 'outs': [o1, o2]}


def run_shard(spec, tier):
    r = Result()
    if spec[0] == 'long':
        _, n, N, method, W, alpha = spec
        case = {'kind': 'long', 'n': n, 'N': N, 'W': W, 'method': method}
        if alpha != 'basic':
            case['alpha'] = alpha
        seen = RETRIES_SEEN[0]
        vs, _, _ = run_long(case, r)
        r.extra['retries of a request (the node they reach is not judged)'] += RETRIES_SEEN[0] - seen
        for d, detail in vs:
            r.out('rotation-broken')
            r.viol(d, case, detail)
        return r
    case = None
    seen = RETRIES_SEEN[0]
    for case in _cases(spec):
        r.ev()
        vs, results, obs = run_case(case)
        kind = case['kind']
        if _nontrivial(results):
            r.nt(json.dumps(case, sort_keys=True))
        if vs:
            r.out('rotation-broken')
        elif kind == 'tree':
            a, b = obs['requests_per_step'][1], obs['requests_per_step'][3]
            r.out(f'tree: the query issued {a if a < 2 else "several"} request(s), then {b if b < 2 else "several"}; {_res_class(results)}')
            if a == 0 and b == 0:
                r.no_verdict += 1   # the helper refused the placeholder arguments before sending anything: only the probes were judged
        else:
            r.out(f'{kind}/{case.get("method") or case.get("entry") or "handles"}: {_res_class(results)}')
        for d, detail in vs:
            r.viol(d, case, detail)
        if spec[0] == 'seq' and spec[3] == 'e404' and case['seq'][1:3] == ['ok', 'exc'] and len(r.samples) < 1:
            r.sample(case)
    if case is not None:
        r.sample(case)
    r.extra['retries of a request (the node they reach is not judged)'] += RETRIES_SEEN[0] - seen
    return r


def replay(case):
    return run_case(case)[0]


_FRESH = r"""
import sys, os, json
from mc import run
run._setup_paths(); run._guard_network()
import logging; logging.disable(logging.CRITICAL)
import pytezos.rpc
from mc.props import c28
from mc.engine import report
for case in report.unjson(json.loads(sys.stdin.read())):
    rd, wr = os.pipe()
    pid = os.fork()            # every case starts from the state of a process that has never created a client
    if pid == 0:
        try:
            vs, results, obs = c28.run_case(case)
            msg = json.dumps(report.jsonable([obs, results, [d for d, _ in vs]]))
        except BaseException as e:
            msg = json.dumps(['harness', repr(e), []])
        os.write(wr, msg.encode())
        os._exit(0)
    os.close(wr)
    buf = b''
    while True:
        chunk = os.read(rd, 65536)
        if not chunk:
            break
        buf += chunk
    os.close(rd)
    os.waitpid(pid, 0)
    sys.stdout.write('OBS ' + buf.decode() + '\n')
"""


def fresh(cases):
    """[observation, how each call ended, violated descriptors] of each case, each one run in a process that has done nothing
    before: a case builds every client it uses, so its verdict must not depend on what this process happened to do earlier."""
    from mc.engine import report
    here = os.path.dirname(os.path.dirname(os.path.dirname(os.path.abspath(__file__))))
    env = dict(os.environ, PYTHONPATH=here + os.pathsep + os.environ.get('PYTHONPATH', ''), PYTHONHASHSEED='0')
    p = subprocess.run([sys.executable, '-W', 'ignore', '-c', _FRESH], input=json.dumps(report.jsonable(list(cases))),
                       capture_output=True, text=True, env=env, cwd=here)
    out = [json.loads(line[4:]) for line in p.stdout.splitlines() if line.startswith('OBS ')]
    if p.returncode or len(out) != len(cases) or any(o and o[0] == 'harness' for o in out):
        raise RuntimeError(f'observation process failed (exit {p.returncode}): {out!r:.300} {p.stderr[-800:]}')
    return out


def observe(case):
    """Observed in a fresh process (see fresh): state that the code under test keeps at class or module level would otherwise
    make two observations of one case differ, and hide the violation behind a harness error."""
    return fresh([case])[0]


def finalize(res, tier):
    """Violations only: put first, for every descriptor, a recorded case that also fails on its own in a fresh process (it is the
    one written to the replay file), and say so where a failure was seen only after other cases had run in the same process."""
    from mc.engine.report import unjson
    todo = [(d, i, c) for d, v in sorted(res.violations.items()) for i, c in enumerate(v['cases'])]
    if not todo:
        return
    verdicts = fresh([unjson(c['case']) for _, _, c in todo])
    for (d, i, c), (_, _, descs) in zip(todo, verdicts):
        c['alone'] = d in descs
        if not c['alone']:
            c['detail'] += (' [seen after other cases had run in the same process; on its own in a fresh process this case '
                            + ('fails as: ' + '; '.join(descs) if descs else 'holds') + ' - the code under test carries state from one client to another]')
    for d, v in res.violations.items():
        v['cases'].sort(key=lambda c: not c.pop('alone'))
