"""C28 — multi-node clients rotate through nodes regardless of failures.

Fault enumeration: for n in 1..4 nodes, EVERY outcome sequence over
{ok, RpcError(404), RpcError(500 permanent), transport exception} of length L is
driven through the real RpcMultiNode.request -> real RpcNode.request with
requests.request replaced by a recording fake.  Oracle (the statement): the i-th
request reaches node i mod n.  The state machine has one variable (_next_i), so the
tree of depth L over a 4-letter alphabet covers all of its reachable behaviours.
"""
from __future__ import annotations

import itertools

from mc.engine.report import Result
from mc.fakes import FakeResponse, patched_http

ID = 'C28'
LEVEL = 'fault_enumeration'
LEVEL_TEXT = ('the rotation state is one integer modulo n; every outcome sequence up to a length well beyond n is enumerated for n = 1..4 and for '
              'every entry point (raw request, get/post, the ShellQuery layer incl. streaming monitors), so every reachable behaviour is decided')
RULE = ('every outcome sequence of length L over {ok,404,500-permanent,ConnectionError} x n in 1..4 nodes x '
        'entry in {request, get, post, the ShellQuery layer alternating monitor streams and GETs}; non-trivial = sequence with at least one failure followed by a later request '
        '(distinct by (n, sequence))')
BOUND = {'quick': 'n<=4, L=7, 4 outcomes, entries: request and ShellQuery (monitor/GET)', 'thorough': 'n<=4, L=9, 4 outcomes, 4 entry methods'}
ASSUMPTIONS = ['requests.request and sleep are the only environment seams of RpcNode.request']
OUTCOMES = ['ok', 'e404', 'e500', 'exc']


def shards(tier, seed):
    L = 7 if tier == 'quick' else 9
    methods = ['request', 'shell'] if tier == 'quick' else ['request', 'get', 'post', 'shell']
    return [(n, L, first, m) for n in (1, 2, 3, 4) for first in OUTCOMES for m in methods]


def drive(n, seq, method='request'):
    """Run the real client; return the list of node indices that received each request."""
    from pytezos.rpc.node import RpcMultiNode
    import requests.exceptions
    uris = [f'http://node{i}.invalid' for i in range(n)]
    hits = []
    it = iter(seq)
    cur = {}

    def fake_request(**kw):
        url = kw['url']
        hits.append(next(i for i, u in enumerate(uris) if url.startswith(u + '/')))
        o = cur['o']
        if o == 'ok':
            return FakeResponse(200, {'x': 1})
        if o == 'e404':
            return FakeResponse(404, 'nope', 'text/plain')
        if o == 'e500':
            return FakeResponse(500, [{'kind': 'permanent', 'id': 'x.y'}])
        raise requests.exceptions.ConnectionError('boom')

    client = RpcMultiNode(uris)
    shell = None
    if method == 'shell':
        # the same client behind the real query layer: plain GETs and streaming monitor subscriptions alternate
        from pytezos.rpc.shell import ShellQuery
        shell = ShellQuery(node=client)
    nreq = 0
    with patched_http(fake_request, lambda d: None):
        for o in it:
            cur['o'] = o
            before = len(hits)
            try:
                nreq += 1
                if method == 'shell':
                    if nreq % 2:
                        shell.monitor.bootstrapped()
                    else:
                        shell.chains.main.chain_id()
                elif method == 'request':
                    client.request('GET', 'p')
                elif method == 'get':
                    client.get('p')
                else:
                    client.post('p', json={})
            except Exception:
                pass
            if len(hits) != before + 1:
                hits.append(None)  # no request / several requests for one call
                del hits[before + 1:]
    return hits


def check(n, seq, method):
    hits = drive(n, seq, method)
    out = []
    for i, h in enumerate(hits):
        if h != i % n:
            prev = seq[i - 1] if i else '-'
            out.append((f'request after {"failure" if prev != "ok" else "success"} goes to wrong node',
                        f'n={n} seq={list(seq)} request #{i} reached node {h}, expected {i % n}; hits={hits}'))
            break
    return out


def run_shard(spec, tier):
    n, L, first, method = spec
    r = Result()
    for rest in itertools.product(OUTCOMES, repeat=L - 1):
        seq = (first,) + rest
        r.ev()
        if any(o != 'ok' for o in seq[:-1]):
            r.nt((n, seq))
        case = {'n': n, 'seq': list(seq), 'method': method}
        vs = check(n, seq, method)
        r.out('rotation-ok' if not vs else 'rotation-broken')
        for d, detail in vs:
            r.viol(d, case, detail)
        if first == 'e404' and rest[:2] == ('ok', 'exc') and len(r.samples) < 1:
            r.sample(case)
    r.sample(case)
    return r


def replay(case):
    return check(case['n'], tuple(case['seq']), case.get('method', 'request'))


def observe(case):
    return drive(case['n'], tuple(case['seq']), case.get('method', 'request'))
