"""C30 — protocol source diffs apply and revert exactly.

Exploration (small-scope exhaustive, round-trip oracle on the implementation itself):
 * text level: every ordered pair (a, b) of texts over a line alphabet x every context size:
     apply_patch(a, make_patch(a, b)) == b   and   apply_patch(b, patch, revert=True) == a
   Texts = every sequence of <= N lines over {a, b, c, empty line}, with and without trailing newline, and the
   empty text; an extended alphabet adds lines that look like patch syntax (`-x`, `+x`, `@x`, `\\x`) and lines
   containing characters str.splitlines() also splits on (`\\r`, form feed).
 * protocol level: every ordered pair (A, B) of protocols with 0..2 (thorough: 0..3) files over a few texts:
   A.patch(A.diff(B, ctx)) must have exactly B's files.  Protocol.patch is additionally driven with a patch
   protocol assembled by hand from make_patch, so that it is judged even where Protocol.diff fails.
"""
from __future__ import annotations

import itertools

from mc.engine.report import Result

ID = 'C30'
LEVEL = 'exploration'
RULE = ('every ordered pair of texts x every context size, and every ordered pair of small protocols x context size; '
        'non-trivial = distinct non-empty patch skeletons (hunk headers + sign of every patch line + no-EOL markers, '
        'line contents abstracted) for texts, and distinct (A files, B files) with A != B for protocols')
BOUND = {
    'quick': 'texts: <=4 lines over {a,b,c,""} +- trailing newline (all ordered pairs) x context 0..3; extended alphabet '
             '{a,b,-x,+x,@x,\\x,x\\ry,x\\r,formfeed} <=2 lines x context 0..3; protocols: 0..2 files from {a.ml,a.mli,b.ml} '
             '(both orders) over 4 texts, all ordered pairs x context {0,3}',
    'thorough': 'texts: <=5 lines over {a,b,c,""} +- trailing newline x context 0..4; extended alphabet <=3 lines x context 0..3 '
                '(a context >= the number of lines covers the whole text); '
                'protocols: 0..3 files over 4 texts, all ordered pairs x context 0..3',
}
ASSUMPTIONS = [
    'round trip is judged on str equality of whole texts; the patch format itself is not judged',
    '"reproduces the second protocol" is judged on the set of (file name, text) pairs; component order and hash are '
    'recorded as outcomes but not judged',
]
LEVEL_TEXT = ('exhaustive over all pairs of small texts incl. every trailing-newline combination and patch-syntax look-alike '
              'lines; all diff hunks shapes up to 5 lines are covered, longer texts only through the same code paths')

BASE = ['a', 'b', 'c', '']
EXT = ['a', 'b', '-x', '+x', '--x', '++x', '@x', '\\x', 'x\ry', 'x\r', 'p\x0cq']   # '--x' / '++x': a removed / added line that looks like a file header in the patch
NAMES = ['a.ml', 'a.mli', 'b.ml']
PTEXTS = ['a\nb\nc\n', 'a\nx\nc\n', 'a\nb', '']

_texts_cache = {}


def texts(alpha_name, maxn):
    key = (alpha_name, maxn)
    if key not in _texts_cache:
        alpha = BASE if alpha_name == 'base' else EXT
        out, seen = [], set()
        for n in range(maxn + 1):
            for seq in itertools.product(alpha, repeat=n):
                for nl in (True, False):
                    t = '\n'.join(seq) + ('\n' if nl and n else '')
                    if t not in seen:
                        seen.add(t)
                        out.append(t)
        _texts_cache[key] = out
    return _texts_cache[key]


def plan(tier):
    """-> list of (alphabet, max lines, contexts)"""
    if tier == 'quick':
        return [('base', 4, [0, 1, 2, 3]), ('ext', 2, [0, 1, 2, 3])]
    return [('base', 5, [0, 1, 2, 3, 4]), ('ext', 3, [0, 1, 2, 3])]


# ---------------------------------------------------------------- text level
def skeleton(patch):
    ls = patch.split('\n')[2:]
    return '|'.join(l if l.startswith('@@') else l[:1] for l in ls)


def text_check(a, b, ctx):
    """-> (outcome label, skeleton or None, [(descriptor, detail)])"""
    from pytezos.protocol.diff import apply_patch, make_patch
    try:
        p = make_patch(a, b, 'f.ml', ctx)
    except Exception as e:
        return 'make_patch raises', None, [(f'make_patch raises {type(e).__name__}', f'a={a!r} b={b!r} ctx={ctx}: {e}')]
    vs = []
    try:
        fwd = apply_patch(a, p)
        if fwd != b:
            vs.append(('apply_patch(a, make_patch(a,b)) != b', f'a={a!r} b={b!r} ctx={ctx} patch={p!r} got={fwd!r}'))
    except Exception as e:
        vs.append((f'apply_patch raises {type(e).__name__}', f'a={a!r} b={b!r} ctx={ctx} patch={p!r}: {e}'))
    try:
        rev = apply_patch(b, p, revert=True)
        if rev != a:
            vs.append(('apply_patch(b, patch, revert=True) != a', f'a={a!r} b={b!r} ctx={ctx} patch={p!r} got={rev!r}'))
    except Exception as e:
        vs.append((f'apply_patch revert raises {type(e).__name__}', f'a={a!r} b={b!r} ctx={ctx} patch={p!r}: {e}'))
    if not p:
        label = 'identical texts, empty patch' if a == b else 'DIFFERENT texts, empty patch'
        return label, None, vs
    sk = skeleton(p)
    nh = sk.count('@@ -')
    ne = sk.count('\\')
    label = f'{min(nh, 4)}{"+" if nh >= 4 else ""} hunk(s), {ne} no-EOL marker(s), {"round trip ok" if not vs else "ROUND TRIP BROKEN"}'
    return label, sk, vs


def run_text_shard(alpha, maxn, ctxs, k, nshards, r):
    T = texts(alpha, maxn)
    case = None
    for i in range(k, len(T), nshards):
        a = T[i]
        for b in T:
            for ctx in ctxs:
                r.ev()
                label, sk, vs = text_check(a, b, ctx)
                r.out(f'text/{alpha}: {label}')
                if sk is not None:
                    r.nt(sk)
                case = {'kind': 'text', 'a': a, 'b': b, 'ctx': ctx}
                for d, detail in vs:
                    r.viol(d, case, detail)
        if i == k and len(r.samples) < 1:
            r.sample({'kind': 'text', 'a': a, 'b': T[min(len(T) - 1, 7)], 'ctx': ctxs[-1]})
    if case:
        r.sample(case)


# ---------------------------------------------------------------- protocol level
def protocols(tier):
    maxf = 2 if tier == 'quick' else 3
    out = [[]]
    for n in range(1, maxf + 1):
        for names in itertools.permutations(NAMES, n):
            for ts in itertools.product(range(len(PTEXTS)), repeat=n):
                out.append([[nm, PTEXTS[t]] for nm, t in zip(names, ts)])
    return out


def proto_check(fa, fb, ctx):
    """-> (label, [(descriptor, detail)])"""
    from pytezos.protocol.diff import make_patch
    from pytezos.protocol.protocol import Protocol, files_to_proto
    fa = [tuple(x) for x in fa]
    fb = [tuple(x) for x in fb]
    A = Protocol(files_to_proto(fa))
    B = Protocol(files_to_proto(fb))
    want = dict(fb)
    vs = []
    if dict(iter(B)) != want:   # harness sanity: the protocol object reports the files it was built from
        raise AssertionError(f'Protocol does not report its own files: {fb} -> {list(B)}')
    yours = dict(fa)
    hand = Protocol(files_to_proto([(n, make_patch(yours.get(n, ''), t, n, ctx)) for n, t in fb]))
    label = []
    for how in ('diff', 'hand'):
        if how == 'diff':
            try:
                D = A.diff(B, context_size=ctx)
            except Exception as e:
                vs.append((f'Protocol.diff raises {type(e).__name__} for two Protocol instances',
                           f'A={fa} B={fb} ctx={ctx}: {e}'))
                label.append('diff RAISES')
                continue
        else:
            D = hand
        try:
            R = A.patch(D)
        except Exception as e:
            vs.append((f'Protocol.patch raises {type(e).__name__} for a Protocol instance',
                       f'A={fa} B={fb} ctx={ctx} (patch from {how}): {e}'))
            label.append(f'patch({how}) RAISES')
            continue
        got = list(R)
        if dict(got) != want or len(got) != len(want):
            vs.append((('A.patch(A.diff(B)) does not have B\'s files' if how == 'diff'
                        else 'A.patch(hand-made diff protocol) does not have B\'s files'),
                       f'A={fa} B={fb} ctx={ctx} got={got}'))
            label.append(f'patch({how}) WRONG FILES')
        else:
            same_hash = R.hash() == B.hash()
            label.append(f'patch({how}) ok, hash {"same" if same_hash else "differs"}')
    # de-duplicate (both routes may fail the same way only with different descriptors, keep all)
    na, nb = len(fa), len(fb)
    shared = len(set(dict(fa)) & set(want))
    return f'proto {na}->{nb} files, {shared} shared: ' + '; '.join(label), vs


def run_proto_shard(tier, k, nshards, r):
    P = protocols(tier)
    ctxs = [0, 3] if tier == 'quick' else [0, 1, 2, 3]
    case = None
    for i in range(k, len(P), nshards):
        fa = P[i]
        for fb in P:
            for ctx in ctxs:
                r.ev()
                label, vs = proto_check(fa, fb, ctx)
                r.out(label)
                if fa != fb:
                    r.nt(('proto', repr(fa), repr(fb)))
                case = {'kind': 'proto', 'A': fa, 'B': fb, 'ctx': ctx}
                for d, detail in vs:
                    r.viol(d, case, detail)
    if case:
        r.sample(case)


# ---------------------------------------------------------------- driver interface
def shards(tier, seed):
    out = []
    for alpha, maxn, ctxs in plan(tier):
        n = 64 if tier == 'thorough' else 16
        out += [('text', alpha, maxn, ctxs, k, n) for k in range(n)]
    out += [('proto', k, 16) for k in range(16)]
    return out


def run_shard(spec, tier):
    r = Result()
    if spec[0] == 'text':
        _, alpha, maxn, ctxs, k, n = spec
        run_text_shard(alpha, maxn, ctxs, k, n, r)
    else:
        _, k, n = spec
        run_proto_shard(tier, k, n, r)
    return r


def replay(case):
    if case['kind'] == 'text':
        return text_check(case['a'], case['b'], case['ctx'])[2]
    return proto_check(case['A'], case['B'], case['ctx'])[1]


def observe(case):
    if case['kind'] == 'text':
        from pytezos.protocol.diff import apply_patch, make_patch
        p = make_patch(case['a'], case['b'], 'f.ml', case['ctx'])
        return [p, apply_patch(case['a'], p), apply_patch(case['b'], p, revert=True)]
    label, vs = proto_check(case['A'], case['B'], case['ctx'])
    return [label, [d for d, _ in vs]]
