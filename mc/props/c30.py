"""C30 — protocol source diffs apply and revert exactly.

Exploration (small-scope exhaustive, round-trip oracle on the implementation itself):
 * text level: every ordered pair (a, b) of texts over a line alphabet x every context size:
     apply_patch(a, make_patch(a, b)) == b   and   apply_patch(b, patch, revert=True) == a
   Texts = every sequence of <= N lines over {a, b, c, empty line}, with and without trailing newline, and the
   empty text; an extended alphabet adds lines that look like patch syntax (`-x`, `+x`, `@x`, `\\x`) and lines
   containing characters str.splitlines() also splits on (`\\r`, form feed).
 * long texts: texts of 12 / 25 / 102 / 1002 lines (line numbers and hunk lengths of 2, 3 and 4 digits in the hunk
   headers), all-distinct lines and a 3-periodic line pattern, against every edit of one range of lines or of two
   separate lines, every trailing-newline combination.
 * protocol level: every ordered pair (A, B) of protocols with 0..2 (thorough: 0..3) files over a few texts:
   A.patch(A.diff(B, ctx)) must have exactly B's files.  Protocol.patch is additionally driven with a patch
   protocol assembled by hand from make_patch, so that it is judged even where Protocol.diff fails.
 * protocol call sequences (process history, judged call by call): bound diff/patch methods taken from two live
   protocols in every order before being called, nested and chained diff/patch expressions, A->B, B->A, A->B on the
   same objects, short-lived protocols built, listed and dropped one after another.
 * every protocol-level case runs against the Protocol class as imported by the process AND against a second copy of
   pytezos.protocol.protocol executed in the mode pytezos is in under pytest / unittest / IPython (the inline-docstring
   descriptors of pytezos.jupyter then stand between the caller and Protocol.diff / Protocol.patch).
"""
from __future__ import annotations

import itertools

from mc.engine.report import Result

ID = 'C30'
LEVEL = 'exploration'
RULE = ('every ordered pair of texts x every context size; long texts x every one-range / two-line edit x context; every '
        'ordered pair of small protocols x context size x {plain, test-runner} class mode; every call sequence of the '
        'sequence alphabet x ordered protocol pair x mode; '
        'non-trivial = distinct non-empty patch skeletons (hunk headers + sign of every patch line + no-EOL markers, '
        'line contents abstracted) for texts, distinct (mode, A files, B files) with A != B for protocol pairs and '
        'distinct (mode, script, A files, B files) with A != B for call sequences')
BOUND = {
    'quick': 'texts: <=4 lines over {a,b,c,""} +- trailing newline (all ordered pairs) x context 0..3; extended alphabet '
             '{a,b,-x,+x,--x,++x,@x,\\x,x\\ry,x\\r,formfeed} <=2 lines x context 0..3; long texts: 12 lines (distinct / '
             '3-periodic) x every replacement of a line range [i,j) by 0,1,2,11 lines and every two single-line '
             'replace/delete/insert edits x 4 trailing-newline combinations x context {0,1,2,3,12}; 102 lines: a single-line '
             'edit at every position and two edits at positions around 1,10,100 x context {0,1,3}; 1002 lines: edits at '
             'positions around 1,10,100,1000 x context {0,3}; protocols: 0..2 files from {a.ml,a.mli,b.ml} '
             '(both orders) over 4 texts, all ordered pairs x context {0,3} x 2 class modes; call sequences: 28 scripts '
             '(24 fetch orders of A.diff,B.diff,A.patch,B.patch; nested; chained; A-B-A; rebuild) x all ordered pairs of 66 '
             'protocols (0..2 files over 5 texts) x context {0,3} x 2 class modes',
    'thorough': 'texts: <=5 lines over {a,b,c,""} +- trailing newline x context 0..4; extended alphabet <=3 lines x context 0..3 '
                '(a context >= the number of lines covers the whole text); long texts: 12 and 25 lines in full (context 0..4 and '
                'whole text), 102 lines (both line patterns) single edits everywhere + pairs at decimal boundaries x context 0..3, '
                '1002 lines at decimal boundaries x context {0,1,3}; '
                'protocols: 0..3 files over 4 texts, all ordered pairs x context 0..3 x 2 class modes; call sequences: 28 scripts x '
                'all ordered pairs of 66 protocols x context 0..3 x 2 class modes',
}
ASSUMPTIONS = [
    'round trip is judged on str equality of whole texts; the patch format itself is not judged',
    '"reproduces the second protocol" is judged on the set of (file name, text) pairs; component order and hash are '
    'recorded as outcomes but not judged',
    'a protocol IS the files it was built from (files_to_proto); that a Protocol object lists exactly these files is checked '
    'first, because every other protocol-level verdict reads its result through that listing',
    'the test-runner mode is produced by executing a second copy of pytezos/protocol/protocol.py after `import unittest` '
    'and a reset of the is_interactive() memo, which is what happens when pytezos is first imported under pytest',
]
LEVEL_TEXT = ('exhaustive over all pairs of small texts incl. every trailing-newline combination and patch-syntax look-alike '
              'lines; all diff hunk shapes up to 5 lines are covered, multi-digit hunk headers through systematic edits of '
              '12..1002-line texts; protocol objects are driven through every short call history of the sequence alphabet in '
              'both class modes; longer histories and other texts only through the same code paths')

BASE = ['a', 'b', 'c', '']
EXT = ['a', 'b', '-x', '+x', '--x', '++x', '@x', '\\x', 'x\ry', 'x\r', 'p\x0cq']   # '--x' / '++x': a removed / added line that looks like a file header in the patch
NAMES = ['a.ml', 'a.mli', 'b.ml']
PTEXTS = ['a\nb\nc\n', 'a\nx\nc\n', 'a\nb', '']
MODES = ['plain', 'runner']

_texts_cache = {}


def texts(alpha_name, maxn):
    key = (alpha_name, maxn)
    if key not in _texts_cache:
        alpha = BASE if alpha_name == 'base' else EXT
        out, seen = [], set()
        for n in range(maxn + 1):
            for seq in itertools.product(alpha, repeat=n):
                for nl in (True, False):
                    t = '\n'.join(seq) + ('\n' if nl and n else '')
                    if t not in seen:
                        seen.add(t)
                        out.append(t)
        _texts_cache[key] = out
    return _texts_cache[key]


def plan(tier):
    """-> list of (alphabet, max lines, contexts)"""
    if tier == 'quick':
        return [('base', 4, [0, 1, 2, 3]), ('ext', 2, [0, 1, 2, 3])]
    return [('base', 5, [0, 1, 2, 3, 4]), ('ext', 3, [0, 1, 2, 3])]


# ---------------------------------------------------------------- text level
def skeleton(patch):
    ls = patch.split('\n')[2:]
    return '|'.join(l if l.startswith('@@') else l[:1] for l in ls)


def _show(t):
    return repr(t) if len(t) <= 400 else f'{t[:150]!r}...({len(t)} chars, {t.count(chr(10))} newlines)...{t[-150:]!r}'


def text_check(a, b, ctx):
    """-> (outcome label, skeleton or None, [(descriptor, detail)])"""
    from pytezos.protocol.diff import apply_patch, make_patch
    try:
        p = make_patch(a, b, 'f.ml', ctx)
    except Exception as e:
        return 'make_patch raises', None, [(f'make_patch raises {type(e).__name__}', f'a={_show(a)} b={_show(b)} ctx={ctx}: {e}')]
    vs = []
    try:
        fwd = apply_patch(a, p)
        if fwd != b:
            vs.append(('apply_patch(a, make_patch(a,b)) != b', f'a={_show(a)} b={_show(b)} ctx={ctx} patch={_show(p)} got={_show(fwd)}'))
    except Exception as e:
        vs.append((f'apply_patch raises {type(e).__name__}', f'a={_show(a)} b={_show(b)} ctx={ctx} patch={_show(p)}: {e}'))
    try:
        rev = apply_patch(b, p, revert=True)
        if rev != a:
            vs.append(('apply_patch(b, patch, revert=True) != a', f'a={_show(a)} b={_show(b)} ctx={ctx} patch={_show(p)} got={_show(rev)}'))
    except Exception as e:
        vs.append((f'apply_patch revert raises {type(e).__name__}', f'a={_show(a)} b={_show(b)} ctx={ctx} patch={_show(p)}: {e}'))
    if not p:
        label = 'identical texts, empty patch' if a == b else 'DIFFERENT texts, empty patch'
        return label, None, vs
    sk = skeleton(p)
    nh = sk.count('@@ -')
    ne = sk.count('\\')
    label = f'{min(nh, 4)}{"+" if nh >= 4 else ""} hunk(s), {ne} no-EOL marker(s), {"round trip ok" if not vs else "ROUND TRIP BROKEN"}'
    return label, sk, vs


def run_text_shard(alpha, maxn, ctxs, k, nshards, r):
    T = texts(alpha, maxn)
    case = None
    for i in range(k, len(T), nshards):
        a = T[i]
        for b in T:
            for ctx in ctxs:
                r.ev()
                label, sk, vs = text_check(a, b, ctx)
                r.out(f'text/{alpha}: {label}')
                if sk is not None:
                    r.nt(sk)
                case = {'kind': 'text', 'a': a, 'b': b, 'ctx': ctx}
                for d, detail in vs:
                    r.viol(d, case, detail)
        if i == k and len(r.samples) < 1:
            r.sample({'kind': 'text', 'a': a, 'b': T[min(len(T) - 1, 7)], 'ctx': ctxs[-1]})
    if case:
        r.sample(case)


# ---------------------------------------------------------------- long texts (multi-digit hunk headers)
def long_plan(tier):
    """-> list of (lines L, line pattern, 'full' | 'edges', contexts).
    full: every range replacement and every pair of single-line edits; edges: single-line edits at every position (L <= 200)
    or at the decimal boundaries (larger L), pairs of single-line edits at the decimal boundaries."""
    if tier == 'quick':
        return [(12, 'uniq', 'full', [0, 1, 2, 3, 12]), (12, 'cyc', 'full', [0, 1, 2, 3, 12]),
                (102, 'uniq', 'edges', [0, 1, 3]), (1002, 'uniq', 'edges', [0, 3])]
    return [(12, 'uniq', 'full', [0, 1, 2, 3, 4, 12]), (12, 'cyc', 'full', [0, 1, 2, 3, 4, 12]),
            (25, 'uniq', 'full', [0, 1, 2, 3, 4, 25]), (25, 'cyc', 'full', [0, 1, 2, 3, 4, 25]),
            (102, 'uniq', 'edges', [0, 1, 2, 3]), (102, 'cyc', 'edges', [0, 1, 2, 3]),
            (1002, 'uniq', 'edges', [0, 1, 3])]


def boundary_positions(L):
    """0-based line indices next to every power of ten (so that the 1-based header numbers 9,10,11, 99,100,101 ... occur) and both ends"""
    ps = {0, 1, L - 2, L - 1}
    p = 10
    while p <= L:
        ps |= {p - 2, p - 1, p}
        p *= 10
    return sorted(x for x in ps if 0 <= x < L)


def long_edits(L, how):
    """-> list of edit scripts; a script is a list of non-overlapping (i, j, m): lines [i, j) are replaced by m new lines"""
    out = []
    if how == 'full':
        for i in range(L + 1):
            for j in range(i, L + 1):
                for m in sorted({0, 1, 2, L - 1}):
                    if i < j or m:
                        out.append([(i, j, m)])
        pos = list(range(L))
    else:
        pos = boundary_positions(L)
        single = list(range(L)) if L <= 200 else pos
        for p in single:
            out += [[(p, p + 1, 1)], [(p, p + 1, 0)], [(p, p, 1)]]
        out.append([(L, L, 1)])
    ops = [lambda p: (p, p + 1, 1), lambda p: (p, p + 1, 0), lambda p: (p, p, 1)]   # replace, delete, insert before
    for p, q in itertools.combinations(pos, 2):
        for o1 in ops:
            for o2 in ops:
                out.append([o1(p), o2(q)])
    return out


def long_texts(L, pattern, script, a_nl, b_nl):
    old = [f'l{i + 1}' for i in range(L)] if pattern == 'uniq' else ['abc'[i % 3] for i in range(L)]
    new = list(old)
    for i, j, m in reversed(script):
        new[i:j] = [(f'n{i + 1}.{x}' if pattern == 'uniq' else 'x') for x in range(m)]
    a = '\n'.join(old) + ('\n' if a_nl and old else '')
    b = '\n'.join(new) + ('\n' if b_nl and new else '')
    return a, b


def run_long_shard(L, pattern, how, ctxs, k, nshards, r):
    E = long_edits(L, how)
    case = None
    for idx in range(k, len(E), nshards):
        script = E[idx]
        for a_nl in (True, False):
            for b_nl in (True, False):
                a, b = long_texts(L, pattern, script, a_nl, b_nl)
                for ctx in ctxs:
                    r.ev()
                    label, sk, vs = text_check(a, b, ctx)
                    r.out(f'long/{L} lines {pattern}: {label}')
                    if sk is not None:
                        r.nt(sk)
                    case = {'kind': 'text', 'a': a, 'b': b, 'ctx': ctx}
                    for d, detail in vs:
                        r.viol(d, case, detail)
    if case:
        r.sample(case)


# ---------------------------------------------------------------- protocol level
_mods = {}


def protocol_module(mode):
    """'plain': pytezos.protocol.protocol as the process imported it.  'runner': a second copy of the same source file executed
    while pytezos.jupyter.is_interactive() answers True, the way it does when pytezos is imported under pytest / unittest /
    IPython: the public methods of Protocol are then wrapped by the inline-docstring descriptors.  -> (module, wrapped?)"""
    if mode not in _mods:
        import inspect
        import pytezos.protocol.protocol as real
        if mode == 'plain':
            m = real
        else:
            import importlib.util
            import unittest  # noqa: F401  what is_interactive() looks for in sys.modules
            import pytezos.jupyter as jup
            clear = getattr(getattr(jup, 'is_interactive', None), 'cache_clear', None)
            if clear:
                clear()
            spec = importlib.util.spec_from_file_location('pytezos.protocol.protocol_as_under_a_test_runner', real.__file__)
            m = importlib.util.module_from_spec(spec)
            spec.loader.exec_module(m)
        _mods[mode] = (m, not inspect.isfunction(m.Protocol.__dict__.get('diff')))
    return _mods[mode]


def mode_label(mode):
    return f'{mode}{"/wrapped methods" if protocol_module(mode)[1] else "/bare methods"}'


def protocols(tier):
    maxf = 2 if tier == 'quick' else 3
    out = [[]]
    for n in range(1, maxf + 1):
        for names in itertools.permutations(NAMES, n):
            for ts in itertools.product(range(len(PTEXTS)), repeat=n):
                out.append([[nm, PTEXTS[t]] for nm, t in zip(names, ts)])
    return out


BUILT = 'a Protocol built from files does not list those files'
FWD = 'A.patch(A.diff(B)) does not have B\'s files'
HAND = 'A.patch(hand-made diff protocol) does not have B\'s files'
STORED = 'diff/patch methods taken from two protocols before being called: a result does not have the target\'s files'
NESTED = 'A.patch(B.patch(B.diff(A)).diff(B)) does not have B\'s files'
CHAIN = 'A.patch(A.diff(B)).patch(B.diff(A)) does not have A\'s files'
ABA = 'round trips A->B, B->A, A->B on the same two objects: a result does not have the target\'s files'
REBUILD = 'short-lived protocols: build(A).patch(build(A).diff(build(B))) does not have B\'s files'


class _Tools:
    """the few observations and calls every protocol-level script is made of; failures are collected, never raised"""

    def __init__(self, mode, fa, fb, ctx, what):
        self.m = protocol_module(mode)[0]
        self.ctx = ctx
        self.vs = []
        self.info = f'mode={mode} A={fa} B={fb} ctx={ctx} {what}'

    def build(self, files):
        return self.m.Protocol(self.m.files_to_proto(files))

    def has(self, obj, files, desc, step=''):
        """observation: obj lists exactly `files` (as a set of (name, text) pairs); None (an earlier call failed) is skipped"""
        if obj is None:
            return False
        try:
            got = list(obj)
        except Exception as e:
            self.vs.append((f'listing the files of a Protocol raises {type(e).__name__}', f'{self.info} {step}: {e}'))
            return False
        try:
            same = dict(got) == dict(files) and len(got) == len(files)
        except Exception:
            same = False
        if not same:
            self.vs.append((desc, f'{self.info} {step} want={list(files)} got={got}'))
        return same

    def diff(self, method, other, step=''):
        if method is None or other is None:
            return None
        try:
            return method(other, context_size=self.ctx)
        except Exception as e:
            self.vs.append((f'Protocol.diff raises {type(e).__name__} for two Protocol instances', f'{self.info} {step}: {e}'))
            return None

    def patch(self, method, d, step=''):
        if method is None or d is None:
            return None
        try:
            return method(d)
        except Exception as e:
            self.vs.append((f'Protocol.patch raises {type(e).__name__} for a Protocol instance', f'{self.info} {step}: {e}'))
            return None

    def get(self, obj, name):
        try:
            return getattr(obj, name)
        except Exception as e:
            self.vs.append((f'looking up Protocol.{name} raises {type(e).__name__}', f'{self.info}: {e}'))
            return None


def proto_check(fa, fb, ctx, mode='plain'):
    """-> (label, [(descriptor, detail)])"""
    from pytezos.protocol.diff import make_patch
    fa = [tuple(x) for x in fa]
    fb = [tuple(x) for x in fb]
    t = _Tools(mode, fa, fb, ctx, '')
    try:
        A = t.build(fa)
        B = t.build(fb)
    except Exception as e:
        return 'building a Protocol RAISES', [(f'Protocol(files_to_proto(files)) raises {type(e).__name__}', f'{t.info}: {e}')]
    label = []
    if not (t.has(A, fa, BUILT, 'A') & t.has(B, fb, BUILT, 'B')):
        label.append('OWN FILES NOT LISTED')
    yours = dict(fa)
    try:
        hand = t.build([(n, make_patch(yours.get(n, ''), x, n, ctx)) for n, x in fb])
    except Exception as e:
        t.vs.append((f'make_patch raises {type(e).__name__}', f'{t.info}: {e}'))
        hand = None
    for how in ('diff', 'hand'):
        if how == 'diff':
            D = t.diff(t.get(A, 'diff'), B)
            if D is None:
                label.append('diff RAISES')
                continue
        else:
            D = hand
        R = t.patch(t.get(A, 'patch'), D, f'(patch from {how})')
        if R is None:
            label.append(f'patch({how}) RAISES')
        elif not t.has(R, fb, FWD if how == 'diff' else HAND):
            label.append(f'patch({how}) WRONG FILES')
        else:
            try:
                same_hash = R.hash() == B.hash()
            except Exception:
                same_hash = None
            label.append(f'patch({how}) ok, hash {"same" if same_hash else "differs" if same_hash is False else "raises"}')
    na, nb = len(fa), len(fb)
    shared = len(set(dict(fa)) & set(dict(fb)))
    return f'proto[{mode_label(mode)}] {na}->{nb} files, {shared} shared: ' + '; '.join(label), t.vs


def run_proto_shard(tier, mode, k, nshards, r):
    P = protocols(tier)
    ctxs = [0, 3] if tier == 'quick' else [0, 1, 2, 3]
    case = None
    for i in range(k, len(P), nshards):
        fa = P[i]
        for fb in P:
            for ctx in ctxs:
                r.ev()
                label, vs = proto_check(fa, fb, ctx, mode)
                r.out(label)
                if fa != fb:
                    r.nt(('proto', mode, repr(fa), repr(fb)))
                case = {'kind': 'proto', 'A': fa, 'B': fb, 'ctx': ctx, 'mode': mode}
                for d, detail in vs:
                    r.viol(d, case, detail)
    if case:
        r.sample(case)


# ---------------------------------------------------------------- protocol call sequences (process history)
STEXTS = ['a\nb\nc\n', 'a\nx\nc\n', 'x\na\nb\nc\n', 'a\nb', '']     # differences at different line positions
FETCH = ['dA', 'dB', 'pA', 'pB']
SCRIPTS = ['fetch:' + ','.join(p) for p in itertools.permutations(FETCH)] + ['nested', 'chain', 'aba', 'rebuild']

_seq_cache = []


def seq_protocols():
    if not _seq_cache:
        out = [[]]
        for nm in NAMES:
            out += [[[nm, x]] for x in STEXTS]
        for names in (('a.mli', 'a.ml'), ('a.ml', 'b.ml')):
            for x, y in itertools.product(STEXTS, repeat=2):
                out.append([[names[0], x], [names[1], y]])
        _seq_cache.extend(out)
    return _seq_cache


def seq_check(mode, fa, fb, ctx, script):
    """One call history on protocol objects, every result judged against the files the target was built from.
    -> (label, [(descriptor, detail)])"""
    fa = [tuple(x) for x in fa]
    fb = [tuple(x) for x in fb]
    t = _Tools(mode, fa, fb, ctx, f'script={script}')
    ctxkw = {'context_size': ctx}
    try:
        A = t.build(fa)
        B = t.build(fb)
    except Exception as e:
        return 'building a Protocol RAISES', [(f'Protocol(files_to_proto(files)) raises {type(e).__name__}', f'{t.info}: {e}')]
    t.has(A, fa, BUILT, 'A')
    t.has(B, fb, BUILT, 'B')
    if script.startswith('fetch:'):
        # the four bound methods are looked up in the given order, all of them before the first call
        where = {'dA': (A, 'diff'), 'dB': (B, 'diff'), 'pA': (A, 'patch'), 'pB': (B, 'patch')}
        bound = {}
        for nm in script[6:].split(','):
            bound[nm] = t.get(*where[nm])
        d_ab = t.diff(bound['dA'], B, 'dA(B)')
        t.has(t.patch(bound['pA'], d_ab, 'pA(dA(B))'), fb, STORED, 'pA(dA(B))')
        d_ba = t.diff(bound['dB'], A, 'dB(A)')
        t.has(t.patch(bound['pB'], d_ba, 'pB(dB(A))'), fa, STORED, 'pB(dB(A))')
        # a stored diff result applied through a freshly looked-up method, and a fresh diff through a stored patch method
        t.has(t.patch(t.get(A, 'patch'), d_ab, 'A.patch(dA(B))'), fb, STORED, 'A.patch(dA(B))')
        t.has(t.patch(bound['pB'], t.diff(t.get(B, 'diff'), A, 'B.diff(A)'), 'pB(B.diff(A))'), fa, STORED, 'pB(B.diff(A))')
    elif script == 'nested':
        try:
            R = A.patch(B.patch(B.diff(A, **ctxkw)).diff(B, **ctxkw))
        except Exception as e:
            t.vs.append((f'A.patch(B.patch(B.diff(A)).diff(B)) raises {type(e).__name__}', f'{t.info}: {e}'))
            R = None
        t.has(R, fb, NESTED)
    elif script == 'chain':
        try:
            R = A.patch(A.diff(B, **ctxkw)).patch(B.diff(A, **ctxkw))
        except Exception as e:
            t.vs.append((f'A.patch(A.diff(B)).patch(B.diff(A)) raises {type(e).__name__}', f'{t.info}: {e}'))
            R = None
        t.has(R, fa, CHAIN)
    elif script == 'aba':
        r1 = t.patch(t.get(A, 'patch'), t.diff(t.get(A, 'diff'), B, '1:A.diff(B)'), '1:A.patch')
        t.has(r1, fb, ABA, 'step 1')
        r2 = t.patch(t.get(B, 'patch'), t.diff(t.get(B, 'diff'), A, '2:B.diff(A)'), '2:B.patch')
        t.has(r2, fa, ABA, 'step 2')
        r3 = t.patch(t.get(A, 'patch'), t.diff(t.get(A, 'diff'), B, '3:A.diff(B)'), '3:A.patch')
        t.has(r3, fb, ABA, 'step 3')
        t.has(r1, fb, ABA, 'step 1 result listed again after steps 2 and 3')
    elif script == 'rebuild':
        # nothing is kept alive: every protocol is a temporary that is dropped as soon as it has been used
        del A, B
        for files, nm in ((fa, 'A'), (fb, 'B'), (fa, 'A again'), (fb, 'B again')):
            try:
                t.has(t.build(files), files, BUILT, f'temporary {nm}')
            except Exception as e:
                t.vs.append((f'Protocol(files_to_proto(files)) raises {type(e).__name__}', f'{t.info}: {e}'))
        try:
            R = t.build(fa).patch(t.build(fa).diff(t.build(fb), **ctxkw))
        except Exception as e:
            t.vs.append((f'build(A).patch(build(A).diff(build(B))) raises {type(e).__name__}', f'{t.info}: {e}'))
            R = None
        t.has(R, fb, REBUILD)
    else:
        raise ValueError(script)
    kind = script.split(':')[0]
    return f'seq[{mode_label(mode)}] {kind}: {"all results as expected" if not t.vs else "WRONG"}', t.vs


def run_seq_shard(tier, mode, k, nshards, r):
    P = seq_protocols()
    ctxs = [0, 3] if tier == 'quick' else [0, 1, 2, 3]
    case = None
    for i in range(k, len(P), nshards):
        fa = P[i]
        for fb in P:
            for script in SCRIPTS:
                for ctx in ctxs:
                    r.ev()
                    label, vs = seq_check(mode, fa, fb, ctx, script)
                    r.out(label)
                    if fa != fb:
                        r.nt(('seq', mode, script, repr(fa), repr(fb)))
                    case = {'kind': 'seq', 'mode': mode, 'A': fa, 'B': fb, 'ctx': ctx, 'script': script}
                    for d, detail in vs:
                        r.viol(d, case, detail)
    if case:
        r.sample(case)


# ---------------------------------------------------------------- driver interface
def shards(tier, seed):
    out = []
    for alpha, maxn, ctxs in plan(tier):
        n = 64 if tier == 'thorough' else 16
        out += [('text', alpha, maxn, ctxs, k, n) for k in range(n)]
    for L, pattern, how, ctxs in long_plan(tier):
        out += [('long', L, pattern, how, ctxs, k, 16) for k in range(16)]
    for mode in MODES:
        out += [('proto', mode, k, 16) for k in range(16)]
        out += [('seq', mode, k, 16) for k in range(16)]
    return out


def run_shard(spec, tier):
    r = Result()
    if spec[0] == 'text':
        _, alpha, maxn, ctxs, k, n = spec
        run_text_shard(alpha, maxn, ctxs, k, n, r)
    elif spec[0] == 'long':
        _, L, pattern, how, ctxs, k, n = spec
        run_long_shard(L, pattern, how, ctxs, k, n, r)
    elif spec[0] == 'proto':
        _, mode, k, n = spec
        run_proto_shard(tier, mode, k, n, r)
    else:
        _, mode, k, n = spec
        run_seq_shard(tier, mode, k, n, r)
    return r


def replay(case):
    if case['kind'] == 'text':
        return text_check(case['a'], case['b'], case['ctx'])[2]
    if case['kind'] == 'seq':
        return seq_check(case['mode'], case['A'], case['B'], case['ctx'], case['script'])[1]
    return proto_check(case['A'], case['B'], case['ctx'], case.get('mode', 'plain'))[1]


def _observe(case):
    if case['kind'] == 'text':
        from pytezos.protocol.diff import apply_patch, make_patch
        p = make_patch(case['a'], case['b'], 'f.ml', case['ctx'])
        return [p, apply_patch(case['a'], p), apply_patch(case['b'], p, revert=True)]
    if case['kind'] == 'seq':
        label, vs = seq_check(case['mode'], case['A'], case['B'], case['ctx'], case['script'])
    else:
        label, vs = proto_check(case['A'], case['B'], case['ctx'], case.get('mode', 'plain'))
    return [label, [d for d, _ in vs]]


def observe(case):
    """The observation is computed in a forked child, so that every observation starts from the same process state: whether the
    code under test carries state from one call to the next is judged by the call sequences, not by this harness self-check
    (which is there to catch a harness that depends on hash order, time or randomness)."""
    import json
    import os
    rfd, wfd = os.pipe()
    pid = os.fork()
    if pid == 0:
        try:
            os.close(rfd)
            try:
                out = {'ok': _observe(case)}
            except BaseException as e:   # noqa: B036  reported to the parent as the observation
                out = {'raised': f'{type(e).__name__}: {e}'}
            with os.fdopen(wfd, 'w') as f:
                json.dump(out, f)
        finally:
            os._exit(0)
    os.close(wfd)
    with os.fdopen(rfd) as f:
        data = f.read()
    os.waitpid(pid, 0)
    return json.loads(data) if data else {'raised': 'no observation came back from the child process'}
