"""C04 — PACK produces the Tezos bytes and UNPACK inverts it (and rejects invalid binary Micheline).

Small-scope exhaustive exploration.  For every packable type up to a depth bound over all packable leaf types
(combs of 2-5 count as ONE constructor) and every value of a collision-forcing domain (key hashes whose digest starts
00..04 / ends 00, every address / key / signature kind, ...):
  (1) `value.pack()` and the real PACK instruction (on a real MichelsonStack) equal the reference packer
      (mc.ref.mtypes.pack: 05 || optimized binary Micheline, combs >= 4 as sequences) byte for byte;
  (2) `Type.unpack(packed)` and the real UNPACK instruction return Some of the same value (read structurally);
  (3) every mutant of the reference packed string -- every truncation, every one-byte extension and every single-byte
      substitution over {00,01,7f,80,ff}, and every integer re-encoded with one / two extra zero groups -- is classified
      by the REFERENCE, three-way:
        invalid binary Micheline (or no 05 prefix)              => both UNPACK paths must give None;
        valid, well-typed and canonical (re-packs to itself)    => both must give Some(reference value);
        anything else (readable spellings, ill-typed, values the reference cannot vouch for) => NO verdict (counted).
`Type.unpack` signals failure by raising; that is read as None.
"""
from __future__ import annotations

import itertools
import json
import re
from functools import lru_cache

from mc import adapter as A
from mc.engine.report import Result
from mc.ref import micheline as R
from mc.ref import mtypes as T

ID = 'C04'
LEVEL = 'exploration'
RULE = ('per type: every value of the type\'s domain is one evaluation of (pack()==reference, PACK instr==reference, '
        'unpack round trip, UNPACK instr round trip); every distinct mutant byte string of a packed value is one '
        'evaluation judged three-way by the reference.  distinct_nontrivial = distinct (type, value) whose packed form is '
        'longer than a bare primitive (>3 bytes); mutants are counted in extra.mutants_* and in the outcome classes '
        '(mutation kind | reference class | implementation outcome)')
BOUND = {
    'quick': '14 leaf types with full domains; every depth-1 type (option/list/set over 14 leaves, pair/or/map over 14x14, '
             '26 combs of 3-5 incl. left-nested and list/pair-ended ones) with 2-3 values per leaf; all mutants of every '
             'leaf-type value and of the first, middle and last value of each depth-1 type',
    'thorough': 'quick types with all mutants of all values, plus every depth-2 type (a constructor over a depth-1 type of the '
                '6-leaf core and a core leaf; 3/4/5-combs holding a depth-1 type over {int,key_hash}) with all mutants, pairs of two '
                'depth-1 types (mutants of first/middle/last value), plus depth-3 spines over a 2-leaf core (mutants of first/last value)',
}
ASSUMPTIONS = [
    'mc/ref/micheline.py + mc/ref/mtypes.py are the Tezos PACK format (selftests: Octez pack vectors, 248 opcode vectors)',
    'keys, 96-byte signatures and lambda bodies produced by MUTATION get a verdict only when they are domain values '
    '(Tezos validates curve points / type-checks code; the reference does not)',
    'a zero with the sign bit set and non-UTF-8 string bytes are not assumed to be rejected by Tezos: no verdict',
    'ill-typed but well-formed Micheline, readable spellings inside packed data and entrypoints outside [A-Za-z0-9_] get no verdict',
    'types carry no annotations (annotated combs are C17\'s subject)',
    'a first byte other than 05 counts as "not valid packed data" (must be None)',
]
LEVEL_TEXT = ('exhaustive over every packable type shape up to the depth bound with class-covering leaf domains, and over every '
              'single-byte mutant of every packed string: decides the framing/sniffing/comb-layout logic, not every value')

SUBST = (0x00, 0x01, 0x7F, 0x80, 0xFF)
SOFT = ('negzero', 'utf8')
REJECT = {
    'no-05-prefix': 'accepts data without the 05 prefix',
    'nonminimal': 'accepts a non-minimal integer encoding',
    'truncated': 'accepts truncated data / a length prefix longer than the data',
    'overrun': 'accepts an element overrunning its sequence length prefix',
    'trailing': 'accepts trailing bytes',
    'unknown-prim': 'accepts an unknown primitive tag',
    'unknown-tag': 'accepts an unknown node tag',
}


# ------------------------------------------------------------------------------------------------ leaf domains
def dg(first, last, fill=0x11):
    return bytes([first]) + bytes([fill]) * 18 + bytes([last])


LAM = ('lambda', ('unit',), ('unit',))
_KH_PUSH = T.key_hash_str(('tz1', dg(9, 9)))
LAMBDAS = [
    [],
    [{'prim': 'DROP'}, {'prim': 'UNIT'}],
    [{'prim': 'PUSH', 'args': [{'prim': 'int'}, {'int': '-64'}]}, {'prim': 'DROP'}],
    [{'prim': 'DIP', 'args': [[{'prim': 'DROP'}, {'prim': 'UNIT'}]]}],
    # a constant of a domain type inside code: Tezos packs code in optimized mode too (PUSH key_hash 0x00...)
    [{'prim': 'DROP'}, {'prim': 'PUSH', 'args': [{'prim': 'key_hash'}, {'string': _KH_PUSH}]}, {'prim': 'DROP'}, {'prim': 'UNIT'}],
    # the same with constants written as SEQUENCES: a list, a map, and a comb in sequence notation
    [{'prim': 'DROP'}, {'prim': 'PUSH', 'args': [{'prim': 'list', 'args': [{'prim': 'key_hash'}]}, [{'string': _KH_PUSH}]]}, {'prim': 'DROP'}, {'prim': 'UNIT'}],
    [{'prim': 'DROP'}, {'prim': 'PUSH', 'args': [{'prim': 'map', 'args': [{'prim': 'nat'}, {'prim': 'address'}]},
                                                 [{'prim': 'Elt', 'args': [{'int': '1'}, {'string': _KH_PUSH}]}]]}, {'prim': 'DROP'}, {'prim': 'UNIT'}],
    [{'prim': 'DROP'}, {'prim': 'PUSH', 'args': [{'prim': 'pair', 'args': [{'prim': 'nat'}, {'prim': 'nat'}, {'prim': 'nat'}, {'prim': 'key_hash'}]},
                                                 [{'int': '1'}, {'int': '2'}, {'int': '3'}, {'string': _KH_PUSH}]]}, {'prim': 'DROP'}, {'prim': 'UNIT'}],
    [{'prim': 'DROP'}, {'prim': 'PUSH', 'args': [{'prim': 'pair', 'args': [{'prim': 'nat'}, {'prim': 'pair', 'args': [{'prim': 'nat'}, {'prim': 'pair', 'args': [{'prim': 'nat'}, {'prim': 'key_hash'}]}]}]},
                                                 [{'int': '1'}, {'int': '2'}, {'int': '3'}, {'string': _KH_PUSH}]]}, {'prim': 'DROP'}, {'prim': 'UNIT'}],
]


def _nary_pair_type(e):
    """code mentions a right comb TYPE of three or more components (however it is spelled)"""
    if isinstance(e, list):
        return any(_nary_pair_type(x) for x in e)
    if isinstance(e, dict) and 'prim' in e:
        a = e.get('args', [])
        if e['prim'] == 'pair' and (len(a) > 2 or (len(a) == 2 and isinstance(a[1], dict) and a[1].get('prim') == 'pair' and not a[1].get('annots'))):
            return True
        return any(_nary_pair_type(x) for x in a)
    return False


def lam(code):
    return ('lam', json.dumps(code, sort_keys=True))


KEYS = [('edpk', bytes(32)), ('edpk', b'\x01' + b'\x22' * 31), ('edpk', b'\xff' * 32),
        ('sppk', b'\x02' + bytes(32)), ('sppk', b'\x03' + b'\xff' * 32),
        ('p2pk', b'\x02' + bytes(32)), ('p2pk', b'\x03' + b'\x22' * 32),
        ('BLpk', bytes(48)), ('BLpk', b'\xff' * 48)]
SIGS = [bytes(64), b'\xff' * 64, bytes(63) + b'\x01', bytes(96), b'\x01' + b'\x22' * 95]
EP31 = 'abcdefghijklmnopqrstuvwxyz01234'
FULL = {
    ('int',): [0, 1, -1, 63, 64, -64, -8192, 2 ** 64],
    ('nat',): [0, 1, 64, 2 ** 64],
    ('mutez',): [0, 1, 64, 2 ** 63 - 1],
    ('timestamp',): [0, -1, 1700000000, -62135596801, 253402300800],
    ('string',): ['', 'a', 'tz1', 'Hello\n"\\'],
    ('bytes',): [b'', b'\x00', b'\x05\x00\x2a', b'\xff' * 21],
    ('bool',): [False, True],
    ('unit',): [()],
    ('chain_id',): [bytes(4), b'\xff' * 4, b'\x7a\x06\xa7\x70', b'\x00\x00\x00\x01'],
    ('key_hash',): [(k, dg(f, l)) for k in T.KH_KINDS for f, l in ((0, 5), (1, 5), (2, 5), (3, 5), (4, 5), (9, 0), (0xff, 0xff), (0, 0))],
    ('address',): ([(k, dg(f, l), '') for k in T.KH_KINDS for f, l in ((0, 5), (3, 0), (0xff, 0xff))]
                   + [(k, dg(f, l), '') for k in ('KT1', 'sr1') for f, l in ((0, 0), (1, 0), (3, 5), (0xff, 0xff))]
                   + [('tz1', dg(0, 0), 'a'), ('tz4', dg(1, 0), 'b'), ('KT1', dg(0, 0), 'a'), ('KT1', dg(1, 0), EP31), ('sr1', dg(2, 0), 'a'),
                      ('KT1', dg(9, 9), 'default_')]),
    ('key',): KEYS,
    ('signature',): SIGS,
    LAM: [lam(c) for c in LAMBDAS],
}
SMALL = {
    ('int',): [0, -1, 64], ('nat',): [0, 64], ('mutez',): [0, 1], ('timestamp',): [0, -1],
    ('string',): ['', 'a'], ('bytes',): [b'', b'\x00', b'\xff\x05'], ('bool',): [False, True], ('unit',): [()],
    ('chain_id',): [bytes(4), b'\x7a\x06\xa7\x70'],
    ('key_hash',): [('tz1', dg(0, 5)), ('tz2', dg(9, 0)), ('tz3', dg(0xff, 0xff))],
    ('address',): [('tz1', dg(0, 5), ''), ('KT1', dg(1, 0), 'a'), ('sr1', dg(3, 0), '')],
    ('key',): [('edpk', bytes(32)), ('p2pk', b'\x03' + b'\x22' * 32)],
    ('signature',): [bytes(64), bytes(96)],
    LAM: [lam(LAMBDAS[0]), lam(LAMBDAS[1])],
}
LEAVES = list(FULL)
KEYSET = set(KEYS)
SIGSET = set(SIGS)
LAMSET = {lam(c) for c in LAMBDAS}
CORE6 = [('int',), ('string',), ('key_hash',), ('address',), ('bytes',), ('unit',)]
CORE2 = [('int',), ('key_hash',)]
EP_OK = re.compile(r'^[A-Za-z0-9_]{0,31}$')


def pick(seq, n=3):
    """first, middle(s), last -- deterministic thinning of nested domains."""
    seq = list(seq)
    if len(seq) <= n:
        return seq
    idx = sorted({round(i * (len(seq) - 1) / (n - 1)) for i in range(n)})
    return [seq[i] for i in idx]


@lru_cache(maxsize=None)
def dom(t, top=True):
    """Values of type t, simplest first.  Leaves: FULL at top level, SMALL inside constructors; nested composite
    domains are thinned to first/middle/last."""
    if t in FULL:
        return tuple(FULL[t] if top else SMALL[t])
    p = t[0]

    def sub(x):
        d = dom(x, False)
        return pick(d, 3) if x not in FULL else list(d)
    if p == 'pair':
        return tuple((a, b) for a in sub(t[1]) for b in sub(t[2]))
    if p == 'option':
        return tuple([None] + [('Some', x) for x in sub(t[1])])
    if p == 'or':
        return tuple([('L', x) for x in sub(t[1])] + [('R', x) for x in sub(t[2])])
    if p == 'list':
        d = sub(t[1])
        out = [(), (d[0],)]
        if len(d) > 1:
            out += [(d[1], d[0]), (d[-1], d[-1], d[0])]
        return tuple(out)
    if p == 'set':
        d = T.sorted_set(t[1], sub(t[1]))
        out = [(), (d[0],)]
        if len(d) > 1:
            out += [(d[-1],), tuple(d[:2]), tuple(d)]
        return tuple(dict.fromkeys(out))
    if p == 'map':
        ks = T.sorted_set(t[1], sub(t[1]))
        vs = sub(t[2])
        out = [(), ((ks[0], vs[0]),)]
        if len(ks) > 1:
            out += [((ks[-1], vs[-1]),), ((ks[0], vs[-1]), (ks[1], vs[0])), tuple((k, vs[i % len(vs)]) for i, k in enumerate(ks))]
        return tuple(dict.fromkeys(out))
    raise ValueError(t)


def comb(*ts):
    t = ts[-1]
    for a in reversed(ts[:-1]):
        t = ('pair', a, t)
    return t


def comb_len(t):
    n = 1
    while t[0] == 'pair':
        n += 1
        t = t[2]
    return n


def combs_over(leaves, sizes):
    out = []
    for n in sizes:
        out.append(comb(*[('int',)] * n))
        for r in range(len(leaves)):
            out.append(comb(*[leaves[(r + i) % len(leaves)] for i in range(n)]))
    return out


def special_combs():
    i, s, kh = ('int',), ('string',), ('key_hash',)
    return [
        ('pair', ('pair', i, s), kh), ('pair', ('pair', i, s), ('pair', kh, i)), comb(('pair', i, i), i, i, i),
        comb(i, i, i, ('list', i)), comb(i, i, ('list', i)), comb(i, ('list', i), i, i), comb(i, i, i, ('option', ('pair', i, i))),
        comb(('list', i), ('list', i), ('list', i), ('list', i)), comb(i, i, i, ('or', i, i)), comb(kh, i, i, i, ('set', kh)),
        comb(i, i, i, LAM),
    ]


def d1_over(unary, binary):
    out = []
    for b in unary:
        out.append(('option', b))
        out.append(('list', b))
        if T.comparable(b):
            out.append(('set', b))
    for a in binary:
        for b in binary:
            out.append(('pair', a, b))
            out.append(('or', a, b))
            if T.comparable(a):
                out.append(('map', a, b))
    return out


def wrap(inner, leaves, comb_leaves=None):
    """every constructor applied to an inner type and leaves (the inner type in each argument position)."""
    comb_leaves = leaves if comb_leaves is None else comb_leaves
    out = []
    for x in inner:
        out.append(('option', x))
        out.append(('list', x))
        if T.comparable(x):
            out.append(('set', x))
        for b in leaves:
            out += [('pair', x, b), ('pair', b, x), ('or', x, b), ('or', b, x), ('map', b, x)]
            if T.comparable(x):
                out.append(('map', x, b))
            if b in comb_leaves:
                out += [comb(b, b, x), comb(b, b, b, x), comb(x, b, b, b)]
    return out


def uniq(seq):
    return list(dict.fromkeys(seq))


@lru_cache(maxsize=None)
def universe(tier):
    """[(type, mutate)] with mutate in 'all' | 'some' (first/middle/last value)."""
    leaves = [(t, 'all') for t in LEAVES]
    d1 = uniq(d1_over(LEAVES, LEAVES) + combs_over(CORE6, (3, 4, 5)) + special_combs())
    out = leaves + [(t, 'some' if tier == 'quick' else 'all') for t in d1]
    if tier == 'thorough':
        d1c = uniq(d1_over(CORE6, CORE6) + combs_over(CORE6[:3], (3, 4, 5)))
        d2 = uniq(wrap(d1c, CORE6, CORE2))
        out += [(t, 'all') for t in d2]
        out += [(('pair', a, b), 'some') for a in d1c[:30] for b in d1c[:30]]
        d1s = uniq(d1_over(CORE2, CORE2) + [comb(('int',), ('key_hash',), ('int',), ('int',))])
        d2s = uniq(wrap(d1s, CORE2))
        d3 = uniq(wrap(d2s, CORE2[:1]))
        out += [(t, 'ends') for t in d3]
    seen, res = set(), []
    for t, m in out:
        if t not in seen:
            seen.add(t)
            res.append((t, m))
    return tuple(res)


NSHARDS = {'quick': 64, 'thorough': 320}


def shards(tier, seed):
    n = NSHARDS[tier]
    universe(tier)
    return [(i, n) for i in range(n)]


# ------------------------------------------------------------------------------------------------ reference side
def fold_types(e):
    """Tezos unparses a right comb type `pair a (pair b c)` as `pair a b c` (unless the inner pair is annotated)."""
    if isinstance(e, list):
        return [fold_types(x) for x in e]
    if isinstance(e, dict) and 'prim' in e:
        args = [fold_types(a) for a in e.get('args', [])]
        if e['prim'] == 'pair' and len(args) >= 2:
            last = args[-1]
            if isinstance(last, dict) and last.get('prim') == 'pair' and not last.get('annots'):
                args = args[:-1] + last['args']
        out = dict(e)
        if args:
            out['args'] = args
        return out
    return e


def opt_code(code):
    """Code as Tezos packs it: constants of PUSH are rendered in optimized mode, comb types are folded."""
    return fold_types(_opt_code(code))


def _opt_code(code):
    if isinstance(code, list):
        return [_opt_code(x) for x in code]
    if isinstance(code, dict) and 'prim' in code:
        if code['prim'] == 'PUSH' and len(code.get('args', [])) == 2 and not code.get('annots'):
            try:
                ty = T.t_from_micheline(code['args'][0])
                val = T.v_from_micheline(ty, code['args'][1])
                return {'prim': 'PUSH', 'args': [code['args'][0], T.v_to_micheline(ty, norm(ty, val), 'optimized')]}
            except Exception:
                return code
        if code.get('args'):
            return dict(code, args=[_opt_code(a) for a in code['args']])
    return code


def norm(t, v):
    """Reference value with lambda bodies in their packed (optimized-constant) spelling."""
    p = t[0]
    if p == 'lambda':
        if v[0] in ('lam', 'lamrec'):
            return (v[0], json.dumps(opt_code(json.loads(v[1])), sort_keys=True))
        return v
    if len(t) == 1:
        return v
    if p == 'pair':
        return (norm(t[1], v[0]), norm(t[2], v[1]))
    if p == 'option':
        return None if v is None else ('Some', norm(t[1], v[1]))
    if p == 'or':
        return (v[0], norm(t[1] if v[0] == 'L' else t[2], v[1]))
    if p in ('list', 'set'):
        return tuple(norm(t[1], x) for x in v)
    if p == 'map':
        return tuple((norm(t[1], k), norm(t[2], x)) for k, x in v)
    return v


def has_prim(t, prim):
    return t[0] == prim or any(has_prim(a, prim) for a in t[1:])


def has_lambda(t):
    return has_prim(t, 'lambda')


def ref_pack(t, v):
    return T.pack(t, norm(t, v) if has_lambda(t) else v)


def pinned(t, v):
    """True if the reference can vouch that Tezos accepts this (well-formed, canonical) value."""
    p = t[0]
    if p == 'lambda':
        return v in LAMSET
    if p == 'key':
        return v in KEYSET
    if p == 'signature':
        return len(v) == 64 or v in SIGSET
    if p == 'address':
        return bool(EP_OK.match(v[2])) and v[2] != 'default'
    if len(t) == 1:
        return True
    if p == 'pair':
        return pinned(t[1], v[0]) and pinned(t[2], v[1])
    if p == 'option':
        return v is None or pinned(t[1], v[1])
    if p == 'or':
        return pinned(t[1] if v[0] == 'L' else t[2], v[1])
    if p in ('list', 'set'):
        return all(pinned(t[1], x) for x in v)
    if p == 'map':
        return all(pinned(t[1], k) and pinned(t[2], x) for k, x in v)
    return False


def classify(t, data):
    """('invalid', kind) | ('soft', kind) | ('illtyped',) | ('noncanonical',) | ('unpinned',) | ('canonical', value)"""
    if not data or data[0] != 5:
        return ('invalid', 'no-05-prefix')
    try:
        e = R.decode(data[1:])
    except R.DecodeError as ex:
        if ex.kind not in SOFT:
            return ('invalid', ex.kind)
        try:
            R.decode(data[1:], lenient=True)
        except R.DecodeError as ex2:
            return ('invalid', ex2.kind)
        return ('soft', ex.kind)
    try:
        v = T.v_from_micheline(t, e)
        if T.pack(t, v) != data:
            return ('noncanonical',)
    except (T.BadValue, ValueError, KeyError):
        return ('illtyped',)
    if not pinned(t, v):
        return ('unpinned',)
    return ('canonical', v)


def mutants(t, v, packed):
    """(kind, bytes) for every mutant of the reference packed string, deterministic order, simplest first."""
    n = len(packed)
    for i in range(n):
        yield 'trunc', packed[:i]
    for b in SUBST:
        yield 'ext', packed + bytes([b])
    for i in range(n):
        for b in SUBST:
            if packed[i] != b:
                yield 'subst', packed[:i] + bytes([b]) + packed[i + 1:]
    e = T.v_to_micheline(t, norm(t, v) if has_lambda(t) else v, 'optimized')
    count = [0]

    def counting(x):
        count[0] += 1
        return R.enc_zint(x)
    R.encode(e, counting)
    for k in range(count[0]):
        for extra in (1, 2):
            seen = [0]

            def z(x, k=k, extra=extra):
                b = bytearray(R.enc_zint(x))
                if seen[0] == k:
                    b[-1] |= 0x80
                    b += b'\x80' * (extra - 1) + b'\x00'
                seen[0] += 1
                return bytes(b)
            yield 'nonmin', b'\x05' + R.encode(e, z)


# ------------------------------------------------------------------------------------------------ implementation side
_CTX = None
_UNPACK = {}


def _ctx():
    global _CTX
    if _CTX is None:
        from pytezos.context.impl import ExecutionContext
        _CTX = ExecutionContext()
    return _CTX


def read(obj, t):
    try:
        return norm(t, A.from_impl(obj, t))
    except Exception as e:
        return ('malformed', f'{type(e).__name__}: {e}'[:160])


def impl_pack(t, v):
    """-> (pack() bytes | ('raise', ..), PACK instruction bytes | ('raise', ..))"""
    from pytezos.michelson.instructions.generic import PackInstruction
    from pytezos.michelson.stack import MichelsonStack
    try:
        obj = A.to_impl(t, v)
    except Exception as e:
        err = ('raise-literal', f'{type(e).__name__}: {e}'[:200])
        return err, err
    try:
        # the same object is first packed the way big_map keys are hashed (legacy layout) and then canonically:
        # pack() must not remember anything from an earlier call with another layout
        try:
            obj.pack(legacy=True)
        except Exception:
            pass
        a = obj.pack()
    except Exception as e:
        a = ('raise', f'{type(e).__name__}: {e}'[:200])
    try:
        st = MichelsonStack([A.to_impl(t, v)])
        PackInstruction.execute(st, [], _ctx())
        res = st.items[0]
        b = bytes(res.value) if len(st.items) == 1 and res.prim == 'bytes' else ('bad-stack', repr(st.items)[:200])
    except Exception as e:
        b = ('raise', f'{type(e).__name__}: {e}'[:200])
    return a, b


def impl_unpack(t, data):
    """-> (Type.unpack result, UNPACK instruction result), each None | ('Some', ref value) | ('malformed', why)"""
    from pytezos.michelson.micheline import Micheline
    from pytezos.michelson.stack import MichelsonStack
    from pytezos.michelson.types import BytesType
    cls = A.mk_type(t)
    try:
        a = ('Some', read(cls.unpack(data), t))
    except Exception:
        a = None
    ins = _UNPACK.get(t)
    if ins is None:
        ins = _UNPACK[t] = Micheline.match({'prim': 'UNPACK', 'args': [T.t_to_micheline(t)]})
    try:
        st = MichelsonStack([BytesType.from_value(data)])
        ins.execute(st, [], _ctx())
        res = st.items[0]
        if len(st.items) != 1 or res.prim != 'option':
            b = ('malformed', 'stack ' + repr(st.items)[:160])
        else:
            b = None if res.item is None else ('Some', read(res.item, t))
    except Exception as e:
        b = ('malformed', f'UNPACK raises {type(e).__name__}: {e}'[:200])
    if a is not None and isinstance(a[1], tuple) and a[1][:1] == ('malformed',):
        a = a[1]
    if b is not None and b[0] == 'Some' and isinstance(b[1], tuple) and b[1][:1] == ('malformed',):
        b = b[1]
    return a, b


# ------------------------------------------------------------------------------------------------ blame (descriptors)
def components(t, v):
    p = t[0]
    if p == 'pair':
        return [(t[1], v[0]), (t[2], v[1])]
    if p == 'option':
        return [] if v is None else [(t[1], v[1])]
    if p == 'or':
        return [(t[1] if v[0] == 'L' else t[2], v[1])]
    if p in ('list', 'set'):
        return [(t[1], x) for x in v]
    if p == 'map':
        return [(t[i + 1], kv[i]) for kv in v for i in (0, 1)]
    return []


def leaf_class(t, v):
    p = t[0]
    if p == 'key_hash':
        if v[0] == 'tz1' and v[1][0] <= 3:
            return 'key_hash tz1 whose digest starts 00..03'
        if v[0] != 'tz1' and v[1][-1] == 0:
            return 'key_hash tz2/tz3/tz4 whose digest ends 00'
        return f'key_hash {v[0]}'
    if p == 'address':
        return f'address {v[0]}' + (' with entrypoint' if v[2] else '')
    if p == 'key':
        return f'key {v[0]}'
    if p == 'signature':
        return f'signature of {len(v)} bytes'
    if p == 'pair':
        return f'pair (comb of {comb_len(t)})'
    if p == 'lambda':
        if v[0] in ('lam', 'lamrec') and _nary_pair_type(json.loads(v[1])):
            return 'lambda whose code spells a comb type with more than two arguments'
        return 'lambda with a PUSH constant of a domain type' if v != norm(t, v) else 'lambda'
    if p in ('set', 'map') and has_prim(t[1], 'unit'):
        return 'set / map whose key type holds unit'
    return p


def blame(t, v, fails):
    for st, sv in components(t, v):
        if fails(st, sv):
            return blame(st, sv, fails)
    return leaf_class(t, v)


_FAILS = {}


def _memo(name, t, v, compute):
    """blame() asks the same questions about the same small sub-values over and over: remember the answers."""
    k = (name, t, v)
    if k not in _FAILS:
        if len(_FAILS) > 200000:
            _FAILS.clear()
        _FAILS[k] = compute()
    return _FAILS[k]


def fails_pack(t, v):
    def go():
        a, b = impl_pack(t, v)
        exp = ref_pack(t, v)
        return a != exp or b != exp
    return _memo('pack', t, v, go)


def fails_unpack(t, v):
    def go():
        want = ('Some', norm(t, v))
        return impl_unpack(t, ref_pack(t, v)) != (want, want)
    return _memo('unpack', t, v, go)


# ------------------------------------------------------------------------------------------------ checks
def case_of(t, v, check, data=None):
    c = {'type': T.t_to_micheline(t), 'value': T.v_to_micheline(t, v, 'readable'), 'check': check}
    if data is not None:
        c['data'] = data
    return c


BOTH_UNPACK = 'UNPACK (Type.unpack and the instruction)'
BOTH_PACK = 'PACK (pack() and the instruction)'


def _group(findings, both):
    """findings: [(path name, problem key, detail)] of the paths that failed.  Two paths failing the same way are one finding."""
    if len(findings) == 2 and findings[0][1] == findings[1][1]:
        return [(both, findings[0][1], findings[0][2])]
    return findings


def check_value(t, v, r: Result):
    """(1) + (2) for one value.  Returns the reference packed bytes."""
    ts = T.t_str(t)
    exp = ref_pack(t, v)
    r.ev()
    if len(exp) > 3:
        r.nt((ts, exp))
    a, b = impl_pack(t, v)
    bad = []
    for got, how in ((a, 'pack()'), (b, 'the PACK instruction')):
        if got == exp:
            r.out('pack|equal')
        elif isinstance(got, tuple):
            r.out(f'pack|{got[0]}')
            bad.append((how, 'raises', f'{how} of {T.v_str(t, v)} : {ts} -> {got}'))
        else:
            r.out('pack|differs')
            bad.append((how, 'differs from the Tezos bytes', f'{how} of {T.v_str(t, v)} : {ts} -> {got.hex()}, Tezos packs {exp.hex()}'))
    for how, what, detail in _group(bad, BOTH_PACK):
        r.viol(f'{how} {what}: {blame(t, v, fails_pack)}', case_of(t, v, 'pack'), detail)
    want = ('Some', norm(t, v))
    ua, ub = impl_unpack(t, exp)
    bad = []
    for got, how in ((ua, 'Type.unpack'), (ub, 'the UNPACK instruction')):
        r.ev()
        if got == want:
            r.out('roundtrip|Some v')
            continue
        cls = 'None' if got is None else ('malformed' if got[0] == 'malformed' else 'other value')
        r.out(f'roundtrip|{cls}')
        what = {'None': 'gives None for', 'malformed': 'returns a malformed value for', 'other value': 'returns a different value for'}[cls]
        bad.append((how, what, f'{how} {ts} 0x{exp.hex()} (= PACK {T.v_str(t, v)}) -> {got}'))
    for how, what, detail in _group(bad, BOTH_UNPACK):
        r.viol(f'{how} {what} PACK v: {blame(t, v, fails_unpack)}', case_of(t, v, 'roundtrip'), detail)
    return exp


def judge_mutant(t, v, kind, data, r: Result, count=True):
    ts = T.t_str(t)
    c = classify(t, data)
    ua, ub = impl_unpack(t, data)
    if count:
        r.ev()
        r.extra['mutants_' + kind] += 1

    def oc(x):
        return 'None' if x is None else ('Some' if x[0] == 'Some' else 'malformed')
    r.out(f'{kind}|{c[0]}{":" + c[1] if c[0] in ("invalid", "soft") else ""}|{oc(ua)}/{oc(ub)}')
    paths = ((ua, 'Type.unpack'), (ub, 'the UNPACK instruction'))
    if c[0] == 'invalid':
        r.extra['mutants_must_be_none'] += 1
        bad = [(how, 'accepts', f'{how} {ts} 0x{data.hex()} ({kind} mutant of PACK {T.v_str(t, v)}; reference: {c[1]}) -> {got}, must be None')
               for got, how in paths if got is not None]
        for how, _, detail in _group(bad, BOTH_UNPACK):
            r.viol(f'{how}: {REJECT[c[1]]}', case_of(t, v, 'mutant', data), detail)
    elif c[0] == 'canonical':
        r.extra['mutants_must_be_some'] += 1
        want = ('Some', c[1])
        bad = []
        for got, how in paths:
            if got != want:
                what = 'gives None for' if got is None else ('returns a malformed value for' if got[0] == 'malformed' else 'returns a different value for')
                bad.append((how, what, f'{how} {ts} 0x{data.hex()} -> {got}; these are the canonical bytes of {T.v_str(t, c[1])}'))
        for how, what, detail in _group(bad, BOTH_UNPACK):
            r.viol(f'{how} {what} canonical packed bytes: {blame(t, c[1], fails_unpack)}', case_of(t, v, 'mutant', data), detail)
    else:
        r.no_verdict += 1
        r.extra['mutants_no_verdict_' + c[0]] += 1
        if ua != ub:
            r.viol('Type.unpack and the UNPACK instruction disagree', case_of(t, v, 'mutant', data), f'{ts} 0x{data.hex()}: {ua} vs {ub}')


def which_values(D, mode):
    if mode == 'all' or len(D) <= 3:
        return range(len(D))
    if mode == 'ends':
        return sorted({0, len(D) - 1})
    return sorted({0, len(D) // 2, len(D) - 1})


def run_type(t, mode, r: Result):
    D = dom(t)
    mut = set(which_values(D, mode))
    seen = set()
    last = None
    for i, v in enumerate(D):
        exp = check_value(t, v, r)
        last = case_of(t, v, 'roundtrip')
        if i not in mut:
            continue
        for kind, data in mutants(t, v, exp):
            if data in seen or data == exp:
                continue
            seen.add(data)
            judge_mutant(t, v, kind, data, r)
    return last


def run_shard(spec, tier):
    i, n = spec
    r = Result()
    U = universe(tier)
    last = None
    for k in range(i, len(U), n):
        t, mode = U[k]
        c = run_type(t, mode, r)
        if c is not None:
            if last is None:
                r.sample(c)
            last = c
    if last is not None:
        r.sample(last)
    return r


# ------------------------------------------------------------------------------------------------ replay / observe
def _case_tv(case):
    t = T.t_from_micheline(case['type'])
    v = T.v_from_micheline(t, case['value'])
    return t, v


def replay(case):
    t, v = _case_tv(case)
    r = Result()
    if case['check'] == 'mutant':
        data = case['data']
        kind = next((k for k, d in mutants(t, v, ref_pack(t, v)) if d == data), 'mutant')
        judge_mutant(t, v, kind, data, r)
    else:
        check_value(t, v, r)
        rt = case['check'] == 'roundtrip'
        r.violations = {d: x for d, x in r.violations.items() if ('PACK v' in d) == rt}
    return [(d, x['cases'][0]['detail']) for d, x in r.violations.items()]


def observe(case):
    t, v = _case_tv(case)
    a, b = impl_pack(t, v)
    data = case.get('data') or ref_pack(t, v)
    return [a, b, impl_unpack(t, data)]
