"""C17 — type annotations do not change execution or serialization.

Metamorphic, purely differential exploration of the real interpreter: every program `PUSH <t> <v> ; i1 ; .. ; ik`
(k <= 3) over the comb / pair / option / or / collection / PACK instructions that the reference typechecker accepts
(annotation-blind, mc.ref.meval.typecheck) is run bare and under EVERY re-annotation (within the tier's bound) of the
type expressions it mentions; both runs go through the real instruction classes on a real MichelsonStack.  The two
runs must fail at the same instruction or both succeed, leave the same stack (values and annotation-stripped types,
read structurally with adapter.read_stack) and every packable result must pack to the same bytes (PACK inside the
program is compared through the bytes it leaves on the stack).  No reference values are involved.
"""
from __future__ import annotations

import itertools
import json
from functools import lru_cache

from mc import adapter as A
from mc.engine.report import Result
from mc.ref import meval as M
from mc.ref import mtypes as T

ID = 'C17'
LEVEL = 'exploration'
RULE = ('every reference-well-typed program PUSH;i1..ik (k<=3) over PUSH/PAIR n/UNPAIR n/GET n/UPDATE n/CAR/CDR/DUP/SWAP/COMPARE/'
        'PACK/UNPACK/LEFT/RIGHT/NONE/NIL/EMPTY_MAP/LAMBDA/CAST/SOME/MAP/ITER/EXEC/APPLY/CONS/SLICE/EDIV x every valid annotation assignment (each '
        'type node one of none, %f, :t, %f :t; %f only on components of pair/or, as Tezos requires; in assignments of two or more nodes '
        'the later node also under the OTHER names %g, :u, %g :u, so that two types meeting in one type check - list element and consed '
        'item, lambda parameter and argument, the two operands of COMPARE, old and new component of UPDATE n - carry the same or '
        'different names of the same kind = renaming) within the bound; the annotated run is compared '
        'with the bare run of the same program.  evaluation = one program run (bare or annotated); non-trivial = distinct '
        '(program, assignment) in which at least one annotated node is a pair node (the nodes whose annotations the comb '
        'traversal could look at); outcome classes are per last instruction of the program')
BOUND = {
    'quick': 'initial PUSH of: nat, right combs of 2-4 nat leaves, left-nested pair, pair of pairs, option/or/list of a 3-comb, packed 3- and '
             '4-combs, (offset, length, string) triples that SLICE answers None / Some for (thorough: also bytes, and a zero divisor for EDIV); type arguments: 3-comb for LEFT/RIGHT/NONE/NIL/EMPTY_MAP/LAMBDA, 3-/4-comb for UNPACK, the current top type for CAST; '
             'all programs of <=3 instructions after the PUSH with at most one type-carrying instruction among them; programs of <=2 '
             'instructions: every assignment with <=2 annotated nodes (every kind combination, second node under the same and under different '
             'names); programs of 3: every single-node assignment',
    'thorough': 'as quick plus 5-combs (initial, packed, UNPACK), option of a 4-comb, type arguments {nat, 3-comb, 4-comb}, two type-carrying '
                'instructions in programs of <=2; programs of <=2 instructions: every assignment with <=2 annotated nodes and every subset of '
                'the non-leaf nodes (pair/or/option/list/map/lambda) under 5 patterns (%f, :t, %f :t, alternating kinds, alternating names '
                '%f :t / %g :u); programs of 3: every single node, every pair of non-leaf nodes (every kind combination, same and different '
                'names), every subset of the non-leaf nodes of the initial PUSH type',
}
ASSUMPTIONS = ['field annotations are only legal on the components of pair/or types (Tezos rejects them elsewhere, and so does '
               'pytezos for option/list/map/lambda arguments): other placements are not re-annotations of a valid program',
               'lambda bodies used by LAMBDA mention no types, so the packed code of a lambda carries no annotations by construction',
               'the bare program writes combs as nested binary pairs; the flat n-ary spelling is not varied']
LEVEL_TEXT = ('exploration: exhaustive over a small instruction family and all annotation placements up to the bound; differential on '
              'the implementation itself, so it decides "annotations are ignored" for these instructions, not their absolute correctness')

NAT, BYTES, STRING = ('nat',), ('bytes',), ('string',)
KINDS = {'f': ['%f'], 't': [':t'], 'ft': ['%f', ':t'],
         # the same three kinds under OTHER names: used on the second node of a two-node assignment (and alternately in the
         # thorough subsets), so that two types that meet in one type check carry different names of the same kind (renaming)
         'g': ['%g'], 'u': [':u'], 'gu': ['%g', ':u']}
RENAMED = {'f': 'g', 't': 'u', 'ft': 'gu'}


def comb(k):
    t = NAT
    for _ in range(k - 1):
        t = ('pair', NAT, t)
    return t


def comb_val(k, base=1):
    v = base + k - 1
    for i in range(k - 2, -1, -1):
        v = (base + i, v)
    return v


def comb_size(t):
    n = 1
    while t[0] == 'pair':
        n += 1
        t = t[2]
    return n


# ---------------------------------------------------------------- type expressions with addressable nodes
def type_nodes(t, path=(), parent=None, idx=0):
    """Preorder list of (path, prim, field_ok, node_class)."""
    p = t[0]
    if p == 'pair':
        cls = 'inner pair of a right comb' if (parent == 'pair' and idx == 2) else 'pair (comb root or left component)'
    elif len(t) > 1:
        cls = f'{p} node'
    else:
        cls = 'leaf'
    out = [(path, p, parent in ('pair', 'or'), cls)]
    for i, a in enumerate(t[1:], 1):
        out += type_nodes(a, path + (i,), p, i)
    return out


def render(t, ann, path=()):
    """Reference type -> Micheline type expression (nested binary pairs) with annotations ann[path] = kind."""
    e = {'prim': t[0]}
    if len(t) > 1:
        e['args'] = [render(a, ann, path + (i,)) for i, a in enumerate(t[1:], 1)]
    k = ann.get(path)
    if k:
        e['annots'] = list(KINDS[k])
    return e


# ---------------------------------------------------------------- instruction templates
# template = (prim, int_arg | None, (type, ...), tail) ; tail = extra non-type args (Micheline), already final
def I(n):
    return {'int': str(n)}


def tmpl(prim, n=None, types=(), tail=()):
    return (prim, n, tuple(types), tuple(json.dumps(x, sort_keys=True) for x in tail))


def build(tp, anns=None):
    """Template -> Micheline instruction.  anns: list (one per type argument) of {path: kind}."""
    prim, n, types, tail = tp
    args = []
    if n is not None:
        args.append(I(n))
    for i, t in enumerate(types):
        args.append(render(t, (anns[i] if anns else {}) or {}))
    args += [json.loads(x) for x in tail]
    e = {'prim': prim}
    if args:
        e['args'] = args
    return e


LAMBDAS = [
    (comb(3), NAT, [{'prim': 'GET', 'args': [I(3)]}]),
    (NAT, ('pair', NAT, NAT), [{'prim': 'DUP'}, {'prim': 'PAIR'}]),
]


def type_args(tier):
    return [comb(3)] + ([NAT, comb(4)] if tier == 'thorough' else [])


def unpack_types(tier):
    return [comb(3), comb(4)] + ([comb(5)] if tier == 'thorough' else [])


def candidates(st, tier):
    """Instruction templates worth trying on the typing stack st (filtered by the reference typechecker afterwards)."""
    out = [tmpl('PUSH', types=[NAT], tail=[I(9)]),
           tmpl('PUSH', types=[('pair', NAT, NAT)], tail=[T.v_to_micheline(('pair', NAT, NAT), (7, 8))])]
    n = len(st)
    maxc = 4 if tier == 'quick' else 5
    if n >= 2:
        out.append(tmpl('PAIR'))
        for k in range(2, min(n, maxc) + 1):
            out.append(tmpl('PAIR', k))
        out.append(tmpl('SWAP'))
        out.append(tmpl('COMPARE'))
        out.append(tmpl('DUP', 2))
        if st[1][0] == 'pair':
            for k in range(0, 2 * comb_size(st[1]) - 1):
                out.append(tmpl('UPDATE', k))
    if n >= 1:
        top = st[0]
        out += [tmpl('DUP'), tmpl('PACK')]
        if top[0] == 'pair':
            size = comb_size(top)
            out += [tmpl('UNPAIR'), tmpl('CAR'), tmpl('CDR')]
            for k in range(2, size + 1):
                out.append(tmpl('UNPAIR', k))
            for k in range(0, 2 * size - 1):
                out.append(tmpl('GET', k))
        if top == BYTES:
            for t in unpack_types(tier):
                out.append(tmpl('UNPACK', types=[t]))
        for t in type_args(tier):
            out += [tmpl('LEFT', types=[t]), tmpl('RIGHT', types=[t])]
        if len(type_nodes(top)) <= (7 if tier == 'quick' else 9) and T.pushable(top):
            out.append(tmpl('CAST', types=[top]))
    for t in type_args(tier):
        out += [tmpl('NONE', types=[t]), tmpl('NIL', types=[t])]
    out += [tmpl('EMPTY_MAP', types=[NAT, comb(3)]), tmpl('EMPTY_MAP', types=[comb(3), NAT])]
    for a, b, body in LAMBDAS:
        out.append(tmpl('LAMBDA', types=[a, b], tail=[body]))
    # instructions that build a NEW container / lambda type from a component type taken out of an annotated parent
    if n >= 1:
        top = st[0]
        out.append(tmpl('SOME'))
        if top[0] == 'list' and top[1][0] == 'pair':
            out += [tmpl('MAP', tail=[[{'prim': 'CAR'}]]), tmpl('MAP', tail=[[{'prim': 'CDR'}]])]
        if top[0] == 'list':
            out.append(tmpl('ITER', tail=[[{'prim': 'DROP'}]]))
    # instructions that answer None / Some of a type taken from a (possibly annotated) pair component
    if n >= 3 and st[0] == NAT and st[1] == NAT and st[2] in (STRING, BYTES):
        out.append(tmpl('SLICE'))
    if n >= 2 and st[0] == NAT and st[1] == NAT:
        out.append(tmpl('EDIV'))
    if n >= 2:
        if st[1][0] == 'lambda':
            out += [tmpl('EXEC'), tmpl('APPLY')]
        if st[1][0] == 'list':
            out.append(tmpl('CONS'))
    return out


def max_typed(tier, length):
    """How many type-carrying instructions a program of `length` instructions after the initial PUSH may contain."""
    if tier == 'quick':
        return 1
    return 2 if length <= 2 else 1


def inits(tier):
    """(name, type, value) of the initial PUSH."""
    c3, c4 = comb(3), comb(4)
    out = [
        ('nat', NAT, 5),
        ('comb2', comb(2), comb_val(2)),
        ('comb3', c3, comb_val(3)),
        ('comb4', c4, comb_val(4)),
        ('leftnested', ('pair', ('pair', NAT, NAT), NAT), ((1, 2), 3)),
        ('pairofpairs', ('pair', ('pair', NAT, NAT), ('pair', NAT, NAT)), ((1, 2), (3, 4))),
        ('option-comb3', ('option', c3), ('Some', comb_val(3))),
        ('or-comb3', ('or', c3, NAT), ('L', comb_val(3))),
        ('list-comb3', ('list', c3), (comb_val(3), comb_val(3, 4))),
        ('packed-comb3', BYTES, T.pack(c3, comb_val(3))),
        ('packed-comb4', BYTES, T.pack(c4, comb_val(4))),
        ('lambda-pair', ('lambda', ('pair', NAT, NAT), NAT), ('lam', json.dumps([{'prim': 'CAR'}]))),
        ('list-pair', ('list', ('pair', NAT, NAT)), ((1, 2), (3, 4))),
        # offset, length, text: UNPAIR 3 ; SLICE answers None (out of bounds) / Some; UNPAIR 3 ; EDIV divides by zero / not
        ('slice-oob', ('pair', NAT, ('pair', NAT, STRING)), (1, (5, 'abc'))),
        ('slice-in', ('pair', NAT, ('pair', NAT, STRING)), (0, (1, 'abc'))),
    ]
    if tier == 'thorough':
        out += [('slice-bytes-oob', ('pair', NAT, ('pair', NAT, BYTES)), (1, (0, b'\x01'))),
                ('ediv-zero', ('pair', NAT, ('pair', NAT, STRING)), (7, (0, '')))]
        out += [('comb5', comb(5), comb_val(5)), ('packed-comb5', BYTES, T.pack(comb(5), comb_val(5))),
                ('option-comb4', ('option', c4), ('Some', comb_val(4)))]
    return out


def programs(init, tier):
    """All reference-well-typed template programs for one initial PUSH, shortest first (deterministic order)."""
    name, t0, v0 = init
    first = tmpl('PUSH', types=[t0], tail=[T.v_to_micheline(t0, v0)])
    out = []

    def rec(prog, st, typed):
        if typed <= max_typed(tier, len(prog) - 1):
            out.append(tuple(prog))
        if len(prog) == 4:
            return
        for c in candidates(st, tier):
            carries = bool(c[2])
            if carries and typed >= max_typed(tier, 1):
                continue
            try:
                st2 = M.typecheck(build(c), st)
            except M.IllTyped:
                continue
            if st2 is M.FAILS:
                continue
            rec(prog + [c], st2, typed + carries)

    rec([first], [t0], 0)
    return out


# ---------------------------------------------------------------- annotation assignments
def prog_nodes(prog):
    """[(instr index, type-arg index, path, field_ok, node_class, is_leaf)] over the whole program."""
    out = []
    for i, tp in enumerate(prog):
        for j, t in enumerate(tp[2]):
            for path, prim, fok, cls in type_nodes(t):
                out.append((i, j, path, fok, cls, cls == 'leaf'))
    return out


def kinds_for(node):
    return ['f', 't', 'ft'] if node[3] else ['t']


def kinds_second(node):
    """Kinds of the second node of a two-node assignment: same names as the first node, then the renamed ones."""
    ks = kinds_for(node)
    return ks + [RENAMED[k] for k in ks]


def assignments(prog, tier):
    """Yield lists of (node index, kind): the re-annotations explored for this program in this tier."""
    nodes = prog_nodes(prog)
    n = len(nodes)
    length = len(prog) - 1
    seen = set()
    for i in range(n):
        for k in kinds_for(nodes[i]):
            seen.add(((i, k),))
            yield [(i, k)]
    if tier == 'quick' and length >= 3:
        return
    pool = range(n) if length <= 2 else [i for i in range(n) if not nodes[i][5]]
    for i, j in itertools.combinations(pool, 2):
        for ki in kinds_for(nodes[i]):
            for kj in kinds_second(nodes[j]):
                seen.add(((i, ki), (j, kj)))
                yield [(i, ki), (j, kj)]
    if tier == 'thorough':
        inner = [i for i in range(n) if not nodes[i][5]]
        if length >= 3:
            inner = [i for i in inner if nodes[i][1] == 0]  # the initial PUSH only
        for r in range(2, len(inner) + 1):
            for sub in itertools.combinations(inner, r):
                for pat in ('f', 't', 'ft', 'alt', 'ren'):
                    a = []
                    for pos, i in enumerate(sub):
                        if pat == 'ren':  # same kinds, names alternate: %f :t / %g :u / %f :t ..
                            k = 'ft' if pos % 2 == 0 else 'gu'
                            if not nodes[i][3]:
                                k = 't' if pos % 2 == 0 else 'u'
                        else:
                            k = pat if pat != 'alt' else ('f' if pos % 2 == 0 else 't')
                            if k not in kinds_for(nodes[i]):
                                k = 't'
                        a.append((i, k))
                    if tuple(a) not in seen:
                        seen.add(tuple(a))
                        yield a


def annotate(prog, nodes, assignment):
    per = [[{} for _ in tp[2]] for tp in prog]
    for ni, k in assignment:
        i, j, path = nodes[ni][:3]
        per[i][j][path] = k
    return [build(tp, per[i]) for i, tp in enumerate(prog)]


def label(classes):
    """One label for the set of annotated nodes (most specific class wins)."""
    if any(c.startswith('inner pair') for c in classes):
        return 'inner pair of a right comb'
    if any(c.startswith('pair') for c in classes):
        return 'pair that is not the right component of a pair'
    return 'leaf or option/or/list/map/lambda node'


# ---------------------------------------------------------------- running the real interpreter
_CTX = None


@lru_cache(maxsize=400000)
def _match(js):
    from pytezos.michelson.micheline import Micheline
    import pytezos.michelson.instructions  # noqa: F401  (registers the instruction classes)
    return Micheline.match(json.loads(js))


def observe_stack(stack):
    """(execution observation, packing observation) of a real stack."""
    vals, packs = [], []
    for o in stack.items:
        try:
            t = A.impl_type(o)
            v = A.from_impl(o, t)
        except Exception as e:  # malformed object: part of the observation
            vals.append(('unreadable', type(e).__name__, str(e)[:80]))
            packs.append(None)
            continue
        vals.append((T.t_str(t), repr(v)))
        pk = None
        if T.packable(t):
            try:
                pk = o.pack().hex()
            except Exception as e:
                pk = f'pack raises {type(e.__cause__ or e).__name__}'
        packs.append(pk)
    return vals, packs


def run_prog(code, upto=None):
    """Run Micheline instructions on a fresh real stack.
    Returns ('ok', values, packs) | ('fail', index, prim, 'FAILWITH'|'error')."""
    global _CTX
    from pytezos.context.impl import ExecutionContext
    from pytezos.michelson.stack import MichelsonStack
    if _CTX is None:
        _CTX = ExecutionContext()
    st = MichelsonStack([])
    for i, ins in enumerate(code[:upto]):
        try:
            cls = _match(json.dumps(ins, sort_keys=True))
            cls.execute(st, [], _CTX)
        except Exception as e:
            return ('fail', i, ins['prim'], 'FAILWITH' if 'FAILWITH' in [str(a) for a in e.args] else 'error')
    vals, packs = observe_stack(st)
    return ('ok', vals, packs)


def _iname(ins):
    n = ''
    if ins.get('args') and isinstance(ins['args'][0], dict) and 'int' in ins['args'][0] and ins['prim'] != 'PUSH':
        n = ' n'
    return ins['prim'] + n


def _exec_part(r):
    return r[:2] if r[0] == 'ok' else r


def compare_runs(bare, ann, classes, rb=None, ra=None):
    """[] if the annotated program behaves as the bare one, else [(descriptor, detail)]."""
    rb = rb or run_prog(bare)
    ra = ra or run_prog(ann)
    if rb == ra:
        return []
    where = label(classes)
    if _exec_part(rb) == _exec_part(ra):
        i = next(i for i, (x, y) in enumerate(zip(rb[2], ra[2])) if x != y)
        return [(f'packing a result value gives different bytes [annotated: {where}]',
                 f'bare {json.dumps(bare)}; annotated {json.dumps(ann)}: stack slot {i} = {rb[1][i]} packs to {rb[2][i]} vs {ra[2][i]}')]
    # locate the first instruction after which the two executions differ
    rb1, ra1, k = rb, ra, len(bare)
    for upto in range(1, len(bare) + 1):
        pb, pa = run_prog(bare, upto), run_prog(ann, upto)
        if _exec_part(pb) != _exec_part(pa):
            k, rb1, ra1 = upto, pb, pa
            break
    ins = _iname(bare[min(k, len(bare)) - 1])
    if rb1[0] == 'ok' and ra1[0] == 'fail':
        what = 'fails only when annotated'
    elif rb1[0] == 'fail' and ra1[0] == 'ok':
        what = 'fails only when bare'
    elif rb1[0] == 'fail':
        what = 'fails differently'
    elif ins == 'PACK':
        what = 'bytes differ'
    else:
        what = 'result stack differs'
    return [(f'{ins}: {what} [annotated: {where}]',
             f'bare {json.dumps(bare)} -> {_exec_part(rb1)}; annotated {json.dumps(ann)} -> {_exec_part(ra1)}')]


# ---------------------------------------------------------------- driver interface
NSPLIT = {'quick': 16, 'thorough': 16}   # 16 parts per initial PUSH: lane k of the runner gets part k of every initial PUSH


def shards(tier, seed):
    return [(i, k) for i in range(len(inits(tier))) for k in range(NSPLIT[tier])]


def run_shard(spec, tier):
    idx, part = spec
    init = inits(tier)[idx]
    r = Result()
    progs = programs(init, tier)
    last = None
    for pi, prog in enumerate(progs):
        if pi % NSPLIT[tier] != part:
            continue
        bare = [build(tp) for tp in prog]
        rb = run_prog(bare)
        r.ev()
        r.out(f'bare run: {rb[0]}' + (f' at {rb[2]}' if rb[0] == 'fail' else ''))
        r.extra['programs'] += 1
        r.extra[f'programs of length {len(prog) - 1}'] += 1
        nodes = prog_nodes(prog)
        lastname = _iname(bare[-1])
        for a in assignments(prog, tier):
            ann = annotate(prog, nodes, a)
            classes = [nodes[ni][4] for ni, _ in a]
            r.ev()
            if any('pair' in c for c in classes):
                r.nt(json.dumps(ann, sort_keys=True))
            case = {'bare': bare, 'annotated': ann, 'nodes': classes}
            ra = run_prog(ann)
            if ra == rb:
                r.out(f'{lastname}: annotated run has the same ' + ('result' if ra[0] == 'ok' else f'failure at {ra[2]}'))
            else:
                r.out(f'{lastname}: annotated run differs')
                for d, detail in compare_runs(bare, ann, classes, rb, ra):
                    r.viol(d, case, detail)
            last = case
            if not r.samples and len(a) == 2 and len(prog) >= 3:
                r.sample(case)
    if last is not None:
        r.sample(last)
    return r


def replay(case):
    return compare_runs(case['bare'], case['annotated'], case.get('nodes', ['?']))


def observe(case):
    return [run_prog(case['bare']), run_prog(case['annotated'])]
