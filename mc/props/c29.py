"""C29 — chain-history search reports exactly the state changes.

Exploration over histories x configurations.  A history over the block range [last, head] is given by
its set of change points; the value at each change is fresh (the property's premise: the value never
returns to an earlier one).  For every range length L, EVERY subset of <= K change points in
(last, head], every sampling step 1..L+1, two range starts and (on small ranges) seven kinds of value
are run through the real

    list(find_state_changes(head, last, get, equals, step))      and
    find_state_change(head, last, get, equals, pred_value=value at last)

with `get` a fake that serves the history and refuses levels outside [last, head].
Oracle (mc/ref/chainsearch.py, the statement): the report is [(level, value at level)] for exactly the
levels in (last, head] whose value differs from the previous level's, in increasing order; the
single-change search returns the first level after `last` whose value differs from the value at `last`
(no verdict when the range has no change: the statement presupposes one).
"""
from __future__ import annotations

import itertools

from mc.engine.report import Result
from mc.ref import chainsearch as ref

ID = 'C29'
LEVEL = 'exploration'
RULE = ('every range length L x every subset of <=K change points x every step 1..L+1 x range start in {0,5} x value kind; '
        'non-trivial = distinct histories (L, start, change points) with at least one change point; each is run under '
        'every step (pairs counted in extra.history_x_step_pairs_with_a_change); the value kind is not part of the key')
BOUND = {
    'quick': 'L in 0..14 with <=3 change points, all steps 1..L+1, start in {0,5}; 7 value kinds for L<=8 (ints above); '
             'spot length 120 with every single change point, steps {1,7,59,60,61,119,120,121}',
    'thorough': 'L in 0..24 with <=4 change points and L<=40 with <=3, all steps 1..L+1, start in {0,5}; 7 value kinds for L<=10; '
                'spot lengths {100,120,180,300} with every set of <=2 change points, steps {1,7,59,60,61,L-1,L,L+1}',
}
ASSUMPTIONS = [
    'find_state_changes yields (level, value) pairs (read from walk_state_change_interval); the value must be the '
    'value served for that level',
    'a level where the value "changes" is a level in (last, head] whose value is not `equals` to the previous level\'s; '
    'the level `last` itself is the baseline and is never reported',
    'the history is defined on [last, head] only: a probe outside the range is reported as a violation',
    'find_state_change is judged only when the range contains a change (statement: "the first level ... whose value differs")',
]
LEVEL_TEXT = ('exhaustive over all positions of up to 4 change points relative to every sampling grid for ranges up to 40 '
              'levels (every residue of change point vs. grid, every grid vs. range length relation incl. step > range), '
              'plus realistic lengths around the default step 60; longer ranges only repeat the same grid relations')

KINDS = ['int', 'str', 'dict', 'none-first', 'tuple2', 'tuple3', 'noisy', 'falsy', 'countdown']
FALSY = ['a', '', 0, [], None, {}, 0.5]   # a history whose LATER values are falsy Python objects (all pairwise different)


class OutOfRange(Exception):
    pass


def make_value(kind, k, level):
    """k-th fresh value of the history (k = number of change points at or below the level)."""
    if kind == 'int':
        return k
    if kind == 'str':
        return f'v{k}'
    if kind == 'dict':
        return {'yay': k, 'nay': 0}
    if kind == 'none-first':
        return None if k == 0 else str(k)
    if kind == 'tuple2':
        return (k, 'x')
    if kind == 'tuple3':
        return (k, 'x', 'y')
    if kind == 'noisy':
        return {'v': k, 'noise': level}
    if kind == 'falsy':
        return FALSY[k] if k < len(FALSY) else f'w{k}'
    if kind == 'countdown':
        return 2 - k
    raise ValueError(kind)


def make_equals(kind):
    if kind == 'noisy':
        return lambda x, y: x['v'] == y['v']
    return lambda x, y: x == y


def build(case):
    L, last, kind = case['L'], case['last'], case.get('kind', 'int')
    head = last + L
    cps = sorted(case['changes'])          # offsets 1..L from `last`
    hist, k = {}, 0
    cpset = set(cps)
    for off in range(0, L + 1):
        if off in cpset:
            k += 1
        hist[last + off] = make_value(kind, k, last + off)
    return head, last, hist, make_equals(kind)


def drive(case):
    """Real code.  -> dict(multi=('ok', [[level, value]..]) | ('raised', type, text) | ('oob', level), single=..., probes=..)"""
    from pytezos.rpc.search import find_state_change, find_state_changes
    head, last, hist, equals = build(case)
    probes = []

    def get(level):
        probes.append(level)
        if level not in hist:
            raise OutOfRange(level)
        return hist[level]

    obs = {}
    try:
        items = list(find_state_changes(head, last, get, equals, case['step']))
        obs['multi'] = ('ok', [list(it) if isinstance(it, (tuple, list)) else [it] for it in items])
    except OutOfRange as e:
        obs['multi'] = ('oob', e.args[0])
    except Exception as e:
        obs['multi'] = ('raised', type(e).__name__, str(e)[:200])
    obs['multi_probes'] = len(probes)
    del probes[:]
    try:
        res = find_state_change(head, last, get, equals, pred_value=hist[last])
        obs['single'] = ('ok', list(res) if isinstance(res, (tuple, list)) else [res])
    except OutOfRange as e:
        obs['single'] = ('oob', e.args[0])
    except RecursionError:
        obs['single'] = ('raised', 'RecursionError', '')
    except Exception as e:
        obs['single'] = ('raised', type(e).__name__, str(e)[:200])
    obs['single_probes'] = len(probes)
    return obs


def check(case):
    """-> (label_multi, label_single, no_verdict_count, [(descriptor, detail)])"""
    head, last, hist, equals = build(case)
    assert ref.never_returns(hist, last, head, equals)
    obs = drive(case)
    exp = ref.changes(hist, last, head, equals)
    vs = []
    ctx = f'L={case["L"]} last={last} head={head} changes at {[last + c for c in sorted(case["changes"])]} step={case["step"]} kind={case.get("kind", "int")}'
    m = obs['multi']
    if m[0] == 'raised':
        lm = f'raises {m[1]}'
        vs.append((f'find_state_changes raises {m[1]}', f'{ctx}: {m[2]}'))
    elif m[0] == 'oob':
        lm = 'probes outside range'
        vs.append(('find_state_changes probes a level outside [last, head]', f'{ctx}: level {m[1]}'))
    else:
        items = m[1]
        problems = []
        if any(len(it) != 2 for it in items):
            problems.append('shape')
            vs.append(('find_state_changes yields something that is not a (level, value) pair', f'{ctx}: {items}'))
        else:
            levels = [it[0] for it in items]
            explv = [lv for lv, _ in exp]
            missing = [lv for lv in explv if lv not in levels]
            extra = [lv for lv in levels if lv not in explv]
            if missing:
                low = min(ref.sampled_levels(head, last, case['step']))
                if all(lv <= low for lv in missing):
                    problems.append('missed below lowest sample')
                    vs.append(('change between the start of the range and the lowest sampled level is not reported',
                               f'{ctx}: lowest sampled level {low}, missing {missing}, reported {items}'))
                else:
                    problems.append('missed')
                    vs.append(('change above the lowest sampled level is not reported',
                               f'{ctx}: missing {missing}, reported {items}'))
            if extra:
                problems.append('extra')
                vs.append(('reports a level where the value does not change', f'{ctx}: extra {extra}, reported {items}'))
            if len(set(levels)) != len(levels):
                problems.append('duplicate')
                vs.append(('reports the same level more than once', f'{ctx}: reported {items}'))
            wrongv = [it for it in items if it[0] in hist and it[1] != hist[it[0]]]
            if wrongv:
                problems.append('wrong value')
                vs.append(('reports a change level with a value that is not the value at that level', f'{ctx}: {wrongv}'))
            if any(a >= b for a, b in zip(levels, levels[1:])) and len(set(levels)) == len(levels):
                problems.append('order')
                vs.append(('changes are not reported in increasing level order', f'{ctx}: reported levels {levels}'))
        lm = 'exact' if not problems else 'WRONG: ' + '+'.join(problems)
    nv = 0
    s = obs['single']
    first = ref.first_change(hist, last, head, equals)
    if first is None:
        ls = 'no change in range (no verdict): ' + ('returns' if s[0] == 'ok' else s[1] if s[0] == 'raised' else 'probes outside')
        nv = 1
    elif s[0] == 'raised':
        ls = f'raises {s[1]}'
        vs.append((f'find_state_change raises {s[1]}', f'{ctx}: {s[2]}'))
    elif s[0] == 'oob':
        ls = 'probes outside range'
        vs.append(('find_state_change probes a level outside [last, head]', f'{ctx}: level {s[1]}'))
    elif len(s[1]) != 2:
        ls = 'WRONG shape'
        vs.append(('find_state_change returns something that is not a (level, value) pair', f'{ctx}: {s[1]}'))
    elif s[1][0] != first[0]:
        ls = 'WRONG level'
        vs.append(('find_state_change does not return the first level whose value differs from the start value',
                   f'{ctx}: returned {s[1]}, expected level {first[0]}'))
    elif s[1][1] != first[1]:
        ls = 'WRONG value'
        vs.append(('find_state_change returns the right level with a wrong value', f'{ctx}: returned {s[1]}, expected {first}'))
    else:
        ls = 'first change found'
    return lm, ls, nv, vs


# ------------------------------------------------------------------ enumeration
def grid(tier):
    """-> list of shard specs (L, last, maxchanges, kinds, steps-or-None, part, nparts)"""
    out = []
    if tier == 'quick':
        for L in range(0, 15):
            for last in (0, 5):
                out.append((L, last, 3, KINDS if L <= 8 else ['int', 'falsy'], None, 0, 1))
        for part in range(8):
            out.append((120, 5, 1, ['int'], 'spot', part, 8))
    else:
        for L in range(0, 41):
            for last in (0, 5):
                n = 8 if L > 30 else (4 if L > 16 else 1)
                for part in range(n):
                    out.append((L, last, 4 if L <= 24 else 3, KINDS if L <= 10 else ['int', 'falsy'], None, part, n))
        for L in (100, 120, 180, 300):
            for part in range(16):
                out.append((L, 5, 2, ['int'], 'spot', part, 16))
    return out


def shards(tier, seed):
    g = grid(tier)
    # simplest first, so that the first recorded counterexample of a descriptor is a short one
    return sorted(g, key=lambda s: (s[0], s[1], s[5]))


def steps_for(L, steps):
    if steps == 'spot':
        return sorted({s for s in (1, 7, 59, 60, 61, L - 1, L, L + 1) if s >= 1})
    return list(range(1, L + 2))


def run_shard(spec, tier):
    L, last, maxc, kinds, steps, part, nparts = spec
    r = Result()
    case = None
    i = 0
    for n in range(0, maxc + 1):
        for cps in itertools.combinations(range(1, L + 1), n):
            i += 1
            if i % nparts != part:
                continue
            for step in steps_for(L, steps):
                if n:
                    r.nt((L, last, cps))
                    r.extra['history_x_step_pairs_with_a_change'] += 1
                rel = 'step>range' if step > L else ('step divides range' if L % step == 0 else 'step does not divide range')
                for kind in kinds:
                    case = {'L': L, 'last': last, 'changes': list(cps), 'step': step, 'kind': kind}
                    r.ev()
                    lm, ls, nv, vs = check(case)
                    r.out(f'search {kind}, {n} change(s), {rel}: {lm}')
                    r.out(f'single {kind}, {"empty" if L == 0 else "short" if L == 1 else "long"} range: {ls}')
                    r.no_verdict += nv
                    for d, detail in vs:
                        r.viol(d, case, detail)
                    if n == 2 and step == 3 and kind == 'int' and len(r.samples) < 1:
                        r.sample(case)
    if case:
        r.sample(case)
    return r


def replay(case):
    return check(case)[3]


def observe(case):
    return drive(case)
