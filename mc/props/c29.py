"""C29 — chain-history search reports exactly the state changes.

Exploration over histories x configurations, in three lanes.

PURE.  A history over the block range [last, head] is given by its set of change points; the value at each
change is fresh (the property's premise: the value never returns to an earlier one).  For every range length L,
EVERY subset of <= K change points in (last, head], every sampling step 1..L+1, two range starts and (on small
ranges) nine kinds of value are run through the real

    list(find_state_changes(head, last, get, equals, step))      and
    find_state_change(head, last, get, equals, pred_value=value at last)

with `get` a fake that serves the history and refuses levels outside [last, head].  Spot lengths of a few hundred
levels (every single change point, steps around 60, around the powers of two, around L/2 and L) make the sampling
windows and the bisected intervals several hundred levels wide.

SEQ (process history).  Several searches in ONE process over the SAME range [last, head] for DIFFERENT histories
(A, B, A again), every ordered pair of histories on small ranges and neighbouring / mirrored change points on long
ones; every call of the sequence is judged on its own.  (The PURE lane also runs all histories of one range in one
shard, one after the other.)

QUERY.  The same searches issued through the public query layer against an in-memory node behind the real
`ShellQuery`: `blocks[a:b].find_upvotes(P)`, `.find_ballots()` (multi-change search, default step 60, range
[a, b-1]) and `.find_origination(KT)` (single-change search over (0, head level]) on one slice object, one after
the other, for two proposals and two contracts with different histories.  The node serves realistic headers and
metadata (1-based `level`, 0-based `level_position` / `cycle_position`), answers unknown blocks with RpcError as a
node does, and puts a marker operation into every block so that the block a search settles on can be read from the
result.

Oracle (mc/ref/chainsearch.py, the statement): the report is [(level, value at level)] for exactly the
levels in (last, head] whose value differs from the previous level's, in increasing order; the
single-change search returns the first level after `last` whose value differs from the value at `last`
(no verdict when the range has no change: the statement presupposes one).  Through the query layer only the
levels can be observed; the last block of a slice (which the helpers leave out on purpose) is not judged.
"""
from __future__ import annotations

import bisect as _bisect
import contextlib
import itertools
import re
import sys

from mc.engine.report import Result
from mc.ref import chainsearch as ref

ID = 'C29'
LEVEL = 'exploration'
RULE = ('PURE: every range length L x every subset of <=K change points x every step 1..L+1 x range start in {0,5} x value kind; '
        'SEQ: ordered pairs (A,B) of histories searched A,B,A on one range in one process, each call judged; '
        'QUERY: chain height H x block slice x histories of two proposals, the ballots and two contracts, searched one after '
        'the other on one slice object through ShellQuery. '
        'non-trivial = distinct histories with at least one change point: (L, start, change points) in PURE, '
        '(L, start, step, A, B) with A != B in SEQ, (H, slice, helper, change points) in QUERY; each PURE history is run under '
        'every step (pairs counted in extra.history_x_step_pairs_with_a_change); the value kind is not part of the key')
BOUND = {
    'quick': 'PURE L in 0..14 with <=3 change points, all steps 1..L+1, start in {0,5}; 9 value kinds for L<=8 (int, falsy above); '
             'spot lengths {120,300,520} with every single change point and 150 with every pair, steps '
             '{1,7,59,60,61,127,128,129,255,256,257,L/2,L/2+1,L-1,L,L+1}; also the single-change search on each. '
             'SEQ L in 1..6, all ordered pairs of histories with <=2 change points, steps {1,2,3,L,L+1}, 3 kind pairs; L in {120,300} '
             'neighbouring and mirrored single change points, steps {1,60,L+1}. '
             'QUERY H in 1..8 with all <=2 change points x 7 slices; H in {61,130,300} every single change point x 3 slices and '
             'pairs at distance {1,60} on the whole chain; 6 searches per case',
    'thorough': 'PURE L in 0..24 with <=4 change points and L<=40 with <=3, all steps 1..L+1, start in {0,5}; 9 value kinds for L<=10; '
                'spot lengths {100,120,180,300,520} with every set of <=2 change points and 1000 with every single one, steps as in quick. '
                'SEQ L in 1..9 with <=3 (L<=7) or <=2 change points; L in {120,300,520} neighbouring and mirrored. '
                'QUERY H in 1..11 with all <=3 (H<=8) or <=2 change points x 7 slices; H in {61,100,130,300,520} every single change '
                'point x 7 slices and pairs at distance {1,2,59,60,61} x 3 slices',
}
ASSUMPTIONS = [
    'find_state_changes yields (level, value) pairs (read from walk_state_change_interval); the value must be the '
    'value served for that level',
    'a level where the value "changes" is a level in (last, head] whose value is not `equals` to the previous level\'s; '
    'the level `last` itself is the baseline and is never reported',
    'the history is defined on [last, head] only: a probe outside the range is reported as a violation',
    'find_state_change is judged only when the range contains a change (statement: "the first level ... whose value differs")',
    'every search is a fresh question: what an earlier search over the same range saw for another value has no bearing on it',
    'query layer: blocks[a:b] denotes levels a..b (negative a = offset from the head, empty b = head) as the BlocksQuery '
    'docstring says; find_upvotes / find_ballots search [a, b-1] (they leave the last block out on purpose), so a report of '
    'block b itself is not judged; find_origination searches (0, head level] with "no such contract" as the start value',
    'query layer: the block a search settled on is read from a marker operation the in-memory node puts into every block',
    'a search over n levels that nests more than about 4n+1000 calls deep does not terminate (reported as RecursionError)',
]
LEVEL_TEXT = ('exhaustive over all positions of up to 4 change points relative to every sampling grid for ranges up to 40 '
              'levels (every residue of change point vs. grid, every grid vs. range length relation incl. step > range), '
              'plus ranges of 100-1000 levels with windows and bisected intervals up to the whole range wide; repeated searches '
              'over one range for different histories in one process; the same searches through the public block-slice helpers '
              'against an in-memory node; longer ranges only repeat the same grid relations')

KINDS = ['int', 'str', 'dict', 'none-first', 'tuple2', 'tuple3', 'noisy', 'falsy', 'countdown']
FALSY = ['a', '', 0, [], None, {}, 0.5]   # a history whose LATER values are falsy Python objects (all pairwise different)
SEQ_SUFFIX = ' (search repeated on one range for another history)'


class OutOfRange(Exception):
    pass


# ================================================================== PURE lane
def make_value(kind, k, level):
    """k-th fresh value of the history (k = number of change points at or below the level)."""
    if kind == 'int':
        return k
    if kind == 'str':
        return f'v{k}'
    if kind == 'dict':
        return {'yay': k, 'nay': 0}
    if kind == 'none-first':
        return None if k == 0 else str(k)
    if kind == 'tuple2':
        return (k, 'x')
    if kind == 'tuple3':
        return (k, 'x', 'y')
    if kind == 'noisy':
        return {'v': k, 'noise': level}
    if kind == 'falsy':
        return FALSY[k] if k < len(FALSY) else f'w{k}'
    if kind == 'countdown':
        return 2 - k
    raise ValueError(kind)


def make_equals(kind):
    if kind == 'noisy':
        return lambda x, y: x['v'] == y['v']
    return lambda x, y: x == y


def build(case):
    L, last, kind = case['L'], case['last'], case.get('kind', 'int')
    head = last + L
    cps = sorted(case['changes'])          # offsets 1..L from `last`
    hist, k = {}, 0
    cpset = set(cps)
    for off in range(0, L + 1):
        if off in cpset:
            k += 1
        hist[last + off] = make_value(kind, k, last + off)
    return head, last, hist, make_equals(kind)


def _plain(x):
    return list(x) if isinstance(x, (tuple, list)) else [x]


@contextlib.contextmanager
def bounded_recursion(n):
    """Run the searches with room for about 4n+1000 nested calls (a bisection over n levels nests ~log2 n deep, a linear walk
    n deep): a search that never terminates (e.g. the single-change search on an empty range) then fails fast with
    RecursionError instead of unwinding the 100000 frames that a dependency of pytezos (py_ecc) allows process-wide.
    The previous limit is restored afterwards."""
    old = sys.getrecursionlimit()
    sys.setrecursionlimit(min(old, 4 * n + 1000) if old >= 1000 else old)
    try:
        yield
    finally:
        sys.setrecursionlimit(old)


def drive(case):
    with bounded_recursion(case['L']):
        return _drive(case)


def _drive(case):
    """Real code.  -> dict(multi=('ok', [[level, value]..]) | ('raised', type, text) | ('oob', level), single=..., probes=..)"""
    from pytezos.rpc.search import find_state_change, find_state_changes
    head, last, hist, equals = build(case)
    probes = []

    def get(level):
        probes.append(level)
        if level not in hist:
            raise OutOfRange(level)
        return hist[level]

    obs = {}
    try:
        items = list(find_state_changes(head, last, get, equals, case['step']))
        obs['multi'] = ('ok', [_plain(it) for it in items])
    except OutOfRange as e:
        obs['multi'] = ('oob', e.args[0])
    except RecursionError:
        obs['multi'] = ('raised', 'RecursionError', '')
    except Exception as e:
        obs['multi'] = ('raised', type(e).__name__, str(e)[:200])
    obs['multi_probes'] = len(probes)
    del probes[:]
    try:
        res = find_state_change(head, last, get, equals, pred_value=hist[last])
        obs['single'] = ('ok', _plain(res))
    except OutOfRange as e:
        obs['single'] = ('oob', e.args[0])
    except RecursionError:
        obs['single'] = ('raised', 'RecursionError', '')
    except Exception as e:
        obs['single'] = ('raised', type(e).__name__, str(e)[:200])
    obs['single_probes'] = len(probes)
    return obs


def judge_levels(who, ctx, levels, explv, low=None):
    """Compare a reported level list with the expected one.  -> (problems, [(descriptor, detail)])"""
    problems, vs = [], []
    if any(not isinstance(lv, int) or isinstance(lv, bool) for lv in levels):
        return ['shape'], [(f'{who}reports something that is not a block level', f'{ctx}: reported {levels}')]
    missing = [lv for lv in explv if lv not in levels]
    extra = [lv for lv in levels if lv not in explv]
    if missing:
        if low is not None and all(lv <= low for lv in missing):
            problems.append('missed below lowest sample')
            vs.append((f'{who}change between the start of the range and the lowest sampled level is not reported',
                       f'{ctx}: lowest sampled level {low}, missing {missing}, reported {levels}'))
        else:
            problems.append('missed')
            vs.append((f'{who}change above the lowest sampled level is not reported' if low is not None else
                       f'{who}a level where the value changes is not reported',
                       f'{ctx}: missing {missing}, reported {levels}'))
    if extra:
        problems.append('extra')
        vs.append((f'{who}reports a level where the value does not change', f'{ctx}: extra {extra}, reported {levels}'))
    if len(set(levels)) != len(levels):
        problems.append('duplicate')
        vs.append((f'{who}reports the same level more than once', f'{ctx}: reported {levels}'))
    elif any(a >= b for a, b in zip(levels, levels[1:])):
        problems.append('order')
        vs.append((f'{who}changes are not reported in increasing level order', f'{ctx}: reported levels {levels}'))
    return problems, vs


def judge(case, obs):
    """-> (label_multi, label_single, no_verdict_count, [(descriptor, detail)])"""
    head, last, hist, equals = build(case)
    assert ref.never_returns(hist, last, head, equals)
    exp = ref.changes(hist, last, head, equals)
    vs = []
    ctx = f'L={case["L"]} last={last} head={head} changes at {[last + c for c in sorted(case["changes"])]} step={case["step"]} kind={case.get("kind", "int")}'
    m = obs['multi']
    if m[0] == 'raised':
        lm = f'raises {m[1]}'
        vs.append((f'find_state_changes raises {m[1]}', f'{ctx}: {m[2]}'))
    elif m[0] == 'oob':
        lm = 'probes outside range'
        vs.append(('find_state_changes probes a level outside [last, head]', f'{ctx}: level {m[1]}'))
    else:
        items = m[1]
        problems = []
        if any(len(it) != 2 for it in items):
            problems.append('shape')
            vs.append(('find_state_changes yields something that is not a (level, value) pair', f'{ctx}: {items}'))
        else:
            levels = [it[0] for it in items]
            low = min(ref.sampled_levels(head, last, case['step']), default=head)
            problems, pv = judge_levels('', f'{ctx}; items {items}', levels, [lv for lv, _ in exp], low)
            vs.extend(pv)
            wrongv = [it for it in items if isinstance(it[0], int) and it[0] in hist and it[1] != hist[it[0]]]
            if wrongv:
                problems.append('wrong value')
                vs.append(('reports a change level with a value that is not the value at that level', f'{ctx}: {wrongv}'))
        lm = 'exact' if not problems else 'WRONG: ' + '+'.join(problems)
    nv = 0
    s = obs['single']
    first = ref.first_change(hist, last, head, equals)
    if first is None:
        ls = 'no change in range (no verdict): ' + ('returns' if s[0] == 'ok' else s[1] if s[0] == 'raised' else 'probes outside')
        nv = 1
    elif s[0] == 'raised':
        ls = f'raises {s[1]}'
        vs.append((f'find_state_change raises {s[1]}', f'{ctx}: {s[2]}'))
    elif s[0] == 'oob':
        ls = 'probes outside range'
        vs.append(('find_state_change probes a level outside [last, head]', f'{ctx}: level {s[1]}'))
    elif len(s[1]) != 2:
        ls = 'WRONG shape'
        vs.append(('find_state_change returns something that is not a (level, value) pair', f'{ctx}: {s[1]}'))
    elif s[1][0] != first[0]:
        ls = 'WRONG level'
        vs.append(('find_state_change does not return the first level whose value differs from the start value',
                   f'{ctx}: returned {s[1]}, expected level {first[0]}'))
    elif s[1][1] != first[1]:
        ls = 'WRONG value'
        vs.append(('find_state_change returns the right level with a wrong value', f'{ctx}: returned {s[1]}, expected {first}'))
    else:
        ls = 'first change found'
    return lm, ls, nv, vs


def check(case):
    return judge(case, drive(case))


# ================================================================== SEQ lane
def seq_subcases(case):
    return [{'L': case['L'], 'last': case['last'], 'step': case['step'], 'changes': c['changes'], 'kind': c.get('kind', 'int')}
            for c in case['calls']]


def check_seq(case):
    """Searches over one range, one after the other in this process; each judged on its own.
    -> [(label_multi, label_single, nv, vs)] per call"""
    out = []
    for i, sub in enumerate(seq_subcases(case)):
        lm, ls, nv, vs = check(sub)
        if i:
            vs = [(d + SEQ_SUFFIX, f'call {i + 1} of {len(case["calls"])} in {case["calls"]}: {detail}') for d, detail in vs]
        out.append((lm, ls, nv, vs))
    return out


# ================================================================== QUERY lane
KT1 = 'KT1Hkg5qeNhfwpKW4fXvq7HGZB9z2EnmCCA9'
KT2 = 'KT1PWx2mnDueood7fEmfbBDKx1D9BAnnXitn'
P1 = 'PsRiotumaAMotcRoDWW1bysEhQy2n1M5fy8JgRp8jjRfHGmfeA7'
P2 = 'PtNairobiyssHuh87hEhfVBGCVrK3WnS8Z2FT4ymB5tAa4r1nQf'
TRACK_ID = {'p1': P1, 'p2': P2, 'kt1': KT1, 'kt2': KT2}
QUERY_CALLS = ['p1', 'p2', 'p1', 'ballots', 'kt1', 'kt2']    # order of the searches on one slice object
_PATH = re.compile(r'/?chains/main/blocks/([^/]+)/(.*)')


class NodeGap(Exception):
    """The client asked the in-memory node for something it does not serve."""


def _node_class():
    from pytezos.rpc.node import RpcError, RpcNode

    class ChainNode(RpcNode):
        """Blocks 0..H.  tracks: name -> sorted change levels.  Proposal `p`: roll count = number of change levels at or
        below the block; ballots: yay count likewise; contract `kt`: absent below its first change level (origination),
        afterwards its counter = number of later change levels passed."""

        def __init__(self, H, tracks):
            super().__init__('http://c29.invalid')
            self.H, self.tracks = H, tracks
            self.asked = []

        def count(self, name, level):
            return _bisect.bisect_right(self.tracks.get(name) or [], level)

        def get(self, path, params=None, timeout=None):
            m = _PATH.fullmatch(path)
            if not m:
                raise NodeGap(path)
            bid, tail = m.group(1), m.group(2)
            if bid == 'head':
                level = self.H
            else:
                try:
                    level = int(bid)
                except ValueError:
                    raise NodeGap(path)
                if not 0 <= level <= self.H:
                    self.asked.append(level)
                    raise RpcError(f'Not found: block {bid}')
            if tail == 'header':
                return {'level': level, 'hash': f'block{level}', 'predecessor': f'block{max(level - 1, 0)}'}
            if tail == 'metadata':
                pos = max(level - 1, 0)
                return {'level_info': {'level': level, 'level_position': pos, 'cycle': pos // 128, 'cycle_position': pos % 128,
                                       'expected_commitment': False},
                        'voting_period_info': {'voting_period': {'index': pos // 512, 'kind': 'proposal', 'start_position': pos // 512 * 512},
                                               'position': pos % 512, 'remaining': 511 - pos % 512}}
            if tail == 'votes/proposals':
                return [[TRACK_ID[p], self.count(p, level)] for p in ('p1', 'p2') if self.count(p, level)]
            if tail == 'votes/ballots':
                return {'yay': self.count('ballots', level), 'nay': 0, 'pass': 0}
            for kt in ('kt1', 'kt2'):
                if tail == f'context/contracts/{TRACK_ID[kt]}/counter':
                    n = self.count(kt, level)
                    if not n:
                        raise RpcError(f'Not found: {path}')
                    return str(n - 1)
            if tail == 'operations/1':
                return [{'hash': f'{level}:p1', 'contents': [{'kind': 'proposals', 'proposals': [P1]}]},
                        {'hash': f'{level}:ballots', 'contents': [{'kind': 'ballot', 'proposal': P1, 'ballot': 'yay'}]},
                        {'hash': f'{level}:p2', 'contents': [{'kind': 'proposals', 'proposals': [P2]}]}]
            if tail == 'operations/3':
                return [{'hash': f'{level}:none', 'contents': [{'kind': 'transaction', 'metadata': {'operation_result': {}}}]}] + [
                    {'hash': f'{level}:{kt}', 'contents': [{'kind': 'origination', 'metadata': {
                        'operation_result': {'originated_contracts': [TRACK_ID[kt]]}}}]} for kt in ('kt1', 'kt2')]
            raise NodeGap(path)

        def post(self, path, params=None, json=None):
            raise NodeGap('POST ' + path)

        def request(self, method, path, **kwargs):
            raise NodeGap(f'{method} {path}')

    return ChainNode


_ChainNode = None


def _marks(ops, tag):
    """Levels of the marker operations in a helper's result ('?' for anything that is not one of them)."""
    out = []
    for op in ops if isinstance(ops, list) else [ops]:
        h = op.get('hash') if isinstance(op, dict) else None
        m = re.fullmatch(r'(\d+):(\w+)', h) if isinstance(h, str) else None
        out.append(int(m.group(1)) if m and m.group(2) == tag else '?')
    return out


def drive_query(case):
    with bounded_recursion(case['H']):
        return _drive_query(case)


def _drive_query(case):
    """Real code: one node, one ShellQuery, one slice object, the searches of QUERY_CALLS one after the other.
    -> [('ok', [levels]) | ('raised', type, text)] per call"""
    global _ChainNode
    from pytezos.rpc.shell import ShellQuery
    if _ChainNode is None:
        _ChainNode = _node_class()
    tracks = {k: sorted(case.get(k) or []) for k in ('p1', 'p2', 'ballots', 'kt1', 'kt2')}
    node = _ChainNode(case['H'], tracks)
    obs = []
    try:
        q = ShellQuery(node=node).blocks[case['start']:case['stop']]
    except BaseException as e:   # noqa
        return [('raised', type(e).__name__, 'building the slice: ' + str(e)[:200])] * len(QUERY_CALLS)
    for call in QUERY_CALLS:
        try:
            if call in ('p1', 'p2'):
                o = ('ok', _marks(list(q.find_upvotes(TRACK_ID[call])), call))
            elif call == 'ballots':
                o = ('ok', _marks(list(q.find_ballots()), 'ballots'))
            else:
                o = ('ok', _marks(q.find_origination(TRACK_ID[call]), call))
        except RecursionError:
            o = ('raised', 'RecursionError', '')
        except (Exception, StopIteration) as e:
            o = ('raised', type(e).__name__, str(e)[:200])
        obs.append(o)
    return obs


def judge_query(case, obs):
    """-> [(helper, label, nv, nontrivial key or None, [(descriptor, detail)])] per call"""
    H = case['H']
    first, stop = ref.slice_range(case['start'], case['stop'], H)
    sl = f'blocks[{case["start"]}:{"" if case["stop"] is None else case["stop"]}]'
    out = []
    for i, (call, o) in enumerate(zip(QUERY_CALLS, obs)):
        cps = sorted(case.get(call) or [])
        ctx = f'chain of {H} blocks, {sl}, search {i + 1} of {QUERY_CALLS} on one slice object, {call} changes at {cps}'
        nv, vs = 0, []
        if call in ('kt1', 'kt2'):
            helper = 'find_origination'
            hist = {lv: (None if lv < cps[0] else str(_bisect.bisect_right(cps, lv) - 1)) if cps else None for lv in range(0, H + 1)}
            exp = ref.first_change(hist, 0, H)
            key = (H, helper, tuple(cps)) if cps else None
            if exp is None:
                label, nv = 'contract never originated (no verdict)', 1
            elif o[0] == 'raised':
                label = f'raises {o[1]}'
                vs.append((f'query layer: find_origination raises {o[1]}', f'{ctx}: {o[2]}'))
            elif o[1] != [exp[0]]:
                label = 'WRONG block'
                vs.append(('query layer: find_origination does not settle on the first block in which the contract exists',
                           f'{ctx}: settled on block {o[1]}, expected {exp[0]}'))
            else:
                label = 'origination block found'
        else:
            helper = 'find_ballots' if call == 'ballots' else 'find_upvotes'
            last, head = first, stop - 1
            hist = {lv: _bisect.bisect_right(cps, lv) for lv in range(last, head + 1)}
            explv = [lv for lv, _ in ref.changes(hist, last, head)] if head > last else []
            key = (H, case['start'], case['stop'], helper, tuple(cps)) if explv else None
            if o[0] == 'raised':
                label = f'raises {o[1]}'
                vs.append((f'query layer: {helper} raises {o[1]}', f'{ctx}: {o[2]}'))
            else:
                levels = [lv for lv in o[1] if lv != stop]
                if len(levels) != len(o[1]):
                    nv = 1      # a report of the slice's last block is neither demanded nor forbidden here
                problems, vs = judge_levels(f'query layer: {helper} ', ctx, levels, explv)
                label = ('exact' if not problems else 'WRONG: ' + '+'.join(problems)) + (', no change in range' if not explv else '')
        out.append((helper, label, nv, key, vs))
    return out


def check_query(case):
    return judge_query(case, drive_query(case))


# ------------------------------------------------------------------ enumeration
SPOT_EXTRA = (127, 128, 129, 255, 256, 257)


def grid(tier):
    """-> list of shard specs; spec[0] is the lane, spec[1] the size (sort key: simplest first)
    pure:  ('pure', L, last, maxchanges, kinds, steps-or-'spot', part, nparts)
    seq:   ('seq', L, last, maxchanges, part, nparts) | ('seqspot', L, last)
    query: ('query', H, maxchanges-or-'spot', part, nparts)"""
    out = []
    q = tier == 'quick'
    # PURE
    for L in range(0, 15 if q else 41):
        for last in (0, 5):
            n = 1 if q else (8 if L > 30 else (4 if L > 16 else 1))
            for part in range(n):
                if q:
                    out.append(('pure', L, last, 3, KINDS if L <= 8 else ['int', 'falsy'], None, part, n))
                else:
                    out.append(('pure', L, last, 4 if L <= 24 else 3, KINDS if L <= 10 else ['int', 'falsy'], None, part, n))
    for L, maxc, n in ([(120, 1, 4), (150, 2, 8), (300, 1, 8), (520, 1, 8)] if q else
                       [(100, 2, 16), (120, 2, 16), (180, 2, 16), (300, 2, 32), (520, 2, 64), (1000, 1, 16)]):
        for part in range(n):
            out.append(('pure', L, 5, maxc, ['int'], 'spot', part, n))
    # SEQ
    for L in range(1, 7 if q else 10):
        for last in (0, 5):
            n = 1 if L <= 6 else 8
            for part in range(n):
                out.append(('seq', L, last, 2 if (q or L > 7) else 3, part, n))
    for L in ((120, 300) if q else (120, 300, 520)):
        out.append(('seqspot', L, 5))
    # QUERY
    for H in range(1, 9 if q else 12):
        n = 1 if H <= 6 else 4
        for part in range(n):
            out.append(('query', H, 2 if (q or H > 8) else 3, part, n))
    for H in ((61, 130, 300) if q else (61, 100, 130, 300, 520)):
        n = 8 if q else 16
        for part in range(n):
            out.append(('query', H, 'spot', part, n))
    return out


def shards(tier, seed):
    g = grid(tier)
    # simplest first, so that the first recorded counterexample of a descriptor is a short one
    order = {'pure': 0, 'seq': 1, 'seqspot': 1, 'query': 2}
    return sorted(g, key=lambda s: (s[1], order[s[0]], repr(s[2:])))


def steps_for(L, steps):
    if steps == 'spot':
        return sorted({s for s in (1, 7, 59, 60, 61, L // 2, L // 2 + 1, L - 1, L, L + 1) + SPOT_EXTRA if 1 <= s <= L + 1})
    return list(range(1, L + 2))


def run_pure(spec, r):
    _, L, last, maxc, kinds, steps, part, nparts = spec
    case = None
    i = 0
    for n in range(0, maxc + 1):
        for cps in itertools.combinations(range(1, L + 1), n):
            i += 1
            if i % nparts != part:
                continue
            for step in steps_for(L, steps):
                if n:
                    r.nt((L, last, cps))
                    r.extra['history_x_step_pairs_with_a_change'] += 1
                rel = 'step>range' if step > L else ('step divides range' if L % step == 0 else 'step does not divide range')
                for kind in kinds:
                    case = {'L': L, 'last': last, 'changes': list(cps), 'step': step, 'kind': kind}
                    r.ev()
                    lm, ls, nv, vs = check(case)
                    r.out(f'search {kind}, {n} change(s), {rel}: {lm}')
                    r.out(f'single {kind}, {"empty" if L == 0 else "short" if L == 1 else "long" if L <= 128 else "very long"} range: {ls}')
                    r.no_verdict += nv
                    for d, detail in vs:
                        r.viol(d, case, detail)
                    if n == 2 and step == 3 and kind == 'int' and len(r.samples) < 1:
                        r.sample(case)
    if case:
        r.sample(case)


SEQ_KINDS = [('int', 'int'), ('int', 'str'), ('falsy', 'countdown')]


def run_seq_case(case, r):
    a, b = case['calls'][0], case['calls'][1]
    if a['changes'] != b['changes'] and (a['changes'] or b['changes']):
        r.nt(('seq', case['L'], case['last'], case['step'], tuple(a['changes']), tuple(b['changes'])))
    r.ev()
    for i, (lm, ls, nv, vs) in enumerate(check_seq(case)):
        same = 'same values' if a.get('kind') == b.get('kind') else 'other values'
        what = ('first search' if i == 0 else 'other history, ' + same if i == 1 else 'first history again')
        r.out(f'seq {what}: search {lm}')
        r.out(f'seq {what}: single {ls.split(":")[0]}')
        r.no_verdict += nv
        for d, detail in vs:
            r.viol(d, case, detail)


def run_seq(spec, r):
    case = None
    if spec[0] == 'seqspot':
        _, L, last = spec
        for c in range(1, L + 1):
            for c2 in sorted({min(c + 1, L), L + 1 - c, max(c - 60, 1)} - {c}):
                for step in (1, 60, L + 1):
                    case = {'lane': 'seq', 'L': L, 'last': last, 'step': step,
                            'calls': [{'changes': [c], 'kind': 'int'}, {'changes': [c2], 'kind': 'int'}, {'changes': [c], 'kind': 'int'}]}
                    run_seq_case(case, r)
    else:
        _, L, last, maxc, part, nparts = spec
        hs = [list(c) for n in range(0, maxc + 1) for c in itertools.combinations(range(1, L + 1), n)]
        i = 0
        for A in hs:
            for B in hs:
                i += 1
                if i % nparts != part:
                    continue
                for step in sorted({1, 2, 3, L, L + 1} & set(range(1, L + 2))):
                    for ka, kb in SEQ_KINDS:
                        case = {'lane': 'seq', 'L': L, 'last': last, 'step': step,
                                'calls': [{'changes': A, 'kind': ka}, {'changes': B, 'kind': kb}, {'changes': A, 'kind': ka}]}
                        run_seq_case(case, r)
                        if len(r.samples) < 1 and len(A) == 1 and len(B) == 2:
                            r.sample(case)
    if case:
        r.sample(case)


def query_slices(H, spot, full):
    """(start, stop) pairs denoting a non-inverted range; negative start = offset from the head."""
    s = [(1, None), (-(H // 2 + 1), None), (2, H - 1)]
    if not spot or full:
        s += [(-1, None), (-2, None), (-(H + 3), None), (3, None)]
    out = []
    for a, b in s:
        first, stop = ref.slice_range(a, b, H)
        if first <= stop and (b is None or 1 <= b <= H) and (a, b) not in out:
            out.append((a, b))
    return out


def run_query(spec, r, tier):
    _, H, maxc, part, nparts = spec
    spot = maxc == 'spot'
    if spot:
        singles = [[c] for c in range(1, H + 1)]
        dist = (1, 60) if tier == 'quick' else (1, 2, 59, 60, 61)
        pairs = [[c, c + d] for c in range(1, H + 1) for d in dist if c + d <= H]
        plans = [(singles, query_slices(H, True, tier != 'quick')), (pairs, query_slices(H, True, False)[:1 if tier == 'quick' else 3])]
    else:
        hs = [list(c) for n in range(0, maxc + 1) for c in itertools.combinations(range(1, H + 1), n)]
        plans = [(hs, query_slices(H, False, True))]
    case = None
    i = 0
    for hs, slices in plans:
        for (a, b) in slices:
            for j, A in enumerate(hs):
                i += 1
                if i % nparts != part:
                    continue
                B, C = hs[(j + 1) % len(hs)], hs[(j + 2) % len(hs)]
                case = {'lane': 'query', 'H': H, 'start': a, 'stop': b, 'p1': A, 'p2': B, 'ballots': C, 'kt1': A, 'kt2': B}
                r.ev()
                for k, (helper, label, nv, key, vs) in enumerate(check_query(case)):
                    if key:
                        r.nt(('query',) + key)
                    r.out(f'query {helper} ({"first" if k == 0 else "later"} search on the slice, start {"<0" if a < 0 else ">0"}, '
                          f'{"short" if H <= 60 else "long"} chain): {label}')
                    r.no_verdict += nv
                    for d, detail in vs:
                        r.viol(d, case, detail)
                if len(r.samples) < 1 and len(A) == 2:
                    r.sample(case)
    if case:
        r.sample(case)


def run_shard(spec, tier):
    r = Result()
    if spec[0] == 'pure':
        run_pure(spec, r)
    elif spec[0] in ('seq', 'seqspot'):
        run_seq(spec, r)
    else:
        run_query(spec, r, tier)
    return r


def replay(case):
    lane = case.get('lane', 'pure')
    if lane == 'seq':
        return [v for _, _, _, vs in check_seq(case) for v in vs]
    if lane == 'query':
        return [v for _, _, _, _, vs in check_query(case) for v in vs]
    return check(case)[3]


def observe(case):
    """What the searches answer (not how many probes they needed: an implementation is free to probe less)."""
    lane = case.get('lane', 'pure')
    if lane == 'seq':
        return [{k: v for k, v in drive(sub).items() if k in ('multi', 'single')} for sub in seq_subcases(case)]
    if lane == 'query':
        return drive_query(case)
    return {k: v for k, v in drive(case).items() if k in ('multi', 'single')}
