"""C08 — key import, export and address derivation are consistent.

Bounded exhaustive exploration over

  keys      every (curve, secret) of a 5-secret alphabet per curve {1, 2, 3, order-1, a fixed 32-byte pattern}
            (ed25519: seeds): derived public key == independent derivation (mc.ref.sigref: `cryptography` for
            Ed25519/secp256k1/P-256, plain scalar multiplication + own point compression for BLS12-381);
            public_key_hash() and the real HASH_KEY instruction == base58check(tzN, Blake2b-160(public key)) computed
            with the reference base58; plain export -> import round trip; ed25519 64-byte form.
  enc       every (key, passphrase, salt): export encrypted with the salt ENUMERATED through the
            `pysodium.randombytes` seam, import again with the same passphrase (given as str and as bytes) -> same key.
  mnemonic  for every valid BIP-39 length (12..24), several entropy prefixes and ALL 2048 candidates for the last word
            (thorough: for every position): validate_mnemonic accepts exactly when mc.ref.bip39 says the checksum is
            valid (and exactly 2^(11-n/3) of the 2048 are accepted); every invalid length 1..26; unknown words;
            from_mnemonic(validate=True) agrees.
  derive    from_mnemonic twice with the same (mnemonic, email, passphrase, curve) gives the same key or the same
            exception; for ed25519 the key equals the one derived from PBKDF2-HMAC-SHA512 computed with hashlib.
"""
from __future__ import annotations

import hashlib

from mc.engine.report import Result
from mc.ref import base58 as b58
from mc.ref import bip39
from mc.ref import sigref

ID = 'C08'
LEVEL = 'exploration'
RULE = ('every key of the alphabet; every (key, passphrase, salt); every candidate word at the enumerated position of every '
        'enumerated mnemonic prefix; every (mnemonic, passphrase, email, curve); non-trivial = distinct cases decided by '
        'the computation under test rather than by parsing: keys, encrypted round trips with a non-empty passphrase, '
        'word sequences of a valid length made of list words (the checksum decides), derivations')
BOUND = {
    'quick': '4 curves x 5 secrets; passphrases {"a","pw",bytes 00ff,64 chars,""} x salts {00x8, ffx8, 0102..08}; mnemonics: '
             '5 lengths x 2 entropy prefixes x all 2048 last words, all lengths 0..26, unknown word at every position; '
             'derivation: 3 mnemonics x 3 passphrases x 2 emails x 4 curves',
    'thorough': 'same keys; 8 passphrases x 6 salts; mnemonics: 5 lengths x 4 prefixes x all 2048 last words and, for one prefix '
                'per length, all 2048 words at EVERY position; derivation: 5 mnemonics x 4 passphrases x 3 emails x 4 curves',
}
ASSUMPTIONS = [
    'independent public-key derivation (`cryptography`; py_ecc scalar multiplication for BLS) is correct - replayed on the '
    'Octez-produced key triples of tests/unit_tests/test_crypto/test_crypto.py by mc.selftest',
    'mc.ref.bip39 is BIP-39 - replayed against the third-party `mnemonic` package and the published Trezor vectors',
    'pysodium.randombytes is the only source of randomness in Key.secret_key()',
    'for ed25519 the mnemonic derivation is pinned to the Tezos convention seed = PBKDF2(mnemonic, "mnemonic"+email+passphrase)[:32]; '
    'for the other curves only determinism is judged',
]
LEVEL_TEXT = ('exploration: exhaustive over a small key/passphrase/salt alphabet and over all 2048 words at the enumerated '
              'mnemonic positions; decides the wrapper logic (prefixes, hashing, salt handling, checksum arithmetic), not the primitives')

CURVES = ['ed', 'sp', 'p2', 'BL']
PATTERN = bytes(range(1, 33))
ESK_PREFIX = {'ed': bytes([7, 90, 60, 179, 41]), 'sp': bytes([9, 237, 241, 174, 150]),
              'p2': bytes([9, 48, 57, 115, 171]), 'BL': bytes([2, 5, 30, 53, 25])}
CNAME = {'ed': 'Ed25519', 'sp': 'Secp256k1', 'p2': 'P256', 'BL': 'BLS12-381'}


def secrets(curve):
    if curve == 'ed':
        return [(1).to_bytes(32, 'big'), (2).to_bytes(32, 'big'), (3).to_bytes(32, 'big'), b'\xff' * 32, PATTERN]
    n = sigref.ORDER[curve]
    endian = 'little' if curve == 'BL' else 'big'
    return [v.to_bytes(32, endian) for v in (1, 2, 3, n - 1, int.from_bytes(PATTERN, 'big') % n)]


def passphrases(tier):
    # 'cafe' / '1234' / '0x00': passphrases that LOOK like hexadecimal (input scrubbing must not reinterpret them)
    base = ['a', 'pw', b'\x00\xff', 'x' * 64, '', 'cafe', '1234', '0x00']
    if tier != 'quick':
        base += ['päss wörd', ' ', b'\xff' * 33]
    return base


def salts(tier):
    base = [bytes(8), b'\xff' * 8, bytes(range(1, 9))]
    if tier != 'quick':
        base += [b'\x00' * 7 + b'\x01', b'\x80' + bytes(7), bytes(range(8, 0, -1))]
    return base


def make_key(curve, secret):
    from pytezos.crypto.key import Key
    return Key.from_secret_exponent(secret, curve.encode())


def same_key(a, b):
    return (a.curve, a.secret_exponent, a.public_point) == (b.curve, b.secret_exponent, b.public_point)


# --------------------------------------------------------------------------------------------- keys
_ctx = None


def hash_key_instr(pk_str):
    """real HASH_KEY on a real stack -> key hash string or 'raises:<Exc>'"""
    global _ctx
    from pytezos.michelson.instructions.base import MichelsonInstruction
    from pytezos.michelson.stack import MichelsonStack
    if _ctx is None:
        from pytezos.context.impl import ExecutionContext
        _ctx = ExecutionContext()
    st = MichelsonStack()
    try:
        MichelsonInstruction.match({'prim': 'PUSH', 'args': [{'prim': 'key'}, {'string': pk_str}]}).execute(st, [], _ctx)
        MichelsonInstruction.match({'prim': 'HASH_KEY'}).execute(st, [], _ctx)
        top = st.items[0]
        if type(top).__name__ != 'KeyHashType' or len(st.items) != 1:
            return f'bad-stack:{type(top).__name__}/{len(st.items)}'
        return str(top.value)
    except Exception as e:  # noqa
        return f'raises:{type(e.__cause__ or e).__name__}'


def check_key(case):
    from pytezos.crypto.key import Key
    curve, secret = case['curve'], case['secret']
    cn = CNAME[curve]
    V = []
    try:
        k = make_key(curve, secret)
    except Exception as e:  # noqa
        return [(f'from_secret_exponent raises for a valid {cn} secret', f'secret={secret.hex()}: {type(e).__name__} {e}')]
    pub = sigref.public_from_secret(curve, secret)
    if k.public_point != pub:
        V.append((f'derived {cn} public key differs from the independent derivation',
                  f'secret={secret.hex()}: {bytes(k.public_point).hex()} vs {pub.hex()}'))
    want_pk = b58.enc(sigref.PK_KIND[curve], pub)
    if k.public_key() != want_pk:
        V.append((f'public_key() is not the base58 encoding of the {cn} public key', f'{k.public_key()} vs {want_pk}'))
    want_pkh = b58.enc(sigref.PKH_KIND[curve], hashlib.blake2b(pub, digest_size=20).digest())
    if k.public_key_hash() != want_pkh:
        V.append((f'public_key_hash() is not {sigref.PKH_KIND[curve]}(Blake2b-160(public key))', f'{k.public_key_hash()} vs {want_pkh}'))
    hk = hash_key_instr(want_pk)
    if hk != want_pkh:
        V.append((f'HASH_KEY differs from {sigref.PKH_KIND[curve]}(Blake2b-160(public key))', f'key {want_pk}: {hk} vs {want_pkh}'))
    try:
        kp = Key.from_encoded_key(want_pk)
        if kp.is_secret or kp.public_key_hash() != want_pkh or kp.public_key() != want_pk:
            V.append((f'public key import gives a different key [{cn}]', f'{want_pk}: {kp.public_key()} {kp.public_key_hash()}'))
    except Exception as e:  # noqa
        V.append((f'public key import raises [{cn}]', f'{want_pk}: {type(e).__name__} {e}'))
    # plain export -> import
    try:
        sk = k.secret_key()
        k2 = Key.from_encoded_key(sk)
        if not same_key(k, k2) or k2.secret_key() != sk or k2.public_key_hash() != k.public_key_hash():
            V.append((f'plain export/import does not yield the same key [{cn}]', f'secret={secret.hex()} exported {sk}'))
        if not sk.startswith(curve + 'sk'):
            V.append((f'plain secret key export has an unexpected prefix [{cn}]', sk))
    except Exception as e:  # noqa
        V.append((f'plain export/import raises [{cn}]', f'secret={secret.hex()}: {type(e).__name__} {e}'))
    if curve == 'ed':
        try:
            sk64 = k.secret_key(ed25519_seed=False)
            k3 = Key.from_encoded_key(sk64)
            k4 = Key.from_secret_exponent(k.secret_exponent, b'ed')
            if not same_key(k, k3) or not same_key(k, k4) or len(sk64) != 98:
                V.append(('ed25519 64-byte secret key export/import does not yield the same key', f'seed={secret.hex()} exported {sk64}'))
        except Exception as e:  # noqa
            V.append(('ed25519 64-byte secret key export/import raises', f'seed={secret.hex()}: {type(e).__name__} {e}'))
    return V


# --------------------------------------------------------------------------------------------- encrypted export
class patched_salt:
    def __init__(self, salt):
        self.salt = salt
        self.calls = []

    def __enter__(self):
        import pytezos.crypto.key as K
        self.mod = K.pysodium
        self.old = self.mod.randombytes

        def fake(n):
            self.calls.append(n)
            assert n == len(self.salt)
            return self.salt
        self.mod.randombytes = fake
        return self

    def __exit__(self, *a):
        self.mod.randombytes = self.old


def check_enc(case):
    from pytezos.crypto.key import Key
    curve, secret, pw, salt = case['curve'], case['secret'], case['passphrase'], case['salt']
    cn = CNAME[curve]
    k = make_key(curve, secret)
    V = []
    try:
        with patched_salt(salt) as ps:
            exported = k.secret_key(pw)
    except Exception as e:  # noqa
        return [(f'encrypted export raises [{cn}]', f'secret={secret.hex()} passphrase={pw!r}: {type(e).__name__} {e}')], 'export-raises'
    if not pw:
        # empty passphrase: documented as "no encryption"; the round trip must still hold
        lab = 'empty passphrase -> plain export'
        if ps.calls:
            lab = 'empty passphrase -> salt drawn'
    else:
        lab = 'encrypted'
        if ps.calls != [8]:
            V.append(('encrypted export does not draw exactly one 8-byte salt from pysodium.randombytes', f'calls={ps.calls}'))
        try:
            raw = b58.b58check_decode(exported)
            p = ESK_PREFIX[curve]
            if raw[:len(p)] != p or raw[len(p):len(p) + 8] != salt or len(raw) != len(p) + 56:
                lab = 'encrypted (salt not at the documented position)'
        except ValueError:
            lab = 'encrypted (undecodable export)'
    for form in ('same', 'bytes' if isinstance(pw, str) else 'str'):
        p2 = pw
        if form == 'bytes':
            p2 = pw.encode()
        elif form == 'str':
            try:
                p2 = pw.decode('utf-8')
            except UnicodeDecodeError:
                continue
        try:
            k2 = Key.from_encoded_key(exported, passphrase=p2)
        except Exception as e:  # noqa
            V.append((f'import of an encrypted export raises [{cn}]',
                      f'secret={secret.hex()} passphrase={pw!r} (given as {form}) salt={salt.hex()} exported={exported}: {type(e).__name__} {e}'))
            continue
        if not same_key(k, k2):
            V.append((f'encrypted export/import does not yield the same key [{cn}]',
                      f'secret={secret.hex()} passphrase={pw!r} (given as {form}) salt={salt.hex()} exported={exported}'))
    # the SAME Key object is exported again under another passphrase (and another salt): the second export must open
    # with the second passphrase - nothing of the first export may be remembered
    if pw:
        pw2 = 'second passphrase' if pw != 'second passphrase' else 'third'
        try:
            with patched_salt(bytes(reversed(salt))):
                exported2 = k.secret_key(pw2)
            k3 = Key.from_encoded_key(exported2, passphrase=pw2)
            if not same_key(k, k3):
                V.append((f'second encrypted export of the same Key object does not yield the same key [{cn}]', f'{exported2}'))
        except Exception as e:  # noqa
            V.append((f'second encrypted export of the same Key object (other passphrase) cannot be imported [{cn}]',
                      f'secret={secret.hex()} first passphrase={pw!r} second={pw2!r}: {type(e).__name__} {e}'))
    return V, lab


def wrong_passphrase_outcome(curve, secret, pw):
    """observation only (the statement says nothing about a wrong passphrase)"""
    from pytezos.crypto.key import Key
    k = make_key(curve, secret)
    with patched_salt(bytes(8)):
        exported = k.secret_key(pw)
    try:
        k2 = Key.from_encoded_key(exported, passphrase=b'not the passphrase')
        return 'wrong passphrase: imports ' + ('the same key' if same_key(k, k2) else 'another key')
    except Exception as e:  # noqa
        return f'wrong passphrase: raises {type(e).__name__}'


# --------------------------------------------------------------------------------------------- mnemonics
def impl_accepts(words, as_list=False):
    """validate_mnemonic verdict: True | False (ValueError) | 'raises:<Exc>'"""
    from pytezos.crypto.key import validate_mnemonic
    try:
        validate_mnemonic(' '.join(words))
        return True
    except ValueError:
        return False
    except Exception as e:  # noqa
        return f'raises:{type(e).__name__}'


def impl_from_mnemonic(words, as_list):
    from pytezos.crypto.key import Key
    try:
        Key.from_mnemonic(list(words) if as_list else ' '.join(words), validate=True)
        return True
    except ValueError:
        return False
    except Exception as e:  # noqa
        return f'raises:{type(e).__name__}'


def check_mn(case):
    words = case['words']
    want = bip39.is_valid(words)
    got = impl_accepts(words)
    n = len(words)
    cls = (f'{n} words' if n in bip39.VALID_LENGTHS else 'invalid length')
    if any(bip39.index(w) is None for w in words):
        cls += ', unknown word'
    V = []
    if got is not want:
        if got is True:
            V.append((f'validate_mnemonic accepts a mnemonic whose BIP-39 checksum is invalid [{cls}]', ' '.join(words)))
        elif got is False:
            V.append((f'validate_mnemonic rejects a mnemonic whose BIP-39 checksum is valid [{cls}]', ' '.join(words)))
        else:
            V.append((f'validate_mnemonic {got.replace(":", " ")} [{cls}]', ' '.join(words)))
    if case.get('full'):
        for as_list in (False, True):
            g2 = impl_from_mnemonic(words, as_list)
            if g2 is not want:
                V.append((f'from_mnemonic(validate=True) disagrees with the BIP-39 checksum [{cls}, {"list" if as_list else "str"} input]',
                          f'{" ".join(words)}: accepted={g2}, checksum valid={want}'))
    return V, f'mnemonic {cls}: {"accepted" if got is True else ("rejected" if got is False else got)}'


def prefixes(n, tier):
    """entropy prefixes: the first n-1 words of valid mnemonics built from patterned entropy"""
    ent = (n * 11 - n // 3) // 8
    fills = [bytes(ent), bytes((i * 37 + 11) % 256 for i in range(ent))]
    if tier != 'quick':
        fills += [b'\xff' * ent, bytes((255 - i * 5) % 256 for i in range(ent))]
    return [bip39.from_entropy(f) for f in fills]


# --------------------------------------------------------------------------------------------- derivation
def derive(words, passphrase, email, curve, as_list, validate=True):
    from pytezos.crypto.key import Key
    try:
        k = Key.from_mnemonic(list(words) if as_list else ' '.join(words), passphrase=passphrase, email=email,
                              validate=validate, curve=curve.encode())
        return ('key', k.curve.decode(), bytes(k.secret_exponent).hex(), bytes(k.public_point).hex())
    except Exception as e:  # noqa
        return ('raises', type(e).__name__)


def check_derive(case):
    words, pw, email, curve = case['words'], case['passphrase'], case['email'], case['curve']
    a = derive(words, pw, email, curve, False)
    b = derive(words, pw, email, curve, False)
    c = derive(words, pw, email, curve, True)
    V = []
    if a != b or a != c:
        V.append((f'from_mnemonic is not deterministic [{CNAME[curve]}]', f'{case}: {a} / {b} / list input {c}'))
    lab = f'derive {curve}: {a[0]}' + (f' {a[1]}' if a[0] == 'raises' else '')
    if curve == 'ed' and bip39.is_valid(words):
        seed = bip39.to_seed(' '.join(words), email + pw)[:32]
        pub = sigref.public_from_secret('ed', seed)
        if a[0] != 'key' or a[3] != pub.hex():
            V.append(('ed25519 key derived from a mnemonic differs from PBKDF2-HMAC-SHA512(mnemonic, "mnemonic"+email+passphrase)[:32]',
                      f'{case}: {a} expected public key {pub.hex()}'))
    return V, lab


def derive_mnemonics(tier):
    ms = [bip39.from_entropy(bytes(16)), bip39.from_entropy(bytes((i * 37 + 11) % 256 for i in range(20))),
          bip39.from_entropy(b'\xff' * 32)]
    if tier != 'quick':
        ms += [bip39.from_entropy(b'\x7f' * 24), bip39.from_entropy(bytes(range(28)))]
    return ms


# --------------------------------------------------------------------------------------------- enumeration
def shards(tier, seed):
    sh = []
    # mnemonic shards first (the longest)
    for n in bip39.VALID_LENGTHS:
        for pi, _ in enumerate(prefixes(n, tier)):
            sh.append(('mn-last', n, pi))
        if tier != 'quick':
            for pos in range(n - 1):
                sh.append(('mn-pos', n, pos))
    sh.append(('mn-misc',))
    for curve in CURVES:
        for si, _ in enumerate(secrets(curve)):
            sh.append(('enc', curve, si))
    for curve in CURVES:
        sh.append(('key', curve))
        sh.append(('derive', curve))
    return sh


def run_shard(spec, tier):
    r = Result()
    kind = spec[0]
    last = None

    def record(case, vs, lab, nt=None):
        nonlocal last
        r.ev()
        r.out(lab + (' VIOLATION' if vs else ''))
        if nt is not None:
            r.nt(nt)
        for d, detail in vs:
            r.viol(d, case, detail)
        if last is None:
            r.sample(case)
        last = case

    if kind == 'key':
        curve = spec[1]
        for s in secrets(curve):
            case = {'kind': 'key', 'curve': curve, 'secret': s}
            vs = check_key(case)
            record(case, vs, f'key {curve}: ' + ('consistent' if not vs else 'inconsistent'), ('key', curve, s))
    elif kind == 'enc':
        curve, si = spec[1], spec[2]
        s = secrets(curve)[si]
        for pw in passphrases(tier):
            seen = set()
            for salt in salts(tier):
                case = {'kind': 'enc', 'curve': curve, 'secret': s, 'passphrase': pw, 'salt': salt}
                vs, lab = check_enc(case)
                record(case, vs, f'enc {curve}: {lab}', ('enc', curve, s, repr(pw), salt) if pw else None)
                if pw:
                    with patched_salt(salt):
                        seen.add(make_key(curve, s).secret_key(pw))
            if pw and len(seen) != len(salts(tier)):
                r.viol('encrypted exports under different salts coincide', {'kind': 'enc', 'curve': curve, 'secret': s, 'passphrase': pw,
                                                                             'salt': salts(tier)[0]}, f'{len(seen)} distinct exports for {len(salts(tier))} salts')
            if pw and si == 0:
                r.out(f'enc {curve}: ' + wrong_passphrase_outcome(curve, s, pw))
                r.no_verdict += 1
    elif kind == 'mn-last' or kind == 'mn-pos':
        n = spec[1]
        words = bip39.wordlist()
        if kind == 'mn-last':
            base = prefixes(n, tier)[spec[2]]
            pos = n - 1
        else:
            base = prefixes(n, tier)[1]
            pos = spec[2]
        accepted = 0
        valid = 0
        for wi, w in enumerate(words):
            cand = base[:pos] + [w] + base[pos + 1:]
            case = {'kind': 'mn', 'words': cand, 'full': wi % 97 == 0 or bip39.is_valid(cand) and kind == 'mn-last'}
            vs, lab = check_mn(case)
            accepted += lab.endswith('accepted')
            valid += bip39.is_valid(cand)
            record(case, vs, lab, ('mn', tuple(cand)))
        if kind == 'mn-last':
            if valid != bip39.valid_last_words(base[:-1]):
                raise AssertionError('reference miscounts valid last words')
            r.extra[f'accepted_last_words_of_2048_for_{n}_words'] += accepted
            r.extra[f'valid_last_words_of_2048_for_{n}_words'] += valid
    elif kind == 'mn-misc':
        v12 = bip39.from_entropy(bytes((i * 37 + 11) % 256 for i in range(16)))
        v24 = bip39.from_entropy(bytes((i * 37 + 11) % 256 for i in range(32)))
        for ln in range(0, 27):
            for src in (v24 + v12[:3], ['abandon'] * 27, ['zoo'] * 27):
                cand = src[:ln]
                case = {'kind': 'mn', 'words': cand, 'full': True}
                vs, lab = check_mn(case)
                record(case, vs, lab, ('mn', tuple(cand)) if ln in bip39.VALID_LENGTHS else None)
        for base in (v12, v24):
            for pos in range(len(base)):
                for bad in ('abandonn', 'Abandon', '', 'zzz'):
                    cand = base[:pos] + [bad] + base[pos + 1:]
                    case = {'kind': 'mn', 'words': cand, 'full': pos in (0, len(base) - 1)}
                    vs, lab = check_mn(case)
                    if bad == 'Abandon' or bad == '':
                        # case folding / empty words (double spaces): normalisation is not pinned by the statement
                        r.ev()
                        r.no_verdict += 1
                        r.out(lab + ' (no verdict)')
                        continue
                    record(case, vs, lab)
    elif kind == 'derive':
        curve = spec[1]
        pws = ['', 'pw', 'päss'] + ([] if tier == 'quick' else ['x' * 64])
        emails = ['', 'a@b.c'] + ([] if tier == 'quick' else ['ü@example.org'])
        for words in derive_mnemonics(tier):
            for pw in pws:
                for email in emails:
                    case = {'kind': 'derive', 'words': words, 'passphrase': pw, 'email': email, 'curve': curve}
                    vs, lab = check_derive(case)
                    record(case, vs, lab, ('derive', tuple(words), pw, email, curve))
        # validate=False derives from any text, deterministically
        bad = ['abandon'] * 12
        x, y = derive(bad, '', '', curve, False, validate=False), derive(bad, '', '', curve, False, validate=False)
        case = {'kind': 'derive-novalidate', 'curve': curve}
        record(case, [] if x == y else [(f'from_mnemonic(validate=False) is not deterministic [{CNAME[curve]}]', f'{x} / {y}')],
               f'derive {curve} validate=False: {x[0]}')
    else:
        raise ValueError(kind)
    if last is not None:
        r.sample(last)
    return r


def replay(case):
    k = case['kind']
    if k == 'key':
        return check_key(case)
    if k == 'enc':
        return check_enc(case)[0]
    if k == 'mn':
        return check_mn(case)[0]
    if k == 'derive':
        return check_derive(case)[0]
    if k == 'derive-novalidate':
        bad = ['abandon'] * 12
        x, y = derive(bad, '', '', case['curve'], False, validate=False), derive(bad, '', '', case['curve'], False, validate=False)
        return [] if x == y else [('from_mnemonic(validate=False) is not deterministic', f'{x} / {y}')]
    raise ValueError(k)


def observe(case):
    k = case['kind']
    if k == 'key':
        key = make_key(case['curve'], case['secret'])
        return [key.public_key(), key.public_key_hash(), key.secret_key()]
    if k == 'enc':
        with patched_salt(case['salt']):
            return make_key(case['curve'], case['secret']).secret_key(case['passphrase'])
    if k == 'mn':
        return impl_accepts(case['words'])
    if k == 'derive':
        return derive(case['words'], case['passphrase'], case['email'], case['curve'], False)
    return derive(['abandon'] * 12, '', '', case['curve'], False, validate=False)
