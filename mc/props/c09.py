"""C09 — Base58Check typed encodings are unambiguous and invertible.

Exhaustive exploration of pytezos/crypto/encoding.py (`base58_encodings`, `base58_encode`, `base58_decode`, the
`is_*` validators) against the independent reference `mc/ref/base58.py` (own base58, double SHA-256, own table of
the 43 documented kinds, typed decoder that looks the kind up by BINARY prefix and payload length).

 table   every registered row: (a) boundary argument — base58 of a fixed-width number is monotone, so "string has
         prefix p and length n" is an interval; the two numeric extremes  bin || 00.. || 00000000  and
         bin || ff.. || ffffffff  of the row are rendered with the reference base58 and must both have the
         registered prefix and length, which settles ALL 2^(8n) payloads of the kind; (b) the row is compared with
         the documented row that has the same binary prefix; (c) every pair of rows is tested for ambiguity (same
         string length and nested string prefixes, or same byte length and nested binary prefixes).
 sweep   the real base58_encode / base58_decode over every payload (of the documented length) whose first two bytes
         take all 65 536 values (quick: first byte, second in {00,ff}) with fill 00.. and ff..: string equals the
         reference encoding, has the documented prefix and length, decode(encode(p)) == p.
 mut     for 4 (quick: 2) payloads per kind: every single-character substitution over the 58-letter alphabet plus
         {0,O,I,l,space} at every position, every truncation, every one-character extension (front and back), the
         payload one byte shorter / longer with a valid checksum, and re-prefixed strings with a valid checksum built
         from the neighbouring binary prefixes (every prefix byte +-1, and all 256 values of the last prefix byte).
         Oracle = the reference typed decoder (it computes the checksum itself, so a mutant that happens to be valid
         is expected to be accepted): base58_decode returns a payload  <=>  the reference accepts, with equal
         payload.  The validators are judged on the same strings: is_X(s) <=> the reference accepts s as one of X's kinds.
"""
from __future__ import annotations

from mc.engine.report import Result
from mc.ref import base58 as B

ID = 'C09'
LEVEL = 'exploration'
RULE = ('table: one evaluation per registered row (boundary points + comparison with the documented row) and per pair of '
        'rows; sweep: one evaluation per payload; mut: one evaluation per (string, decoder) and per (string, validator).  '
        'distinct_nontrivial = distinct strings on which the reference decoder and a prefix/length-only decoder could '
        'disagree or that exercise a rejection rule: every mutant string (each differs from a valid encoding in exactly '
        'one character / one prefix byte / one payload byte), counted by string; plain valid encodings are trivial')
BOUND = {
    'quick': '43 rows + 903 pairs; sweep first byte 0..255 x second byte {00,ff} x fill {00,ff}; mutants of 2 payloads per kind',
    'thorough': '43 rows + 903 pairs; sweep all 65536 first-two-byte values x fill {00,ff}; mutants of 4 payloads per kind',
}
ASSUMPTIONS = [
    'mc/ref/base58.py KINDS is the documented table (selftest: every row self-consistent by the boundary argument, '
    'unambiguous, and all base58 literals of tests/unit_tests/test_crypto/test_encoding.py decode to the kind they name)',
    'a registered string prefix that is a proper prefix of the documented one (spsig for spsig1) claims less, not '
    'something wrong: recorded as an outcome, not a violation',
    'is_public_key lists secret-key prefixes (edsk, spsk, p2sk, BLsk) in its own code although its docstring says '
    '"public key": strings of those kinds get no verdict from is_public_key',
]
LEVEL_TEXT = ('the prefix/length guarantee is decided for ALL payloads of every kind by the monotonicity argument on two '
              'boundary points per kind (computed with an independent base58) and re-observed on the real encoder for '
              'every value of the two leading payload bytes; rejection is decided for every single-character corruption '
              'of the chosen valid strings and for every neighbouring binary prefix, by an independent decoder.  '
              'Corruptions of more than one character are not covered.')

ALPHABET = B.ALPHABET
BAD_CHARS = '0OIl '

VALIDATORS = {
    # name: (kinds for which True is required, kinds that get no verdict)
    'is_pkh': ({'tz1', 'tz2', 'tz3', 'tz4'}, set()),
    'is_l2_pkh': ({'txr1'}, set()),
    'is_sig': ({'edsig', 'spsig1', 'p2sig', 'BLsig', 'sig'}, set()),
    'is_bh': ({'B'}, set()),
    'is_ogh': ({'o'}, set()),
    'is_kt': ({'KT1'}, set()),
    'is_sr': ({'sr1'}, set()),
    'is_public_key': ({'edpk', 'sppk', 'p2pk', 'BLpk'}, {'edsk', 'spsk', 'p2sk', 'BLsk'}),
    'is_chain_id': ({'Net'}, set()),
    'is_address': ({'tz1', 'tz2', 'tz3', 'tz4', 'KT1', 'sr1'}, set()),
    'is_txr_address': ({'txr1'}, set()),
}


def impl_rows():
    from pytezos.crypto.encoding import base58_encodings
    return [(r[0].decode(), r[1], bytes(r[2]), r[3], r[4]) for r in base58_encodings]


def ref_row_for(bin_prefix):
    hits = [k for k in B.KINDS if k[2] == bin_prefix]
    return hits[0] if len(hits) == 1 else None


def payloads(n, tier):
    ps = [b'\x00' * n, b'\xff' * n]
    if tier != 'quick':
        ps += [bytes((i + 1) & 0xFF for i in range(n)), bytes((0xA5 ^ (i * 37)) & 0xFF for i in range(n))]
    return ps


# ----------------------------------------------------------------------------------------------- table
def check_row(row):
    """Boundary argument + comparison with the documented row.  Returns (label, [(descriptor, detail)], no_verdict?)."""
    sp, sl, bp, pl, what = row
    out = []
    if not bp or bp[0] == 0:
        return 'row|binary prefix starts with 00: monotonicity argument not applicable', [], True
    lo, hi = B.extremes(bp, pl)
    consistent = len(lo) == sl and len(hi) == sl and lo.startswith(sp) and hi.startswith(sp)
    if not consistent:
        out.append(('registered row is not self-consistent: payloads of the registered length do not all encode to the '
                    'registered string prefix and length',
                    f'row {sp!r} len {sl} bin {bp.hex()} payload {pl}: smallest -> {lo[:12]}.. ({len(lo)} chars), '
                    f'largest -> {hi[:12]}.. ({len(hi)} chars), common prefix {B.common_prefix(lo, hi)!r}'))
    ref = ref_row_for(bp)
    if ref is None:
        return 'row|binary prefix unknown to the reference table', out, not out
    label = 'row|equals the documented row'
    if (sl, pl) != (ref[1], ref[3]) or not ref[0].startswith(sp):
        out.append(('registered row differs from the documented kind (string prefix / string length / payload length)',
                    f'registered ({sp!r}, {sl}, {bp.hex()}, {pl}) vs documented ({ref[0]!r}, {ref[1]}, {ref[2].hex()}, {ref[3]}) {ref[4]}'))
        label = 'row|DIFFERS from the documented row'
    elif sp != ref[0]:
        label = 'row|registered string prefix is a proper prefix of the documented one'
    if not consistent:
        label = 'row|NOT self-consistent'
    return label, out, False


def check_pair(a, b):
    out = []
    if a[1] == b[1] and (a[0].startswith(b[0]) or b[0].startswith(a[0])):
        # a string could match both rows by prefix+length; harmless only if the binary prefixes tell them apart
        # AND the decoder looks at them: judged dynamically by the mutant shards; statically it is an ambiguity
        out.append(('two registered rows match the same strings (same length, nested string prefixes)',
                    f'{a[:4]} / {b[:4]}'))
    if len(a[2]) + a[3] == len(b[2]) + b[3] and (a[2].startswith(b[2]) or b[2].startswith(a[2])):
        out.append(('two registered rows share binary encodings (same byte length, nested binary prefixes)',
                    f'{a[:4]} / {b[:4]}'))
    return out


# ----------------------------------------------------------------------------------------------- sweep
def check_payload(row, payload):
    """Real encoder/decoder on one payload of the documented kind."""
    from pytezos.crypto.encoding import base58_decode, base58_encode
    sp, sl, bp, pl, what = row
    ref = ref_row_for(bp) or row
    try:
        s = base58_encode(payload, sp.encode()).decode()
    except Exception as ex:
        return 'encode RAISES', [('base58_encode raises on a payload of the documented length',
                                  f'kind {ref[0]} ({ref[4]}), {len(payload)}-byte payload {payload.hex()[:24]}..: {type(ex).__name__}: {ex}')]
    out = []
    exp = B.b58check_encode(bp, payload)
    if s != exp:
        out.append(('base58_encode differs from the reference Base58Check string', f'{payload.hex()[:24]}..: {s} vs {exp}'))
    if not s.startswith(ref[0]) or len(s) != ref[1]:
        out.append(('encoded string does not have the documented prefix and length',
                    f'kind {ref[0]}({ref[1]}): {payload.hex()[:24]}.. -> {s} ({len(s)} chars)'))
    try:
        back = base58_decode(s.encode())
        if back != payload:
            out.append(('base58_decode(base58_encode(p)) returns another payload', f'{s}: {back.hex()} vs {payload.hex()}'))
    except Exception as ex:
        out.append(('base58_decode raises on the output of base58_encode', f'kind {ref[0]}: {s}: {type(ex).__name__}: {ex}'))
    return ('round trip ok' if not out else 'round trip FAILS'), out


# ----------------------------------------------------------------------------------------------- mutants
def ref_decode(s):
    """('ok', row, payload) | ('rej', reason)"""
    try:
        row, payload = B.decode_any(s)
        return 'ok', row, payload
    except ValueError as e:
        msg = str(e)
        reason = 'bad character' if 'char' in msg else 'bad checksum' if 'checksum' in msg else 'unknown binary prefix or wrong length'
        return 'rej', reason, None


REJECT_DESCRIPTOR = {
    'bad character': 'base58_decode accepts a string with a character outside the base58 alphabet',
    'bad checksum': 'base58_decode accepts a string with a wrong checksum',
    'unknown binary prefix or wrong length': 'base58_decode accepts a string whose binary prefix / payload length is not a registered kind',
}


def judge_decode(s):
    from pytezos.crypto.encoding import base58_decode
    rv = ref_decode(s)
    try:
        got = ('ret', base58_decode(s.encode()))
    except Exception as ex:
        got = ('raise', type(ex).__name__)
    if rv[0] == 'rej':
        if got[0] == 'ret':
            return (f'ref rejects ({rv[1]})|impl RETURNS',
                    [(REJECT_DESCRIPTOR[rv[1]], f'{s!r}: reference rejects ({rv[1]}); base58_decode returned {got[1].hex()}')]), rv
        return (f'ref rejects ({rv[1]})|impl raises {got[1]}', []), rv
    if got[0] == 'raise':
        return ('ref accepts|impl RAISES', [('base58_decode rejects a valid string of a registered kind',
                                            f'{s!r} is a valid {rv[1][0]} ({rv[1][4]}); base58_decode raised {got[1]}')]), rv
    if got[1] != rv[2]:
        return ('ref accepts|impl returns ANOTHER payload', [('base58_decode returns a wrong payload for a valid string',
                                                             f'{s!r}: {got[1].hex()} vs {rv[2].hex()}')]), rv
    return ('ref accepts|impl returns the payload', []), rv


def judge_validators(s, rv):
    """Yield (label, [(descriptor, detail)] | None=no verdict) per validator."""
    import pytezos.crypto.encoding as E
    kind = rv[1][0] if rv[0] == 'ok' else None
    for name, (want, nov) in VALIDATORS.items():
        try:
            got = getattr(E, name)(s)
        except Exception as ex:
            yield f'{name} RAISES', [(f'validator raises instead of returning a bool', f'{name}({s!r}): {type(ex).__name__}: {ex}')]
            continue
        if kind in nov:
            yield f'validator no-verdict (secret key shown to is_public_key) -> {got}', None
            continue
        exp = kind in want
        if got == exp:
            yield f'validator {"accepts its kind" if exp else "rejects"}', []
        elif got:
            d = ('validator accepts a valid string of another kind' if kind is not None
                 else 'validator accepts a string the reference decoder rejects')
            yield 'validator WRONGLY accepts', [(d, f'{name}({s!r}) is True; reference: {kind or rv[1]}')]
        else:
            yield 'validator WRONGLY rejects', [('validator rejects a valid string of its kind', f'{name}({s!r}) is False; reference kind {kind}')]


def mutant_strings(ref, payload):
    """(how, string) for one valid encoding of the documented kind `ref`."""
    sp, sl, bp, pl, what = ref
    s = B.b58check_encode(bp, payload)
    yield 'valid', s
    for i, old in enumerate(s):
        for c in ALPHABET:
            if c != old:
                yield 'subst', s[:i] + c + s[i + 1:]
        for c in BAD_CHARS:
            yield 'badchar', s[:i] + c + s[i + 1:]
    for i in range(len(s)):
        yield 'trunc', s[:i]
    for c in ALPHABET:
        yield 'ext', s + c
        yield 'ext', c + s
    # a valid encoding with something appended / prepended that a lenient decoder might strip (white space, NUL, bad characters)
    for c in tuple(BAD_CHARS) + WHITE_PADS:
        yield 'extbad', s + c
        yield 'extbad', c + s
    yield 'len', B.b58check_encode(bp, payload[:-1])
    yield 'len', B.b58check_encode(bp, payload + payload[-1:])
    seen = {bp}
    for i in range(len(bp)):
        vals = range(256) if i == len(bp) - 1 else ((bp[i] - 1) & 0xFF, (bp[i] + 1) & 0xFF)
        for v in vals:
            q = bp[:i] + bytes([v]) + bp[i + 1:]
            if q not in seen:
                seen.add(q)
                yield 'binprefix', B.b58check_encode(q, payload)
    # a valid checksum over the right bytes but computed on a different prefix split: checksum of the wrong data
    yield 'checksum', B.b58encode(bp + payload + B.checksum(payload))


WHITE_PADS = (' ', '\n', '\r\n', '\t', '  ', '\x0b', '\x0c', '\x00', '\xa0')
def foreign_prefix_strings():
    """Valid encodings of kind A whose TEXT begins with the text prefix of another kind B (a block hash that reads BLpk..., a
    public key hash-like string that reads like a longer-prefixed kind): constructed, not searched - decode B's text prefix padded
    to A's length, keep the bytes that A's binary prefix and payload occupy, re-encode with the right checksum."""
    seen = set()
    for a in B.KINDS:
        for b in B.KINDS:
            if a is b or not b[0].startswith(a[0][:1]):
                continue
            for fill in ('1', 'z', 'Q'):
                text = (b[0] + fill * a[1])[:a[1]]
                try:
                    raw = B.b58decode(text)
                except Exception:
                    continue
                raw = raw.rjust(len(a[2]) + a[3] + 4, b'\x00')
                if len(raw) != len(a[2]) + a[3] + 4 or not raw.startswith(a[2]):
                    continue
                s = B.b58check_encode(a[2], raw[len(a[2]):len(a[2]) + a[3]])
                if s.startswith(b[0]) and len(s) == a[1] and s not in seen:
                    seen.add(s)
                    yield s, f'valid {a[0]} whose text begins with the prefix of {b[0]}'


ADDRESS_PREFIXES = ('tz1', 'tz2', 'tz3', 'tz4', 'KT1', 'sr1', 'txr1')


def judge_forge_address(s, rv):
    """forge_address / forge_contract decode typed base58 on their own path: a string the reference decoder rejects (bad
    checksum, wrong length) must not be turned into bytes.  rv = reference verdict (('rej', why) = rejected)."""
    if not s.startswith(ADDRESS_PREFIXES):
        return None
    from pytezos.michelson.forge import forge_address
    try:
        got = forge_address(s)
    except Exception:
        return []
    if rv[0] == 'rej':
        return [('forge_address accepts an address string the reference decoder rejects', f'{s!r} -> {got.hex()}')]
    return []


def run_string(r: Result, s, how, with_validators=True):
    (lab, vs), rv = judge_decode(s)
    fa = judge_forge_address(s, rv)
    if fa is not None:
        r.ev()
        r.out('forge_address|' + ('ok' if not fa else 'ACCEPTS INVALID'))
        for d, detail in fa:
            r.viol(d, {'k': 'string', 's': s}, f'[{how}] {detail}')
    r.ev()
    if how != 'valid':
        r.nt(s)
    r.out(f'decode|{how}|{lab}')
    case = {'k': 'string', 's': s}
    for d, detail in vs:
        r.viol(d, case, f'[{how}] {detail}')
    if with_validators:
        for vlab, vvs in judge_validators(s, rv):
            r.ev()
            r.out(vlab)
            if vvs is None:
                r.no_verdict += 1
                continue
            for d, detail in vvs:
                r.viol(d, case, f'[{how}] {detail}')
    return case


# ----------------------------------------------------------------------------------------------- shards
def shards(tier, seed):
    n = len(impl_rows())
    out = [('table',)]
    chunks = 1 if tier == 'quick' else 8
    out += [('sweep', i, c, chunks) for i in range(n) for c in range(chunks)]
    out += [('mut', i) for i in range(n)]
    # two-step histories in ONE process: kind A, then kind B, then A again, for every ordered pair of kinds
    out += [('seq', i) for i in range(n)]
    out.append(('selfprefix',))
    out.append(('textprefix',))
    # heaviest (longest strings) first
    rows = impl_rows()
    out.sort(key=lambda s: (0 if s[0] == 'mut' else 1, -rows[s[1]][1] if len(s) > 1 else 0))
    return out


def run_shard(spec, tier):
    r = Result()
    rows = impl_rows()
    last = None
    if spec[0] == 'table':
        for i, row in enumerate(rows):
            r.ev()
            lab, vs, nov = check_row(row)
            r.out(lab)
            if nov:
                r.no_verdict += 1
            last = {'k': 'row', 'i': i}
            for d, detail in vs:
                r.viol(d, last, detail)
        for i, a in enumerate(rows):
            for j in range(i + 1, len(rows)):
                r.ev()
                vs = check_pair(a, rows[j])
                r.out('pair|distinct' if not vs else 'pair|AMBIGUOUS')
                for d, detail in vs:
                    r.viol(d, {'k': 'pair', 'i': i, 'j': j}, detail)
        if len(rows) != len(B.KINDS):
            r.notes.append(f'{len(rows)} registered rows, {len(B.KINDS)} documented rows in the reference')
    elif spec[0] == 'sweep':
        _, i, chunk, chunks = spec
        row = rows[i]
        ref = ref_row_for(row[2]) or row
        n = ref[3]
        firsts = [b for b in range(256) if b % chunks == chunk]
        seconds = (0x00, 0xFF) if tier == 'quick' else range(256)
        for b0 in firsts:
            for b1 in (seconds if n >= 2 else (None,)):
                for fill in (0x00, 0xFF):
                    head = bytes([b0]) if b1 is None else bytes([b0, b1])
                    payload = (head + bytes([fill]) * n)[:n]
                    r.ev()
                    lab, vs = check_payload(row, payload)
                    r.out(f'sweep|{lab}')
                    last = {'k': 'payload', 'i': i, 'payload': payload}
                    for d, detail in vs:
                        r.viol(d, last, detail)
                    if r.first_case is None:
                        r.sample(last)
    elif spec[0] == 'seq':
        _, i = spec
        a = rows[i]
        ra = ref_row_for(a[2]) or a
        for j, b in enumerate(rows):
            rb = ref_row_for(b[2]) or b
            for fill in (0x00, 0xFF):
                for row, ref, tag in ((a, ra, 'first'), (b, rb, 'second'), (a, ra, 'first again')):
                    payload = bytes([fill]) * ref[3]
                    r.ev()
                    lab, vs = check_payload(row, payload)
                    r.out(f'seq|{lab}')
                    last = {'k': 'payload', 'i': rows.index(row), 'payload': payload}
                    for d, detail in vs:
                        r.viol(d + ' [after another kind was encoded/decoded in the same process]', dict(last, seq=[i, j]), f'{tag} of ({a[0]}/{a[3]}, {b[0]}/{b[3]}): {detail}')
            if a[0] == b[0] and i != j:
                r.nt(('seq', i, j))
    elif spec[0] == 'selfprefix':
        # payloads that CONTAIN the binary prefix of their own kind (at the start, in the middle, at the end, twice):
        # the prefix is stripped by position, never by content
        for i, row in enumerate(rows):
            ref = ref_row_for(row[2]) or row
            n, bp = ref[3], ref[2]
            if len(bp) > n:
                continue
            for fill in (0x00, 0xFF, 0x11):
                base = bytes([fill]) * n
                cands = {bp + base[len(bp):], base[:n - len(bp)] + bp, base[:(n - len(bp)) // 2] + bp + base[(n - len(bp)) // 2 + len(bp):]}
                if 2 * len(bp) <= n:
                    cands.add(bp + base[len(bp):n - len(bp)] + bp)
                for payload in sorted(cands):
                    r.ev()
                    r.nt(('selfprefix', i, payload))
                    lab, vs = check_payload(row, payload)
                    r.out(f'selfprefix|{lab}')
                    last = {'k': 'payload', 'i': i, 'payload': payload}
                    for d, detail in vs:
                        r.viol(d + ' [payload contains the binary prefix of its kind]', last, detail)
    elif spec[0] == 'textprefix':
        for s_, how in foreign_prefix_strings():
            last = run_string(r, s_, how)
    elif spec[0] == 'mut':
        _, i = spec
        row = rows[i]
        ref = ref_row_for(row[2])
        if ref is None:
            r.no_verdict += 1
            r.out('mut|kind unknown to the reference: not judged')
            return r
        for payload in payloads(ref[3], tier):
            for how, s in mutant_strings(ref, payload):
                last = run_string(r, s, how)
                if how == 'valid' and r.first_case is None:
                    r.sample(last)
    if last is not None:
        r.sample(last)
    return r


# ----------------------------------------------------------------------------------------------- replay / observe
def replay(case):
    rows = impl_rows()
    k = case['k']
    if k == 'row':
        return check_row(rows[case['i']])[1]
    if k == 'pair':
        return check_pair(rows[case['i']], rows[case['j']])
    if k == 'payload' and case.get('seq'):
        out = []
        i, j = case['seq']
        for row in (rows[i], rows[j], rows[i]):   # the recorded two-step history, replayed in this (fresh) process
            ref = ref_row_for(row[2]) or row
            for fill in (0x00, 0xFF):
                out += check_payload(row, bytes([fill]) * ref[3])[1]
        return out
    if k == 'payload':
        return check_payload(rows[case['i']], case['payload'])[1]
    if k == 'string':
        (lab, vs), rv = judge_decode(case['s'])
        out = list(vs)
        for _, vvs in judge_validators(case['s'], rv):
            out += vvs or []
        return out
    raise ValueError(k)


def observe(case):
    import pytezos.crypto.encoding as E
    rows = impl_rows()
    k = case['k']
    if k == 'payload':
        return check_payload(rows[case['i']], case['payload'])[0]
    if k == 'string':
        s = case['s']
        try:
            d = E.base58_decode(s.encode()).hex()
        except Exception as ex:
            d = type(ex).__name__
        return [d] + [getattr(E, n)(s) for n in VALIDATORS]
    if k == 'row':
        return check_row(rows[case['i']])[0]
    return None
