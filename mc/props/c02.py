"""C02 — values produced by execution always have the statically expected type.

Same explicit-state exploration as C01 (mc.interp), different oracle: after every transition, every slot of the real
stack must carry exactly the type the reference typing rules assign to that slot (annotations stripped), and the value
must be internally consistent: every element of a list/set/map, both sides of a pair, the payload of an option/or has
exactly the class type its parent declares (recursive walk over the implementation's objects).  Whole scripts through
Interpreter.run_code check the resulting storage the same way.
"""
from __future__ import annotations

from mc import adapter as A
from mc import impl as M
from mc import interp as X
from mc.engine.report import Result
from mc.impl import P, TY
from mc.ref import meval as E
from mc.ref import mtypes as T

ID = 'C02'
LEVEL = 'model_checking'
MODE = 'C02'
RULE = ('state = concrete typed stack; transitions = every alphabet instruction instance the reference typing rules accept; after each '
        'transition every result slot is type-checked against the static type (recursive consistency walk); BFS with canonical dedup from 48 seeds')
BOUND = {'quick': 'depth 2 from every seed (full alphabet at depth 0, reduced at depth 1)', 'thorough': 'depth 3 (reduced alphabet at depth 2)'}
ASSUMPTIONS = ['static types = mc.ref.meval.typecheck (annotation-blind Michelson typing rules)',
               'the type of a value is read from type(value).as_micheline_expr() with annotations stripped']
LEVEL_TEXT = ('exhaustive over all well-typed instruction sequences up to the depth bound from seeds emphasising collections with composite '
              'keys and empty collections; decides type preservation of each instruction on small values')
NCHUNK = 4


def shards(tier, seed):
    depth = 2 if tier == 'quick' else 3
    return [('bfs', i, c, depth) for i in range(len(X.SEEDS)) for c in range(NCHUNK)]


def run_shard(spec, tier):
    r = Result()
    _, si, chunk, depth = spec
    X.explore(MODE, si, chunk, NCHUNK, depth, 1 if depth == 2 else 2, r)
    if chunk == 0:
        r.sample({'seed': si, 'history': [], 'move': P('DUP') if X.SEEDS[si] else P('UNIT'), 'mode': MODE})
    r.ev(r.transitions)
    r.nontrivial |= r.state_hashes
    return r


def replay(case):
    return X.replay_case(MODE, case)


def observe(case):
    return X.observe_case(MODE, case)
