"""C07 — signing and verification are correct for every key kind.

Bounded exhaustive exploration of the wrapper logic in Key.sign / Key.verify / CHECK_SIGNATURE (digest choice,
prefixes, generic form, curve-mismatch test, exception mapping) over a small key x message alphabet:

  base cases   every (curve, secret, message, message form in {bytes, hex text, 0x-hex text}, generic in {False, True}):
               sign succeeds, the signature has the documented form, Key.verify accepts it (with the secret key object and
               with a public-key-only object, for every message form), an INDEPENDENT implementation accepts the raw
               signature bytes (mc.ref.sigref: `cryptography` for Ed25519 / ECDSA-prehashed over Blake2b-256(message);
               the pairing equation for BLS over the message itself) under the independently derived public key, and the
               real CHECK_SIGNATURE instruction on a real stack pushes True.
  alterations  for every base case: every single-bit flip of the message (+ every other message of the alphabet, one byte
               appended / dropped), every single-bit flip of the raw signature (+ the signature relabelled with every other
               curve prefix, + degenerate r/s values), every other key of the alphabet on every curve and every single-bit
               flip of the public key bytes.  Each altered triple must be rejected by Key.verify (an exception; ValueError
               is what the docstring promises) and CHECK_SIGNATURE must push False - the same verdict.

The expected verdict of an altered triple is "reject"; for the three cheap schemes the independent verifier is
consulted on every altered triple as well and a triple it accepts gets no verdict (never observed).
"""
from __future__ import annotations

from mc.engine.report import Result
from mc.ref import base58 as b58
from mc.ref import sigref

ID = 'C07'
LEVEL = 'exploration'
RULE = ('every (curve, secret, message, form, generic) base case and, per base case, every single-bit alteration of message, '
        'signature and public key plus every other key/message of the alphabet; non-trivial = distinct altered triples '
        '(curve, secret, message, generic, alteration) that are well-formed (valid public key, signature of the right '
        'length) so that rejection has to come from the scheme itself, not from parsing')
BOUND = {
    'quick': 'keys: 5 secrets per curve {1,2,3,order-1,pattern} (BLS base cases: 3 secrets x 4 messages); messages: '
             '"", 00, 7f, ff, 03||32x00, b"test", bytes(0..255); all bit flips of message, signature and public key for '
             'ed25519/secp256k1/p256 on the base cases with messages "", 7f, 03||32x00, b"test" (both generic settings); BLS: one base case with bit 0 of every byte (and bit 7 of the outer bytes) of signature '
             'and key byte and every message bit',
    'thorough': 'same alphabets; alterations on every base case, message bit flips also for the 256-byte message; BLS: all 5x7 base cases, every bit of '
                'signature, key and message for two base cases, bits 0/7 of every byte for four more',
}
ASSUMPTIONS = [
    'the independent verifiers (`cryptography`/OpenSSL; py_ecc pairing equation for BLS) are correct - they are replayed '
    'on the Octez-produced vectors of tests/unit_tests/test_crypto/test_crypto.py by mc.selftest',
    'for BLS the independent verifier shares py_ecc with pytezos (no second BLS library is installed); it is independent '
    'of the ciphersuite wrapper only',
    'the space of all keys and messages is astronomically larger than the alphabet; the claim is exhaustive over the '
    'alphabet and guards the wrapper logic, not the primitives',
    'altered BLS triples are expected to be rejected by the statement alone (the independent verifier is not run on them)',
]
LEVEL_TEXT = ('exploration (weakest assurance in this suite): exhaustive over a tiny key/message alphabet and all single-bit '
              'alterations; decides prefix/digest/generic-form/curve-mismatch/exception-mapping logic of the wrappers')

CURVES = ['ed', 'sp', 'p2', 'BL']
PATTERN = bytes(range(1, 33))
OTHER_SIG_KINDS = ['edsig', 'spsig1', 'p2sig', 'sig']


def secrets(curve):
    if curve == 'ed':
        return [(1).to_bytes(32, 'big'), (2).to_bytes(32, 'big'), (3).to_bytes(32, 'big'), b'\xff' * 32, PATTERN]
    n = sigref.ORDER[curve]
    endian = 'little' if curve == 'BL' else 'big'
    return [v.to_bytes(32, endian) for v in (1, 2, 3, n - 1, int.from_bytes(PATTERN, 'big') % n)]


MESSAGES = [b'', b'\x00', b'\x7f', b'\xff', b'\x03' + bytes(32), b'test', bytes(range(256))]
FORMS = ['bytes', 'hex', '0xhex']


def form_of(msg: bytes, form: str):
    return msg if form == 'bytes' else (msg.hex() if form == 'hex' else '0x' + msg.hex())


# --------------------------------------------------------------------------------------------- real code
_ctx = None


def _context():
    global _ctx
    if _ctx is None:
        from pytezos.context.impl import ExecutionContext
        _ctx = ExecutionContext()
    return _ctx


def make_key(curve, secret):
    from pytezos.crypto.key import Key
    return Key.from_secret_exponent(secret, curve.encode())


def impl_verify(pk_str, sig_str, msg):
    """Key.verify verdict: 'accept' | 'reject' (ValueError) | 'reject:<Exc>' (another exception) | 'nonbool:<v>'"""
    from pytezos.crypto.key import Key
    try:
        k = Key.from_encoded_key(pk_str)
    except Exception as e:  # noqa
        return f'import-fails:{type(e).__name__}'
    try:
        res = k.verify(sig_str, msg)
    except ValueError:
        return 'reject'
    except Exception as e:  # noqa
        return f'reject:{type(e).__name__}'
    return 'accept' if res is True else f'nonbool:{res!r}'


def instr_verify(pk_str, sig_str, msg: bytes):
    """CHECK_SIGNATURE on a real stack built by real PUSHes: 'True' | 'False' | 'push-fails:<Exc>' | 'raises:<Exc>'"""
    from pytezos.michelson.instructions.base import MichelsonInstruction
    from pytezos.michelson.stack import MichelsonStack
    st = MichelsonStack()
    try:
        for ty, lit in (('bytes', {'bytes': msg.hex()}), ('signature', {'string': sig_str}), ('key', {'string': pk_str})):
            MichelsonInstruction.match({'prim': 'PUSH', 'args': [{'prim': ty}, lit]}).execute(st, [], _context())
    except Exception as e:  # noqa
        return f'push-fails:{type(e).__name__}'
    try:
        MichelsonInstruction.match({'prim': 'CHECK_SIGNATURE'}).execute(st, [], _context())
    except Exception as e:  # noqa  (instruction errors arrive wrapped in MichelsonRuntimeError: name the cause)
        return f'raises:{type(e.__cause__ or e).__name__}'
    top = st.items[0]
    if type(top).__name__ != 'BoolType' or len(st.items) != 1:
        return f'bad-stack:{type(top).__name__}/{len(st.items)}'
    return str(bool(top.value))


def decode_sig(sig_str):
    """reference decoding of a signature string -> (kind, raw) or None"""
    for kind in ('edsig', 'spsig1', 'p2sig', 'BLsig', 'sig'):
        if sig_str.startswith(kind):
            try:
                return kind, b58.dec(kind, sig_str)
            except ValueError:
                return None
    return None


def encode_sig(kind, raw):
    return b58.enc(kind, raw)


# --------------------------------------------------------------------------------------------- base case
def sign(curve, secret, msg, form, generic):
    """-> (sig_str, None) or (None, 'ExcType: message')"""
    key = make_key(curve, secret)
    try:
        return key.sign(form_of(msg, form), generic=generic), None
    except Exception as e:  # noqa
        return None, f'{type(e).__name__}: {e}'


def check_base(case):
    curve, secret, msg, form, generic = case['curve'], case['secret'], case['msg'], case['form'], case['generic']
    V = []
    cname = {'ed': 'Ed25519', 'sp': 'Secp256k1', 'p2': 'P256', 'BL': 'BLS12-381'}[curve]
    sig, err = sign(curve, secret, msg, form, generic)
    if sig is None:
        return [(f'sign(generic={generic}) raises for a {cname} key', f'secret={secret.hex()} msg={msg.hex()} form={form}: {err}')], 'sign-raises'
    dec = decode_sig(sig)
    want_kind = sigref.SIG_KIND[curve]
    if dec is None:
        return [(f'sign(generic={generic}) returns an undecodable signature [{cname}]', f'{sig}')], 'undecodable'
    kind, raw = dec
    if not generic and kind != want_kind:
        V.append((f'curve-specific signature of a {cname} key has prefix {kind}', sig))
    if generic and curve != 'BL' and kind != 'sig':
        V.append((f'generic signature of a {cname} key has prefix {kind}', sig))
    if len(raw) != sigref.SIG_LEN[curve]:
        V.append((f'signature of a {cname} key has {len(raw)} bytes', sig))
    key = make_key(curve, secret)
    pk_str = key.public_key()
    pub_ref = sigref.public_from_secret(curve, secret)
    if not sigref.verify(curve, pub_ref, msg, raw):
        V.append((f'independent {cname} verifier rejects the signature (generic={generic})',
                  f'secret={secret.hex()} msg={msg.hex()} form={form} sig={sig}'))
    forms = FORMS if curve != 'BL' else [form]          # BLS: verify in the form that was signed (cost)
    for f in forms:
        v = impl_verify(key.secret_key(), sig, form_of(msg, f))
        if v != 'accept':
            V.append((f'Key.verify does not accept the key\'s own signature [{cname}, generic={generic}]',
                      f'secret={secret.hex()} msg={msg.hex()} signed as {form}, verified as {f}: {v}'))
    if curve != 'BL' or form == 'bytes':
        v = impl_verify(pk_str, sig, msg)
        if v != 'accept':
            V.append((f'Key.verify with the public key only does not accept the signature [{cname}, generic={generic}]',
                      f'pk={pk_str} msg={msg.hex()}: {v}'))
        i = instr_verify(pk_str, sig, msg)
        if i != 'True':
            V.append((f'CHECK_SIGNATURE does not return True for a valid signature [{cname}, generic={generic}]',
                      f'pk={pk_str} sig={sig} msg={msg.hex()}: {i}'))
    return V, 'signed:' + kind


# --------------------------------------------------------------------------------------------- alterations
def alterations(curve, secret, msg, tier, raw_len, pub_len, dense):
    """All alterations of one base case as JSON-able descriptors.  `dense`: every bit (True) or bits 0 and 7 of every byte."""
    # sparse: bit 0 of every second byte, bits 0 and 7 of the first and last two bytes (the slow BLS cases of the quick tier)
    bits = lambda nbytes: [i for i in range(nbytes * 8) if dense or (i % 16 == 0) or (i % 8 in (0, 7) and (i < 16 or i >= nbytes * 8 - 16))]  # noqa
    out = []
    if len(msg) <= 33 or (tier == 'thorough' and curve != 'BL'):
        out += [['msgbit', i] for i in range(len(msg) * 8)]
    out += [['msg', m] for m in MESSAGES if m != msg and (curve != 'BL' or len(m) < 40)]
    out += [['msg', msg + b'\x00']] + ([['msg', msg[:-1]]] if msg else [])
    out += [['sigbit', i] for i in bits(raw_len)]
    out += [['relabel', k] for k in OTHER_SIG_KINDS]
    out += [['sigchar', -1], ['sigchar', -3], ['sigchar', 12], ['keychar', -1], ['keychar', 9]]
    if curve != 'BL':
        out += [['sigdeg', d] for d in ('zero', 'ones', 'r=0', 's=0', 'r=n', 's=n', 'r=n-1', 's=n-1', 'swap')]
    else:
        out += [['sigdeg', d] for d in ('zero', 'ones', 'infinity')]
    for c2 in CURVES:
        for s2 in secrets(c2):
            if (c2, s2) != (curve, secret):
                out.append(['key', c2, s2])
    out += [['keybit', i] for i in bits(pub_len)]
    return out


def apply_alt(curve, secret, msg, kind, raw, alt):
    """-> (pk_str, sig_str, msg_bytes, what, well_formed, expect) ; expect in {'reject', 'accept'}"""
    pub = sigref.public_from_secret(curve, secret)
    pk_str = b58.enc(sigref.PK_KIND[curve], pub)
    sig_str = encode_sig(kind, raw)
    a = alt[0]
    wf = True
    expect = 'reject'
    if a == 'msgbit':
        m = bytearray(msg)
        m[alt[1] // 8] ^= 1 << (alt[1] % 8)
        return pk_str, sig_str, bytes(m), 'altered message', True, expect
    if a == 'msg':
        return pk_str, sig_str, alt[1], 'altered message', True, expect
    if a == 'sigbit':
        s = bytearray(raw)
        s[alt[1] // 8] ^= 1 << (alt[1] % 8)
        return pk_str, encode_sig(kind, bytes(s)), msg, 'altered signature', True, expect
    if a == 'relabel':
        if alt[1] == kind or len(raw) != 64:
            return None
        if alt[1] in ('sig', sigref.SIG_KIND[curve]):
            return pk_str, encode_sig(alt[1], raw), msg, 'same signature in its other (generic / curve-specific) form', True, 'accept'
        return pk_str, encode_sig(alt[1], raw), msg, 'signature relabelled with another curve prefix', False, expect
    if a == 'sigdeg':
        n = sigref.ORDER.get(curve, 0)
        r_, s_ = raw[:32], raw[32:64]
        d = alt[1]
        new = {'zero': bytes(len(raw)), 'ones': b'\xff' * len(raw),
               'infinity': b'\xc0' + bytes(len(raw) - 1),
               'r=0': bytes(32) + s_, 's=0': r_ + bytes(32),
               'r=n': n.to_bytes(32, 'big') + s_ if n else None, 's=n': r_ + n.to_bytes(32, 'big') if n else None,
               'r=n-1': (n - 1).to_bytes(32, 'big') + s_ if n else None, 's=n-1': r_ + (n - 1).to_bytes(32, 'big') if n else None,
               'swap': s_ + r_}[d]
        if new is None or new == raw:
            return None
        return pk_str, encode_sig(kind, new), msg, 'degenerate signature (r or s replaced by 0 / order / all-ones)', True, expect
    if a in ('sigchar', 'keychar'):
        # one CHARACTER of the base58 text replaced: the checksum no longer matches, such a string is not a signature / key at all
        txt = sig_str if a == 'sigchar' else pk_str
        pos = alt[1] if alt[1] >= 0 else len(txt) + alt[1]
        new = txt[:pos] + ('2' if txt[pos] != '2' else '3') + txt[pos + 1:]
        what = 'signature text with one character replaced (bad checksum)' if a == 'sigchar' else 'key text with one character replaced (bad checksum)'
        return (pk_str, new, msg, what, False, expect) if a == 'sigchar' else (new, sig_str, msg, what, False, expect)
    if a == 'key':
        c2, s2 = alt[1], alt[2]
        pub2 = sigref.public_from_secret(c2, s2)
        return b58.enc(sigref.PK_KIND[c2], pub2), sig_str, msg, ('different key of the same curve' if c2 == curve else 'key of a different curve'), c2 == curve, expect
    if a == 'keybit':
        p = bytearray(pub)
        p[alt[1] // 8] ^= 1 << (alt[1] % 8)
        valid = sigref.public_valid(curve, bytes(p))
        return b58.enc(sigref.PK_KIND[curve], bytes(p)), sig_str, msg, ('altered key' if valid else 'altered key (not a valid public key)'), valid, expect
    raise ValueError(alt)


def judge_alt(curve, secret, msg, generic, alt, kind, raw):
    """-> (violations, outcome label, well_formed, no_verdict)"""
    ap = apply_alt(curve, secret, msg, kind, raw, alt)
    if ap is None:
        return [], 'n/a', False, False
    pk_str, sig_str, m, what, wf, expect = ap
    cname = {'ed': 'Ed25519', 'sp': 'Secp256k1', 'p2': 'P256', 'BL': 'BLS12-381'}[curve]
    v = impl_verify(pk_str, sig_str, m)
    i = instr_verify(pk_str, sig_str, m)
    lab = f'{curve} {what}: verify={v} CHECK_SIGNATURE={i}'
    detail = f'base secret={secret.hex()} msg={msg.hex()} generic={generic} alt={alt}: pk={pk_str} sig={sig_str} msg={m.hex()} -> verify={v} CHECK_SIGNATURE={i}'
    V = []
    invalid_key = what.endswith('(not a valid public key)')
    if expect == 'accept':
        if v != 'accept':
            V.append((f'Key.verify rejects the other (generic / curve-specific) form of a valid signature [{cname}]', detail))
        if i != 'True':
            V.append((f'CHECK_SIGNATURE does not return True for the other (generic / curve-specific) form of a valid signature [{cname}]', detail))
        return V, lab, wf, False
    # expected: reject.  Cross-check with the independent verifier where it is cheap.
    if curve != 'BL' and alt[0] not in ('key', 'relabel', 'sigchar', 'keychar') and not invalid_key:
        rawsig = decode_sig(sig_str)[1]
        pubb = b58.dec(sigref.PK_KIND[curve], pk_str)
        if sigref.verify(curve, pubb, m, rawsig):
            return [], lab + ' (independent verifier accepts: no verdict)', wf, True
    if v == 'accept' or v.startswith('nonbool'):
        V.append((f'Key.verify accepts {what} [{cname}]', detail))
    if i == 'True':
        V.append((f'CHECK_SIGNATURE returns True for {what} [{cname}]', detail))
    elif i != 'False':
        if invalid_key or i.startswith('push-fails'):
            return V, lab, wf, True       # Tezos would not admit this key literal at all: no verdict on crash-vs-False
        V.append((f'CHECK_SIGNATURE {i.replace(":", " ")} instead of returning False for {what} [{cname}]', detail))
    return V, lab, wf, False


# --------------------------------------------------------------------------------------------- enumeration
def base_pairs(curve, tier):
    ss = secrets(curve)
    if curve == 'BL' and tier == 'quick':
        return [(s, m) for s in (ss[0], ss[3], ss[4]) for m in (MESSAGES[0], MESSAGES[2], MESSAGES[4], MESSAGES[5])]
    return [(s, m) for s in ss for m in MESSAGES]


def alt_bases(curve, tier):
    """-> list of (secret, msg, generic, dense) whose alterations are enumerated"""
    ss = secrets(curve)
    if curve != 'BL':
        ms = MESSAGES if tier != 'quick' else [MESSAGES[0], MESSAGES[2], MESSAGES[4], MESSAGES[5]]
        return [(s, m, g, True) for s in ss for m in ms for g in (False, True) if tier != 'quick' or not g or m in ms[1:3]]
    if tier == 'quick':
        return [(ss[4], MESSAGES[2], False, False)]
    return [(ss[4], MESSAGES[2], False, True), (ss[3], MESSAGES[0], False, True),
            (ss[0], MESSAGES[5], False, False), (ss[1], MESSAGES[1], False, False),
            (ss[2], MESSAGES[3], False, False), (ss[4], MESSAGES[4], False, False)]


def shards(tier, seed):
    sh = []
    # expensive first
    for s, m, g, dense in alt_bases('BL', tier):
        n = len(alterations('BL', s, m, tier, 96, 48, dense))
        step = 12
        sh += [('alt', 'BL', s, m, g, dense, lo, min(n, lo + step)) for lo in range(0, n, step)]
    for s, m in base_pairs('BL', tier):
        sh.append(('base', 'BL', s, m))
    for curve in ('p2', 'sp', 'ed'):
        for s, m, g, dense in alt_bases(curve, tier):
            n = len(alterations(curve, s, m, tier, 64, 33 if curve != 'ed' else 32, dense))
            step = 700 if curve == 'p2' else 4000
            sh += [('alt', curve, s, m, g, dense, lo, min(n, lo + step)) for lo in range(0, n, step)]
        for s in secrets(curve):
            sh.append(('base', curve, s, None))
    # message family: signatures whose r or s has leading zero bytes occur about once in 128 messages; the family is long
    # enough that every key meets several of them (they are counted as the non-trivial cases of these shards)
    for curve in ('p2', 'sp', 'ed'):
        for s in secrets(curve):
            sh.append(('family', curve, s, 250 if tier == 'quick' else 3000))
    return sh


def run_shard(spec, tier):
    r = Result()
    last = None
    if spec[0] == 'base':
        _, curve, secret, m0 = spec
        msgs = [m0] if m0 is not None else MESSAGES
        for msg in msgs:
            for form in FORMS:
                for generic in (False, True):
                    case = {'kind': 'base', 'curve': curve, 'secret': secret, 'msg': msg, 'form': form, 'generic': generic}
                    r.ev()
                    vs, lab = check_base(case)
                    r.out(f'{curve} base generic={generic}: {lab}' + (' VIOLATION' if vs else ''))
                    for d, detail in vs:
                        r.viol(d, case, detail)
                    if last is None:
                        r.sample(case)
                    last = case
    elif spec[0] == 'family':
        _, curve, secret, n = spec
        for i in range(n):
            msg = b'family message %d' % i
            case = {'kind': 'base', 'curve': curve, 'secret': secret, 'msg': msg, 'form': 'bytes', 'generic': bool(i % 2)}
            r.ev()
            vs, lab = check_base(case)
            sig, _ = sign(curve, secret, msg, 'bytes', False)
            d = decode_sig(sig) if sig else None
            short = bool(d) and (d[1][0] == 0 or d[1][32] == 0)
            if short:
                r.nt((curve, secret, i))
            r.out(f'{curve} family{" (r or s with a leading zero byte)" if short else ""}: {lab}' + (' VIOLATION' if vs else ''))
            for dd, detail in vs:
                r.viol(dd, case, detail)
            last = case
    else:
        _, curve, secret, msg, generic, dense, lo, hi = spec
        sig, err = sign(curve, secret, msg, 'bytes', generic)
        if sig is None or decode_sig(sig) is None:
            # reported by the base shard; nothing to alter
            r.out(f'{curve} alterations skipped: base signature unavailable')
            r.no_verdict += hi - lo
            return r
        kind, raw = decode_sig(sig)
        alts = alterations(curve, secret, msg, tier, len(raw), len(sigref.public_from_secret(curve, secret)), dense)[lo:hi]
        # the genuine triple is checked in THIS process before and after its alterations: a verdict must depend on
        # (key, signature, message) only, never on what was verified earlier in the session
        pk_str = make_key(curve, secret).public_key()
        cname = {'ed': 'Ed25519', 'sp': 'Secp256k1', 'p2': 'P256', 'BL': 'BLS12-381'}[curve]
        gcase = {'kind': 'alt', 'curve': curve, 'secret': secret, 'msg': msg, 'generic': generic, 'alt': ['genuine-first']}
        g1 = (impl_verify(pk_str, sig, msg), instr_verify(pk_str, sig, msg))
        r.ev()
        if g1 != ('accept', 'True'):
            r.viol(f'genuine signature not accepted at the start of a session [{cname}]', gcase, f'verify/CHECK_SIGNATURE={g1}')
        for alt in alts:
            case = {'kind': 'alt', 'curve': curve, 'secret': secret, 'msg': msg, 'generic': generic, 'alt': alt}
            vs, lab, wf, nv = judge_alt(curve, secret, msg, generic, alt, kind, raw)
            if lab == 'n/a':      # the alteration does not change this base case (e.g. relabelling to its own prefix)
                continue
            r.ev()
            r.out(lab + (' VIOLATION' if vs else ''))
            if nv:
                r.no_verdict += 1
            if wf:
                r.nt((curve, secret, msg, generic, repr(alt)))
            for d, detail in vs:
                r.viol(d, case, detail)
            if last is None and lo == 0:
                r.sample(case)
            last = case
        g2 = (impl_verify(pk_str, sig, msg), instr_verify(pk_str, sig, msg))
        r.ev()
        r.out(f'{curve} genuine triple before/after its alterations: {g1[1]}/{g2[1]}')
        if g2 != ('accept', 'True'):
            r.viol(f'genuine signature rejected after altered triples were checked in the same session [{cname}]',
                   dict(gcase, alt=['genuine-last']), f'first {g1}, after {len(alts)} alterations {g2}')
    if last is not None:
        r.sample(last)
    return r


def replay(case):
    if case['kind'] == 'base':
        return check_base(case)[0]
    sig, err = sign(case['curve'], case['secret'], case['msg'], 'bytes', case['generic'])
    if sig is None:
        return [(f'sign(generic={case["generic"]}) raises', err)]
    kind, raw = decode_sig(sig)
    if case['alt'][0].startswith('genuine'):
        pk_str = make_key(case['curve'], case['secret']).public_key()
        first = (impl_verify(pk_str, sig, case['msg']), instr_verify(pk_str, sig, case['msg']))
        other = instr_verify(pk_str, sig, case['msg'] + b'\x01')
        again = (impl_verify(pk_str, sig, case['msg']), instr_verify(pk_str, sig, case['msg']))
        bad = [x for x in (first, again) if x != ('accept', 'True')] + ([other] if other == 'True' else [])
        return [('verdict depends on what was verified earlier in the session', f'{first} {other} {again}')] if bad else []
    return judge_alt(case['curve'], case['secret'], case['msg'], case['generic'], case['alt'], kind, raw)[0]


def observe(case):
    if case['kind'] == 'base':
        sig, err = sign(case['curve'], case['secret'], case['msg'], case['form'], case['generic'])
        return [sig, err]
    sig, err = sign(case['curve'], case['secret'], case['msg'], 'bytes', case['generic'])
    if sig is None:
        return [None, err]
    kind, raw = decode_sig(sig)
    if case['alt'][0].startswith('genuine'):
        return sig
    return judge_alt(case['curve'], case['secret'], case['msg'], case['generic'], case['alt'], kind, raw)[1]
