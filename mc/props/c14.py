"""C14 — sets and maps behave like sorted dictionaries under any update history.

Explicit-state model checking: for each comparable key type the COMPLETE reachable state space of a set / a map over a
small key universe (2^|K| sets, 3^|K| maps with values {0,1}) is closed under every operation of the alphabet.  Every
transition runs the real instruction classes on a real stack next to the reference evaluator (mc.ref.meval, sorted
tuples ordered by the reference total order); results and observations (MEM, GET, SIZE, ITER order, MAP) must coincide,
which implies every reachable collection is strictly sorted and duplicate-free.  Literals PUSH (set|map) {...} for
every key sequence of length <= 3 (with repetition) must be accepted iff strictly sorted.
"""
from __future__ import annotations

import itertools
from collections import deque

from mc import adapter as A
from mc import impl as M
from mc.engine.report import Result
from mc.ref import meval as E
from mc.ref import mtypes as T
from mc.impl import I, P, PUSH, TY

ID = 'C14'
LEVEL = 'model_checking'
RULE = ('state = contents of one set / one map; transitions = UPDATE, GET_AND_UPDATE, GET, MEM, SIZE, ITER{CONS}, MAP{..} with every key of '
        'the universe and every value; closure of the reachable space (no depth bound); plus every literal of <=3 keys; key universes include '
        'composite keys (option / or / pair, nested up to 3 levels) whose deciding component is a falsy Python object next to None / the other branch; '
        'non-trivial = (collection type, state with >=2 entries, operation) or one literal key sequence')
BOUND = {'quick': '7 plain key types + 12 composite key types with empty / False / 0 / Unit / None payloads (option string|bytes|bool|nat|unit, option (option string), '
                  'or string bytes, or bool (option bool), pair string bytes, pair (option bool) int, pair (pair nat (option bytes)) nat, pair int (or (option string) unit)), '
                  '|K|<=4: all 2^|K| sets and 3^|K| maps (nat values {0,1}) per type, plus maps with string / bool values (falsy Python objects) for 3 key types; '
                  'every operation in every state; literals of <=3 keys',
         'thorough': '13 plain key types with the three value types each + the 12 composite falsy-payload key types, |K|<=4, literals of <=4 keys'}
ASSUMPTIONS = ['the reference order of mc.ref.mtypes (validated by C03 against the statement\'s rules)']
LEVEL_TEXT = ('the reachable state space per key type is finite and is explored completely with every operation applied in every state; '
              'assurance is exhaustive for the key universes, which are chosen so that naive orders disagree with the Tezos order')

INT, NAT, STRING = E.INT, E.NAT, E.STRING
PII = ('pair', INT, INT)
KEYS = {
    INT: [0, -1, 10, 2],
    STRING: ['a', 'B', 'ab', ''],
    PII: [(1, 5), (2, 3), (1, -5), (10, 0)],
    ('option', INT): [None, ('Some', 0), ('Some', -1), ('Some', 5)],
    ('or', INT, NAT): [('R', 7), ('L', 5), ('R', 0), ('L', -1)],
    ('address',): [('tz1', T.HF, ''), ('KT1', T.H0, ''), ('tz2', T.H0, ''), ('KT1', T.H0, 'a')],
    ('bytes',): [b'\x00', b'', b'\xff', b'\x00\x01'],
    NAT: [0, 10, 2, 9],
    ('bool',): [True, False],
    ('mutez',): [5, 0, 2**62, 10],
    ('timestamp',): [0, -5, 100, 10],
    ('key_hash',): [('tz2', T.H0), ('tz1', T.HF), ('tz4', T.H1), ('tz3', T.H0)],
    ('pair', PII, STRING): [((1, 5), 'a'), ((2, 3), ''), ((1, 5), 'B'), ((1, -5), 'z')],
}
QUICK_TYPES = [INT, STRING, PII, ('option', INT), ('or', INT, NAT), ('address',), ('bytes',)]

# Composite keys whose decisive component is a FALSY Python object ('' / b'' / False / 0 / Unit / None) sitting next to the "absent"
# alternative of the wrapper (None of an option, the other branch of an or), at depth 1, 2 and 3: an order that tests truthiness
# instead of presence confuses them.  The universes list the wrapper's smallest value first and second so that both insertion orders
# (falsy payload into a collection holding None, and None into one holding the falsy payload) are reachable transitions.
BYTES, BOOL, UNIT = ('bytes',), ('bool',), ('unit',)
FALSY_KEYS = {
    ('option', STRING): [None, ('Some', ''), ('Some', 'a'), ('Some', 'B')],
    ('option', BYTES): [('Some', b''), None, ('Some', b'\x00'), ('Some', b'\xff')],
    ('option', BOOL): [None, ('Some', False), ('Some', True)],
    ('option', NAT): [('Some', 0), None, ('Some', 2), ('Some', 10)],
    ('option', UNIT): [None, ('Some', ())],
    ('option', ('option', STRING)): [('Some', None), None, ('Some', ('Some', '')), ('Some', ('Some', 'a'))],
    ('or', STRING, BYTES): [('R', b''), ('L', ''), ('L', 'a'), ('R', b'\x00')],
    ('or', BOOL, ('option', BOOL)): [('R', None), ('L', False), ('R', ('Some', False)), ('L', True)],
    ('pair', STRING, BYTES): [('', b'\x00'), ('', b''), ('a', b''), ('B', b'')],
    ('pair', ('option', BOOL), INT): [(('Some', False), -1), (None, 0), (('Some', False), 0), (None, -1)],
    ('pair', ('pair', NAT, ('option', BYTES)), NAT): [((1, None), 9), ((1, ('Some', b'')), 0), ((0, ('Some', b'\x00')), 9), ((1, ('Some', b'')), 9)],
    ('pair', INT, ('or', ('option', STRING), UNIT)): [(0, ('R', ())), (0, ('L', None)), (0, ('L', ('Some', ''))), (-1, ('R', ()))],
}
KEYS.update(FALSY_KEYS)
QUICK_FALSY = list(FALSY_KEYS)   # cheap (about 1 CPU second per type): the quick tier explores all of them

# Key types whose natural PYTHON-object order (the order of the str / tuple / None objects pytezos accepts in from_python_object)
# disagrees with the Michelson order: base58 text of mixed kinds (tz1 < tz2 < KT1 but 'K' < 't'; edpk < sppk < p2pk but 'p' < 's'),
# alone and inside option / or / pair keys; the inferred branch names of an `or` ('string_0' > 'address_1' although Left < Right).
ADDRESS, KEY, TIMESTAMP = ('address',), ('key',), ('timestamp',)
_TZ1, _TZ2, _KT1 = ('tz1', T.HF, ''), ('tz2', T.H0, ''), ('KT1', T.H0, '')
PYORDER_KEYS = {
    KEY: [('p2pk', b'\x02' + b'\x01' * 32), ('edpk', b'\xff' * 32), ('sppk', b'\x02' + bytes(32)), ('edpk', bytes(32))],
    ('pair', ADDRESS, NAT): [(_KT1, 0), (_TZ1, 5), (_TZ1, 1), (_TZ2, 0)],
    ('option', ADDRESS): [('Some', _KT1), None, ('Some', _TZ1), ('Some', _TZ2)],
    ('or', STRING, ADDRESS): [('R', _KT1), ('L', 'b'), ('R', _TZ1), ('L', 'B')],
}
KEYS.update(PYORDER_KEYS)
# cheap as well; timestamp joins the quick tier because its Python objects have two presentations (int / RFC 3339 text)
QUICK_PYORDER = list(PYORDER_KEYS) + [TIMESTAMP]


VALS = {'map': (NAT, [0, 1]), 'mapS': (STRING, ['', 'a']), 'mapB': (E.BOOL, [False, True])}


def shards(tier, seed):
    types = QUICK_TYPES if tier == 'quick' else [t for t in KEYS if t not in FALSY_KEYS and t not in PYORDER_KEYS]
    n = 4
    out = [(kind, t, n) for t in types for kind in ('set', 'map')]
    # maps whose values are falsy Python objects ('' / False): "absent" must never be confused with "bound to an empty value"
    out += [(kind, t, n) for t in (types[:3] if tier == 'quick' else types) for kind in ('mapS', 'mapB')]
    # keys that are / contain falsy Python objects next to None (see FALSY_KEYS)
    out += [(kind, t, n) for t in (QUICK_FALSY if tier == 'quick' else list(FALSY_KEYS)) for kind in ('set', 'map')]
    # keys whose Python-object order is not the Michelson order (see PYORDER_KEYS); timestamp is already in the thorough list
    out += [(kind, t, n) for t in (QUICK_PYORDER if tier == 'quick' else list(PYORDER_KEYS)) for kind in ('set', 'map')]
    return out


def programs(kind, tk, K):
    """[(label, code, next_state?)]: code runs on a stack whose top is the collection."""
    out = []
    if kind != 'set':
        tv, (v0, v1) = VALS[kind]
    if kind == 'set':
        for k in K:
            for b in (True, False):
                out.append((f'UPDATE {b}', [PUSH(E.BOOL, b), PUSH(tk, k), P('UPDATE')], True))
            out.append(('MEM', [PUSH(tk, k), P('MEM')], False))
        out.append(('SIZE', [P('SIZE')], False))
        out.append(('ITER', [P('NIL', TY(tk)), P('SWAP'), P('ITER', [P('CONS')])], False))
    else:
        ot = ('option', tv)
        for k in K:
            for v in (None, ('Some', v0), ('Some', v1)):
                out.append((f'UPDATE {"None" if v is None else "Some"}', [PUSH(ot, v), PUSH(tk, k), P('UPDATE')], True))
                out.append((f'GET_AND_UPDATE {"None" if v is None else "Some"}', [PUSH(ot, v), PUSH(tk, k), P('GET_AND_UPDATE')], True))
            out.append(('GET', [PUSH(tk, k), P('GET')], False))
            out.append(('MEM', [PUSH(tk, k), P('MEM')], False))
        out.append(('SIZE', [P('SIZE')], False))
        out.append(('ITER', [P('NIL', TY(('pair', tk, tv))), P('SWAP'), P('ITER', [P('CONS')])], False))
        out.append(('MAP cdr', [P('MAP', [P('CDR')])], False))
        if tv == NAT:
            out.append(('MAP +1', [P('MAP', [P('CDR'), P('PUSH', TY(NAT), I(1)), P('ADD')])], False))
        out.append(('MAP car', [P('MAP', [P('CAR')])], False))
    return out


def step(code, slots, ctx):
    """Run code on both sides.  Returns (ref_result, impl_result, problem|None); results are lists of (type, value)."""
    ref = E.run(code, slots)
    out, stack = M.run_impl(code, slots, ctx)
    if out[0] != 'ok':
        return ref, None, f'raises {out}'
    try:
        got = A.read_stack(stack)
    except Exception as e:
        return ref, None, f'unreadable result: {type(e).__name__}: {e}'
    if got == ref:
        return ref, got, None
    # the element type of a MAP result is C02's subject (MAP over an EMPTY map keeps the input value type: known finding of C02);
    # C14 compares the contents
    if [v for _, v in got] == [v for _, v in ref] and any(isinstance(i, dict) and i.get('prim') == 'MAP' for i in code) \
            and all(v == () for t, v in ref if t[0] == 'map'):
        return ref, got, None
    return ref, got, 'differs'


def explore(kind, tk, n, r: Result, only=None):
    K = KEYS[tk][:n]
    tc = ('set', tk) if kind == 'set' else ('map', tk, VALS[kind][0])
    ctx = M.make_context()
    progs = programs(kind, tk, K)
    ts = T.t_str(tc)
    seen = {()}
    frontier = deque([((), [])])
    while frontier:
        state, hist = frontier.popleft()
        r.state((ts, state))
        for label, code, is_next in progs:
            case = {'kind': kind, 'key_type': T.t_str(tk), 'n': n, 'history': hist, 'op': label, 'code': code, 'state': T.v_to_micheline(tc, state)}
            try:
                ref, got, problem = step(code, [(tc, state)], ctx)
            except Exception as e:  # building the state from its (reference-sorted) literal failed
                r.transitions += 1
                r.out('state literal rejected')
                r.viol(f'{kind} of {T.t_str(tk)}: sorted literal rejected', case, f'{type(e).__name__}: {e}')
                continue
            r.transitions += 1
            r.traces += 1
            r.out(f'{kind} {label.split()[0]} {"ok" if not problem else "BAD"}')
            if len(state) >= 2:
                r.nt((ts, state, label, str(code)))
            if problem:
                r.viol(f'{kind} of {T.t_str(tk)}: {label.split()[0]} {"result" if is_next else "observation"} {problem if problem == "differs" else "fails"}',
                       case, f'{ts} state {state!r} op {label}: implementation {got if got is not None else problem}, reference {ref}')
            if is_next:
                nxt = ref[-1][1] if kind == 'set' else [v for t, v in ref if t == tc][0]
                if nxt not in seen:
                    seen.add(nxt)
                    frontier.append((nxt, hist + [label + ' ' + str(code[1]['args'][1])]))
    return seen


def literals(kind, tk, n, maxlen, r: Result):
    K = KEYS[tk][:n]
    tc = ('set', tk) if kind == 'set' else ('map', tk, VALS[kind][0])
    ctx = M.make_context()
    for ln in range(0, maxlen + 1):
        for seq in itertools.product(range(len(K)), repeat=ln):
            keys = [K[i] for i in seq]
            if kind == 'set':
                lit = [T.v_to_micheline(tk, k) for k in keys]
            else:
                lit = [{'prim': 'Elt', 'args': [T.v_to_micheline(tk, k), T.v_to_micheline(VALS[kind][0], VALS[kind][1][i % 2])]} for i, k in enumerate(keys)]
            code = [P('PUSH', TY(tc), lit)]
            should = T.is_strictly_sorted(tk, keys)
            out, stack = M.run_impl(code, [], ctx)
            accepted = out[0] == 'ok'
            r.ev()
            r.transitions += 1
            r.nt((T.t_str(tc), 'lit', seq))
            r.out(f'literal {"sorted" if should else "unsorted/dup"} -> {"accepted" if accepted else "rejected"}')
            case = {'kind': kind, 'key_type': T.t_str(tk), 'n': n, 'literal': lit}
            if accepted != should:
                r.viol(f'{kind} of {T.t_str(tk)}: {"unsorted or duplicate" if not should else "sorted"} literal {"accepted" if accepted else "rejected"}',
                       case, f'PUSH {T.t_str(tc)} {lit} -> {out}')
            elif accepted:
                got = A.read_stack(stack)
                exp = E.run(code, [])
                if got != exp:
                    r.viol(f'{kind} of {T.t_str(tk)}: literal read back differently', case, f'{got} vs {exp}')


def run_shard(spec, tier):
    kind, tk, n = spec
    r = Result()
    explore(kind, tk, n, r)
    literals(kind, tk, n, 3 if tier == 'quick' else 4, r)
    r.ev(r.transitions)
    r.sample({'kind': kind, 'key_type': T.t_str(tk), 'n': n, 'history': [], 'op': 'SIZE', 'code': [P('SIZE')], 'state': []})
    K = KEYS[tk][:n]
    last = T.sorted_set(tk, K) if kind == 'set' else tuple((k, VALS[kind][1][1]) for k in T.sorted_set(tk, K))
    tc = ('set', tk) if kind == 'set' else ('map', tk, VALS[kind][0])
    r.sample({'kind': kind, 'key_type': T.t_str(tk), 'n': n, 'history': ['...'], 'op': 'ITER', 'code': programs(kind, tk, K)[-1 if kind == 'set' else -4][1],
              'state': T.v_to_micheline(tc, last)})
    return r


def _tk(s):
    for t in KEYS:
        if T.t_str(t) == s:
            return t
    raise KeyError(s)


def replay(case):
    tk = _tk(case['key_type'])
    kind = case['kind']
    tc = ('set', tk) if kind == 'set' else ('map', tk, VALS[kind][0])
    r = Result()
    if 'literal' in case:
        code = [P('PUSH', TY(tc), case['literal'])]
        try:
            keys = [T.v_from_micheline(tk, x if kind == 'set' else x['args'][0]) for x in case['literal']]
            should = T.is_strictly_sorted(tk, keys)
        except T.BadValue:
            should = False
        out, _ = M.run_impl(code, [], None)
        if (out[0] == 'ok') != should:
            return [(f'{kind} literal acceptance', f'{out} should_accept={should}')]
        return []
    state = T.v_from_micheline(tc, case['state'])
    try:
        ref, got, problem = step(case['code'], [(tc, state)], M.make_context())
    except Exception as e:
        return [(f'{kind}: sorted literal rejected', repr(e))]
    return [(f'{kind} {case["op"]} {problem}', f'impl {got} ref {ref}')] if problem else []


def observe(case):
    tk = _tk(case['key_type'])
    tc = ('set', tk) if case['kind'] == 'set' else ('map', tk, VALS[case['kind']][0])
    state = T.v_from_micheline(tc, case['state'])
    out, stack = M.run_impl(case['code'], [(tc, state)], None)
    return [out, [repr(x) for x in stack.items]]
