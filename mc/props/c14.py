"""C14 — sets and maps behave like sorted dictionaries under any update history.

Explicit-state model checking: for each comparable key type the COMPLETE reachable state space of a set / a map over a
small key universe (2^|K| sets, 3^|K| maps with values {0,1}) is closed under every operation of the alphabet.  Every
transition runs the real instruction classes on a real stack next to the reference evaluator (mc.ref.meval, sorted
tuples ordered by the reference total order); results and observations (MEM, GET, SIZE, ITER order, MAP) must coincide,
which implies every reachable collection is strictly sorted and duplicate-free.  Literals PUSH (set|map) {...} for
every key sequence of length <= 3 (with repetition) must be accepted iff strictly sorted.

Construction from PYTHON objects (from_python_object on a dict / list / set: storage and parameter encoding) is a further
construction path: for every key type, every permutation of every subset of the universe (the insertion order of the dict /
list) must give the reference sorted dictionary, and MEM / GET / SIZE / ITER / MAP / UPDATE on the constructed collection
must agree with it.  Universes include keys whose Python-object order is not the Michelson order (base58 text of mixed
kinds, inferred `or` branch names, None next to text) and keys with two Python presentations (bytes / hex text, int /
RFC 3339 text), mixed in one object.  A Python object naming one key twice may be rejected or merged (no verdict) but never
yield a collection with duplicate keys.
"""
from __future__ import annotations

import itertools
from collections import deque

from mc import adapter as A
from mc import impl as M
from mc.engine.report import Result
from mc.ref import meval as E
from mc.ref import mtypes as T
from mc.impl import I, P, PUSH, TY

ID = 'C14'
LEVEL = 'model_checking'
RULE = ('state = contents of one set / one map; transitions = UPDATE, GET_AND_UPDATE, GET, MEM, SIZE, ITER{CONS}, MAP{..} with every key of '
        'the universe and every value; closure of the reachable space (no depth bound); plus every literal of <=3 keys; key universes include '
        'composite keys (option / or / pair, nested up to 3 levels) whose deciding component is a falsy Python object next to None / the other branch; '
        'construction from a Python dict / list / set in every insertion order (every permutation of every subset of the universe; for keys with a '
        'second Python presentation - hex text, RFC 3339 text - every permutation of <=3 (key, presentation) entries incl. one key given twice), '
        'followed by every operation on the constructed collection; '
        'non-trivial = (collection type, state with >=2 entries, operation) or one literal key sequence or one Python insertion history of >=2 entries')
BOUND = {'quick': '7 plain key types + 12 composite key types with empty / False / 0 / Unit / None payloads (option string|bytes|bool|nat|unit, option (option string), '
                  'or string bytes, or bool (option bool), pair string bytes, pair (option bool) int, pair (pair nat (option bytes)) nat, pair int (or (option string) unit)), '
                  '|K|<=4: all 2^|K| sets and 3^|K| maps (nat values {0,1}) per type, plus maps with string / bool values (falsy Python objects) for 3 key types; '
                  '+ 5 key types whose Python-object order differs from the Michelson order (key, pair address nat, option address, or string address, timestamp); '
                  'every operation in every state; literals of <=3 keys; per shard all 65 insertion orders of Python dicts / lists / sets over subsets of K '
                  '(+ 380 mixed-presentation histories of <=3 entries for types containing bytes / timestamp; lists naming an element twice), every operation on each result',
         'thorough': '13 plain key types with the three value types each + the 12 composite falsy-payload key types + 4 Python-order key types, |K|<=4, '
                     'literals of <=4 keys, the same Python-object insertion histories for every shard'}
ASSUMPTIONS = ['the reference order of mc.ref.mtypes (validated by C03 against the statement\'s rules)',
               'the Python presentation of a key (flat tuples for nested pairs, (inferred branch name, value) for `or`, None / payload for option) '
               'is the one pytezos documents; keys without a presentation of their own (Some None of a nested option) are skipped']
LEVEL_TEXT = ('the reachable state space per key type is finite and is explored completely with every operation applied in every state; '
              'assurance is exhaustive for the key universes, which are chosen so that naive orders disagree with the Tezos order')

INT, NAT, STRING = E.INT, E.NAT, E.STRING
PII = ('pair', INT, INT)
KEYS = {
    INT: [0, -1, 10, 2],
    STRING: ['a', 'B', 'ab', ''],
    PII: [(1, 5), (2, 3), (1, -5), (10, 0)],
    ('option', INT): [None, ('Some', 0), ('Some', -1), ('Some', 5)],
    ('or', INT, NAT): [('R', 7), ('L', 5), ('R', 0), ('L', -1)],
    ('address',): [('tz1', T.HF, ''), ('KT1', T.H0, ''), ('tz2', T.H0, ''), ('KT1', T.H0, 'a')],
    ('bytes',): [b'\x00', b'', b'\xff', b'\x00\x01'],
    NAT: [0, 10, 2, 9],
    ('bool',): [True, False],
    ('mutez',): [5, 0, 2**62, 10],
    ('timestamp',): [0, -5, 100, 10],
    ('key_hash',): [('tz2', T.H0), ('tz1', T.HF), ('tz4', T.H1), ('tz3', T.H0)],
    ('pair', PII, STRING): [((1, 5), 'a'), ((2, 3), ''), ((1, 5), 'B'), ((1, -5), 'z')],
}
QUICK_TYPES = [INT, STRING, PII, ('option', INT), ('or', INT, NAT), ('address',), ('bytes',)]

# Composite keys whose decisive component is a FALSY Python object ('' / b'' / False / 0 / Unit / None) sitting next to the "absent"
# alternative of the wrapper (None of an option, the other branch of an or), at depth 1, 2 and 3: an order that tests truthiness
# instead of presence confuses them.  The universes list the wrapper's smallest value first and second so that both insertion orders
# (falsy payload into a collection holding None, and None into one holding the falsy payload) are reachable transitions.
BYTES, BOOL, UNIT = ('bytes',), ('bool',), ('unit',)
FALSY_KEYS = {
    ('option', STRING): [None, ('Some', ''), ('Some', 'a'), ('Some', 'B')],
    ('option', BYTES): [('Some', b''), None, ('Some', b'\x00'), ('Some', b'\xff')],
    ('option', BOOL): [None, ('Some', False), ('Some', True)],
    ('option', NAT): [('Some', 0), None, ('Some', 2), ('Some', 10)],
    ('option', UNIT): [None, ('Some', ())],
    ('option', ('option', STRING)): [('Some', None), None, ('Some', ('Some', '')), ('Some', ('Some', 'a'))],
    ('or', STRING, BYTES): [('R', b''), ('L', ''), ('L', 'a'), ('R', b'\x00')],
    ('or', BOOL, ('option', BOOL)): [('R', None), ('L', False), ('R', ('Some', False)), ('L', True)],
    ('pair', STRING, BYTES): [('', b'\x00'), ('', b''), ('a', b''), ('B', b'')],
    ('pair', ('option', BOOL), INT): [(('Some', False), -1), (None, 0), (('Some', False), 0), (None, -1)],
    ('pair', ('pair', NAT, ('option', BYTES)), NAT): [((1, None), 9), ((1, ('Some', b'')), 0), ((0, ('Some', b'\x00')), 9), ((1, ('Some', b'')), 9)],
    ('pair', INT, ('or', ('option', STRING), UNIT)): [(0, ('R', ())), (0, ('L', None)), (0, ('L', ('Some', ''))), (-1, ('R', ()))],
}
KEYS.update(FALSY_KEYS)
QUICK_FALSY = list(FALSY_KEYS)   # cheap (about 1 CPU second per type): the quick tier explores all of them

# Key types whose natural PYTHON-object order (the order of the str / tuple / None objects pytezos accepts in from_python_object)
# disagrees with the Michelson order: base58 text of mixed kinds (tz1 < tz2 < KT1 but 'K' < 't'; edpk < sppk < p2pk but 'p' < 's'),
# alone and inside option / or / pair keys; the inferred branch names of an `or` ('string_0' > 'address_1' although Left < Right).
ADDRESS, KEY, TIMESTAMP = ('address',), ('key',), ('timestamp',)
_TZ1, _TZ2, _KT1 = ('tz1', T.HF, ''), ('tz2', T.H0, ''), ('KT1', T.H0, '')
PYORDER_KEYS = {
    KEY: [('p2pk', b'\x02' + b'\x01' * 32), ('edpk', b'\xff' * 32), ('sppk', b'\x02' + bytes(32)), ('edpk', bytes(32))],
    ('pair', ADDRESS, NAT): [(_KT1, 0), (_TZ1, 5), (_TZ1, 1), (_TZ2, 0)],
    ('option', ADDRESS): [('Some', _KT1), None, ('Some', _TZ1), ('Some', _TZ2)],
    ('or', STRING, ADDRESS): [('R', _KT1), ('L', 'b'), ('R', _TZ1), ('L', 'B')],
}
KEYS.update(PYORDER_KEYS)
# cheap as well; timestamp joins the quick tier because its Python objects have two presentations (int / RFC 3339 text)
QUICK_PYORDER = list(PYORDER_KEYS) + [TIMESTAMP]


VALS = {'map': (NAT, [0, 1]), 'mapS': (STRING, ['', 'a']), 'mapB': (E.BOOL, [False, True])}


def shards(tier, seed):
    types = QUICK_TYPES if tier == 'quick' else [t for t in KEYS if t not in FALSY_KEYS and t not in PYORDER_KEYS]
    n = 4
    out = [(kind, t, n) for t in types for kind in ('set', 'map')]
    # maps whose values are falsy Python objects ('' / False): "absent" must never be confused with "bound to an empty value"
    out += [(kind, t, n) for t in (types[:3] if tier == 'quick' else types) for kind in ('mapS', 'mapB')]
    # keys that are / contain falsy Python objects next to None (see FALSY_KEYS)
    out += [(kind, t, n) for t in (QUICK_FALSY if tier == 'quick' else list(FALSY_KEYS)) for kind in ('set', 'map')]
    # keys whose Python-object order is not the Michelson order (see PYORDER_KEYS); timestamp is already in the thorough list
    out += [(kind, t, n) for t in (QUICK_PYORDER if tier == 'quick' else list(PYORDER_KEYS)) for kind in ('set', 'map')]
    return out


def programs(kind, tk, K):
    """[(label, code, next_state?)]: code runs on a stack whose top is the collection."""
    out = []
    if kind != 'set':
        tv, (v0, v1) = VALS[kind]
    if kind == 'set':
        for k in K:
            for b in (True, False):
                out.append((f'UPDATE {b}', [PUSH(E.BOOL, b), PUSH(tk, k), P('UPDATE')], True))
            out.append(('MEM', [PUSH(tk, k), P('MEM')], False))
        out.append(('SIZE', [P('SIZE')], False))
        out.append(('ITER', [P('NIL', TY(tk)), P('SWAP'), P('ITER', [P('CONS')])], False))
    else:
        ot = ('option', tv)
        for k in K:
            for v in (None, ('Some', v0), ('Some', v1)):
                out.append((f'UPDATE {"None" if v is None else "Some"}', [PUSH(ot, v), PUSH(tk, k), P('UPDATE')], True))
                out.append((f'GET_AND_UPDATE {"None" if v is None else "Some"}', [PUSH(ot, v), PUSH(tk, k), P('GET_AND_UPDATE')], True))
            out.append(('GET', [PUSH(tk, k), P('GET')], False))
            out.append(('MEM', [PUSH(tk, k), P('MEM')], False))
        out.append(('SIZE', [P('SIZE')], False))
        out.append(('ITER', [P('NIL', TY(('pair', tk, tv))), P('SWAP'), P('ITER', [P('CONS')])], False))
        out.append(('MAP cdr', [P('MAP', [P('CDR')])], False))
        if tv == NAT:
            out.append(('MAP +1', [P('MAP', [P('CDR'), P('PUSH', TY(NAT), I(1)), P('ADD')])], False))
        out.append(('MAP car', [P('MAP', [P('CAR')])], False))
    return out


def step(code, slots, ctx):
    """Run code on both sides.  Returns (ref_result, impl_result, problem|None); results are lists of (type, value)."""
    ref = E.run(code, slots)
    out, stack = M.run_impl(code, slots, ctx)
    if out[0] != 'ok':
        return ref, None, f'raises {out}'
    try:
        got = A.read_stack(stack)
    except Exception as e:
        return ref, None, f'unreadable result: {type(e).__name__}: {e}'
    if got == ref:
        return ref, got, None
    # the element type of a MAP result is C02's subject (MAP over an EMPTY map keeps the input value type: known finding of C02);
    # C14 compares the contents
    if [v for _, v in got] == [v for _, v in ref] and any(isinstance(i, dict) and i.get('prim') == 'MAP' for i in code) \
            and all(v == () for t, v in ref if t[0] == 'map'):
        return ref, got, None
    return ref, got, 'differs'


def explore(kind, tk, n, r: Result, only=None):
    K = KEYS[tk][:n]
    tc = ('set', tk) if kind == 'set' else ('map', tk, VALS[kind][0])
    ctx = M.make_context()
    progs = programs(kind, tk, K)
    ts = T.t_str(tc)
    seen = {()}
    frontier = deque([((), [])])
    while frontier:
        state, hist = frontier.popleft()
        r.state((ts, state))
        for label, code, is_next in progs:
            case = {'kind': kind, 'key_type': T.t_str(tk), 'n': n, 'history': hist, 'op': label, 'code': code, 'state': T.v_to_micheline(tc, state)}
            try:
                ref, got, problem = step(code, [(tc, state)], ctx)
            except Exception as e:  # building the state from its (reference-sorted) literal failed
                r.transitions += 1
                r.out('state literal rejected')
                r.viol(f'{kind} of {T.t_str(tk)}: sorted literal rejected', case, f'{type(e).__name__}: {e}')
                continue
            r.transitions += 1
            r.traces += 1
            r.out(f'{kind} {label.split()[0]} {"ok" if not problem else "BAD"}')
            if len(state) >= 2:
                r.nt((ts, state, label, str(code)))
            if problem:
                r.viol(f'{kind} of {T.t_str(tk)}: {label.split()[0]} {"result" if is_next else "observation"} {problem if problem == "differs" else "fails"}',
                       case, f'{ts} state {state!r} op {label}: implementation {got if got is not None else problem}, reference {ref}')
            if is_next:
                nxt = ref[-1][1] if kind == 'set' else [v for t, v in ref if t == tc][0]
                if nxt not in seen:
                    seen.add(nxt)
                    frontier.append((nxt, hist + [label + ' ' + str(code[1]['args'][1])]))
    return seen


def literals(kind, tk, n, maxlen, r: Result):
    K = KEYS[tk][:n]
    tc = ('set', tk) if kind == 'set' else ('map', tk, VALS[kind][0])
    ctx = M.make_context()
    for ln in range(0, maxlen + 1):
        for seq in itertools.product(range(len(K)), repeat=ln):
            keys = [K[i] for i in seq]
            if kind == 'set':
                lit = [T.v_to_micheline(tk, k) for k in keys]
            else:
                lit = [{'prim': 'Elt', 'args': [T.v_to_micheline(tk, k), T.v_to_micheline(VALS[kind][0], VALS[kind][1][i % 2])]} for i, k in enumerate(keys)]
            code = [P('PUSH', TY(tc), lit)]
            should = T.is_strictly_sorted(tk, keys)
            out, stack = M.run_impl(code, [], ctx)
            accepted = out[0] == 'ok'
            r.ev()
            r.transitions += 1
            r.nt((T.t_str(tc), 'lit', seq))
            r.out(f'literal {"sorted" if should else "unsorted/dup"} -> {"accepted" if accepted else "rejected"}')
            case = {'kind': kind, 'key_type': T.t_str(tk), 'n': n, 'literal': lit}
            if accepted != should:
                r.viol(f'{kind} of {T.t_str(tk)}: {"unsorted or duplicate" if not should else "sorted"} literal {"accepted" if accepted else "rejected"}',
                       case, f'PUSH {T.t_str(tc)} {lit} -> {out}')
            elif accepted:
                got = A.read_stack(stack)
                exp = E.run(code, [])
                if got != exp:
                    r.viol(f'{kind} of {T.t_str(tk)}: literal read back differently', case, f'{got} vs {exp}')


# ---------------------------------------------------------------------------------------------------------------------------------
# Construction from PYTHON objects (MichelsonType.from_python_object: storage / parameter encoding): one more construction path of
# the alphabet next to Micheline literals.  A Python dict / set has no key order of its own, so every duplicate-free object is a
# well-formed literal: the constructed collection must be the reference sorted dictionary whatever the insertion order.

class NoPyForm(Exception):
    """The key has no Python-object presentation of its own (Some None of a nested option reads as None)."""


def _rfc3339(v):
    from datetime import datetime, timedelta, timezone
    return (datetime(1970, 1, 1, tzinfo=timezone.utc) + timedelta(seconds=v)).strftime('%Y-%m-%dT%H:%M:%SZ')


def has_text_form(t) -> bool:
    return t[0] in ('bytes', 'timestamp') or any(has_text_form(a) for a in t[1:] if isinstance(a, tuple))


def py_of(t, v, form='py'):
    """Reference value -> the Python object pytezos documents for it (comparable position: `or` values are (name, value) tuples with
    the inferred branch names, nested pairs are flat tuples).  form 'text': bytes as hex text ('0x..' or upper case), timestamps as
    RFC 3339 text - a second presentation of the SAME key."""
    p = t[0]
    if p in ('int', 'nat', 'mutez', 'string', 'bool'):
        return v
    if p == 'timestamp':
        return v if form == 'py' else _rfc3339(v)
    if p == 'bytes':
        if form == 'py':
            return v
        return v.hex().upper() if v and v[0] >= 0x80 else '0x' + v.hex()
    if p == 'unit':
        from pytezos.michelson.types.core import Unit
        return Unit
    if p == 'address':
        return T.address_str(v)
    if p == 'key_hash':
        return T.key_hash_str(v)
    if p == 'key':
        return T.key_str(v)
    if p == 'option':
        if v is None:
            return None
        inner = py_of(t[1], v[1], form)
        if inner is None:
            raise NoPyForm(T.t_str(t))
        return inner
    if p == 'or':
        return (f'{t[1][0]}_0', py_of(t[1], v[1], form)) if v[0] == 'L' else (f'{t[2][0]}_1', py_of(t[2], v[1], form))
    if p == 'pair':
        out = []
        for ti, vi in ((t[1], v[0]), (t[2], v[1])):
            x = py_of(ti, vi, form)
            out += list(x) if ti[0] == 'pair' else [x]
        return tuple(out)
    raise NoPyForm(T.t_str(t))


def py_container(kind, tk, K, entries, container):
    """entries: [(key index, form)] in insertion order -> (python object, reference collection or None when two entries denote one key)."""
    pyk = [py_of(tk, K[i], f) for i, f in entries]
    idx = [i for i, _ in entries]
    dup = len(set(idx)) != len(idx)
    keys = T.sorted_set(tk, [K[i] for i in set(idx)])
    if kind == 'set':
        obj = list(pyk) if container == 'list' else set(pyk)
        return obj, dup, keys
    vals = VALS[kind][1]
    obj = {}
    for (i, _), k in zip(entries, pyk):
        obj[k] = vals[i % 2]
    return obj, dup, tuple((k, vals[K.index(k) % 2]) for k in keys)


def py_build(tc, obj):
    """-> ('ok', impl object, reference-form value) | ('rejected', None, message)"""
    try:
        o = A.mk_type(tc).from_python_object(obj)
    except RecursionError:
        raise
    except Exception as e:
        return 'rejected', None, f'{type(e).__name__}: {str(e)[:200]}'
    try:
        return 'ok', o, A.from_impl(o, tc)
    except Exception as e:
        return 'unreadable', o, f'{type(e).__name__}: {str(e)[:200]}'


def py_judge(kind, tk, tc, entries, container, K):
    """Judge ONE construction.  -> (outcome label, [(descriptor, detail)], impl object|None, expected reference collection)."""
    obj, dup, exp = py_container(kind, tk, K, entries, container)
    what = f'{kind} of {T.t_str(tk)}: built from a Python {container}'
    st, o, got = py_build(tc, obj)
    if st == 'rejected':
        if dup:
            return 'python object with two presentations of one key -> rejected', [], None, exp   # reject or merge: not pinned
        return 'python object -> REJECTED', [(f'{what} fails', f'{obj!r} -> {got}')], None, exp
    if st == 'unreadable':
        return 'python object -> UNREADABLE', [(f'{what} is unreadable', f'{obj!r} -> {got}')], None, exp
    keys = list(got) if kind == 'set' else [k for k, _ in got]
    if not T.is_strictly_sorted(tk, keys):
        srt = list(T.sorted_set(tk, keys))
        d = 'has duplicate keys' if len(srt) != len(keys) else 'is not sorted'
        return f'python object -> {d.upper()}', [(f'{what} {d}', f'{obj!r} -> {got!r}')], None, exp
    if dup:
        # merged: which of the two values survives is not pinned; the key set is
        if tuple(keys) != tuple(exp if kind == 'set' else [k for k, _ in exp]):
            return 'python object -> WRONG KEYS', [(f'{what} differs from the reference dictionary', f'{obj!r} -> {got!r}, keys expected {exp!r}')], None, exp
        return 'python object with two presentations of one key -> merged', [], None, exp
    if got != exp:
        return 'python object -> DIFFERS', [(f'{what} differs from the reference dictionary', f'{obj!r} -> {got!r}, expected {exp!r}')], None, exp
    return 'python object -> sorted dictionary', [], o, exp


def py_entries(tk, n, tier):
    """Insertion histories: every permutation of every subset of the universe in the plain presentation; for key types with a second
    presentation every permutation of <=3 (key, presentation) entries (mixed presentations, and one key given twice) plus every
    full permutation in the text presentation."""
    out = [tuple((i, 'py') for i in p) for ln in range(n + 1) for p in itertools.permutations(range(n), ln)]
    if has_text_form(tk):
        ent = [(i, f) for i in range(n) for f in ('py', 'text')]
        out += [p for ln in (1, 2, 3) for p in itertools.permutations(ent, ln) if any(f == 'text' for _, f in p)]
        out += [tuple((i, 'text') for i in p) for p in itertools.permutations(range(n), n)] if n > 3 else []
    return out


def py_ops(kind, tk, tc, K, o, exp, obj_again, progs, ctx, r: Result, case):
    """MEM / GET / SIZE / ITER / MAP / UPDATE on the collection built from the Python object agree with the reference dictionary."""
    from pytezos.michelson.stack import MichelsonStack
    for label, code, is_next in progs:
        ref = E.run(code, [(tc, exp)])
        problem = None
        for attempt in (0, 1):   # a difference is confirmed on a freshly built object (independent of in-place effects of earlier operations)
            target = o if attempt == 0 else obj_again()
            stack = MichelsonStack([target])
            out = M.run_on_stack(code, stack, ctx)
            try:
                got = A.read_stack(stack) if out[0] == 'ok' else out
            except Exception as e:
                got = f'unreadable: {type(e).__name__}: {e}'
            ok = got == ref or (isinstance(got, list) and [v for _, v in got] == [v for _, v in ref] and label.startswith('MAP') and not exp)
            if ok:
                problem = None
                break
            problem = got
        r.transitions += 1
        r.traces += 1
        r.out(f'{kind} {label.split()[0]} after python construction {"ok" if problem is None else "BAD"}')
        if problem is not None:
            r.viol(f'{kind} of {T.t_str(tk)}: {label.split()[0]} on a collection built from a Python object differs',
                   dict(case, op=label, code=code), f'implementation {problem}, reference {ref}')


def pyobjects(kind, tk, n, tier, r: Result):
    K = KEYS[tk][:n]
    tc = ('set', tk) if kind == 'set' else ('map', tk, VALS[kind][0])
    ts = T.t_str(tc)
    ctx = M.make_context()
    representable = []
    for i, k in enumerate(K):
        try:
            py_of(tk, k)
            representable.append(i)
        except NoPyForm:
            r.no_verdict += 1
            r.out('key without a Python presentation of its own (skipped)')
    progs = programs(kind, tk, K)
    for entries in py_entries(tk, len(K), tier):
        if any(i not in representable for i, _ in entries):
            continue
        for container in (('list', 'set') if kind == 'set' else ('dict',)):
            case = {'kind': kind, 'key_type': T.t_str(tk), 'n': n, 'pyobj': [list(e) for e in entries], 'container': container}
            label, problems, o, exp = py_judge(kind, tk, tc, entries, container, K)
            r.transitions += 1
            r.out(label)
            if len(entries) >= 2:
                r.nt((ts, 'py', container, entries))
            for d, detail in problems:
                r.viol(d, case, detail)
            if 'presentations of one key' in label:
                r.no_verdict += 1
            if o is not None and len(entries) >= 2 and container != 'set':
                obj = py_container(kind, tk, K, entries, container)[0]
                py_ops(kind, tk, tc, K, o, exp, lambda: A.mk_type(tc).from_python_object(obj), progs, ctx, r, case)
    if kind == 'set':
        # a Python list naming one element twice (<=3 entries): rejecting or merging is not pinned; a set holding it twice is a violation
        for ln in (2, 3):
            for seq in itertools.product(representable, repeat=ln):
                if len(set(seq)) == ln:
                    continue
                entries = tuple((i, 'py') for i in seq)
                case = {'kind': kind, 'key_type': T.t_str(tk), 'n': n, 'pyobj': [list(e) for e in entries], 'container': 'list'}
                label, problems, _, _ = py_judge(kind, tk, tc, entries, 'list', K)
                r.transitions += 1
                r.no_verdict += 0 if problems else 1
                r.out(label)
                r.nt((ts, 'py', 'list', entries))
                for d, detail in problems:
                    r.viol(d, case, detail)


def run_shard(spec, tier):
    kind, tk, n = spec
    r = Result()
    explore(kind, tk, n, r)
    literals(kind, tk, n, 3 if tier == 'quick' else 4, r)
    pyobjects(kind, tk, n, tier, r)
    r.ev(r.transitions)
    r.sample({'kind': kind, 'key_type': T.t_str(tk), 'n': n, 'history': [], 'op': 'SIZE', 'code': [P('SIZE')], 'state': []})
    K = KEYS[tk][:n]
    last = T.sorted_set(tk, K) if kind == 'set' else tuple((k, VALS[kind][1][1]) for k in T.sorted_set(tk, K))
    tc = ('set', tk) if kind == 'set' else ('map', tk, VALS[kind][0])
    r.sample({'kind': kind, 'key_type': T.t_str(tk), 'n': n, 'history': ['...'], 'op': 'ITER', 'code': programs(kind, tk, K)[-1 if kind == 'set' else -4][1],
              'state': T.v_to_micheline(tc, last)})
    return r


def _tk(s):
    for t in KEYS:
        if T.t_str(t) == s:
            return t
    raise KeyError(s)


def replay(case):
    tk = _tk(case['key_type'])
    kind = case['kind']
    tc = ('set', tk) if kind == 'set' else ('map', tk, VALS[kind][0])
    r = Result()
    if 'pyobj' in case:
        K = KEYS[tk][:case['n']]
        entries = tuple((int(i), f) for i, f in case['pyobj'])
        label, problems, o, exp = py_judge(kind, tk, tc, entries, case['container'], K)
        if o is not None and case.get('code'):
            py_ops(kind, tk, tc, K, o, exp, lambda: A.mk_type(tc).from_python_object(py_container(kind, tk, K, entries, case['container'])[0]),
                   [(case['op'], case['code'], False)], M.make_context(), r, case)
            problems = problems + [(d, v['cases'][0]['detail']) for d, v in r.violations.items()]
        return problems
    if 'literal' in case:
        code = [P('PUSH', TY(tc), case['literal'])]
        try:
            keys = [T.v_from_micheline(tk, x if kind == 'set' else x['args'][0]) for x in case['literal']]
            should = T.is_strictly_sorted(tk, keys)
        except T.BadValue:
            should = False
        out, _ = M.run_impl(code, [], None)
        if (out[0] == 'ok') != should:
            return [(f'{kind} literal acceptance', f'{out} should_accept={should}')]
        return []
    state = T.v_from_micheline(tc, case['state'])
    try:
        ref, got, problem = step(case['code'], [(tc, state)], M.make_context())
    except Exception as e:
        return [(f'{kind}: sorted literal rejected', repr(e))]
    return [(f'{kind} {case["op"]} {problem}', f'impl {got} ref {ref}')] if problem else []


def observe(case):
    tk = _tk(case['key_type'])
    tc = ('set', tk) if case['kind'] == 'set' else ('map', tk, VALS[case['kind']][0])
    if 'pyobj' in case:
        entries = tuple((int(i), f) for i, f in case['pyobj'])
        st, _, got = py_build(tc, py_container(case['kind'], tk, KEYS[tk][:case['n']], entries, case['container'])[0])
        return [st, repr(got)]
    state = T.v_from_micheline(tc, case['state'])
    out, stack = M.run_impl(case['code'], [(tc, state)], None)
    return [out, [repr(x) for x in stack.items]]
