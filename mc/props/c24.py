"""C24 — automatically chosen fees meet the node's default minimal fee.

Exploration over inputs x configurations.  Every case builds an operation group with the real ContentMixin
builders, runs the real `OperationGroup.fill().sign()` or `.autofill().sign()` against the simulated node
(mc/simnode.py behind the real ShellQuery) and judges the SIGNED BYTES the way a node's mempool filter does:
the binary payload is decoded by the independent decoder mc/ref/mgrops.py and

        1000 * sum(fee)  >=  100_000 + 1000 * len(payload) + 100 * sum(gas_limit)            (the statement)

tz4 (BLS) sources: `sign()` is tried once per shard with the real key (0.85 s each, py_ecc) and its outcome is recorded
as an outcome class (in the unchanged tree it raises: no generic encoding of a 96-byte signature — that defect belongs
to C07/C23).  The fee question does not depend on the signature VALUE, only on its length, so all tz4 cases are judged
with a dummy `BLsig` of 96 zero bytes attached through the group's own `_spawn(signature=...)`.
"""
from __future__ import annotations

import itertools

from mc.engine.report import Result

ID = 'C24'
LEVEL = 'exploration'
RULE = ('every batch (ordered sequence) of 1..N manager operations over 11 content templates (all 8 fillable kinds) x source '
        'curve tz1..tz4 x path {fill, autofill} x node hard_gas_limit_per_operation {1040000, 5200000} x account counter '
        '{0,127,128,2^32} x amount {0,1,2^40} x user overrides of gas/storage limit; autofill additionally x simulated '
        'consumed_milligas per content {0,1,999,1000,1001,10^9} x paid_storage_size_diff {0,1,257} (+allocation burn) x pending '
        'mempool operations {0,1}; dimensions are thinned for longer batches as stated in BOUND.  distinct_nontrivial = distinct '
        'cases that leave the one shape the unit tests pin (a single tz1 transfer to an implicit account on default constants): '
        'batch of >=2, or 96-byte signature, or non-default node gas constant, or a kind other than such a transfer')
BOUND = {
    'quick': 'N=3: n<=2 full product (fill: 2 gas constants x 4 counters x 3 amounts x 3 override settings; autofill: n=1 all '
             '6x3 simulation results x 4 counters x 3 amounts x 3 overrides x pending{0,1}; n=2 all 36 (first,rest) milligas pairs x 3 '
             'storage diffs); n=3: 11 first kinds x 25 pairs over 5 kinds x 2 gas constants x 2 counters (fill) / x 6 milligas (autofill)',
    'thorough': 'N=4: fill n<=3 full product incl. 4 override settings, n=4 all 14641 kind quadruples x 2 gas constants x 2 counters; '
                'autofill n=1 full product incl. internal operation results, n=2 36 milligas pairs x 3 storage diffs x 2 counters x 3 '
                'overrides, n=3 36 x 3, n=4 6 milligas values',
}
ASSUMPTIONS = [
    'the node default mempool filter is minimal_fees=100 mutez, 1000 nanotez/byte of the signed operation, 100 nanotez per gas unit '
    '(Octez defaults; this is what the statement says)',
    'fee depends on the signature only through its length: tz4 cases are judged with a 96-byte dummy BLsig; tz1..tz3 are really signed',
    'mc/ref/mgrops.py decodes the manager-operation layout correctly (hand-assembled selftest vectors; additionally every case '
    'cross-checks decoded fee/gas/counter against the group JSON)',
    'the Jupyter help text that every RpcQuery renders in its constructor is stubbed (mc.simnode.disable_query_docstrings) for '
    'speed; it never reaches a request',
    'user-chosen fees (autofill(fee=..)) and a user-chosen minimal_nanotez_per_gas_unit are outside the statement and not explored',
]
LEVEL_TEXT = ('exhaustive over the stated alphabet of batches and configurations; the oracle is the statement itself applied to the '
              'signed bytes; it says nothing about contents outside the alphabet (e.g. huge scripts) except that size enters linearly')

TZ = 'tz1gjaF81ZRRvdzjobyfVNsAeSC6PScjfQwN'
KT = 'KT1BEqzn5Wx8uJrZNvuS9DVHmLvG9td3fDLi'
SR = 'sr163Lv22CdE8QagCwf48PWDTquk6isQwv57'
SRC = 'src12UJzB8mg7yU6nWPzicH7ofJbFjyJEbHvwtZdfRXi8DQHNp1LY8'
SCRIPT = {'code': [{'prim': 'parameter', 'args': [{'prim': 'unit'}]}, {'prim': 'storage', 'args': [{'prim': 'unit'}]},
                   {'prim': 'code', 'args': [[{'prim': 'CDR'}, {'prim': 'NIL', 'args': [{'prim': 'operation'}]}, {'prim': 'PAIR'}]]}],
          'storage': {'prim': 'Unit'}}
TEMPLATES = ['tx_tz', 'tx_kt', 'tx_kt_param', 'reveal', 'delegation_self', 'delegation_off', 'origination', 'constant',
             'ticket', 'sr_add', 'sr_exec']
CURVES = {'tz1': b'ed', 'tz2': b'sp', 'tz3': b'p2', 'tz4': b'BL'}
MILLIGAS = [0, 1, 999, 1000, 1001, 10 ** 9]
STORAGE = [0, 1, 257]
COUNTERS = [0, 127, 128, 2 ** 32]
AMOUNTS = [0, 1, 2 ** 40]
HARDGAS = [1040000, 5200000]
QUICK_REST = ('tx_tz', 'tx_kt_param', 'reveal', 'origination', 'sr_add')  # quick tier: positions 2..3 of a triple
_keys = {}


def key_of(curve):
    from pytezos.crypto.key import Key
    if curve not in _keys:
        _keys[curve] = Key.from_secret_exponent(bytes([7]) * 32, curve=CURVES[curve])
    return _keys[curve]


def add(g, t, amount):
    if t == 'tx_tz':
        return g.transaction(destination=TZ, amount=amount)
    if t == 'tx_kt':
        return g.transaction(destination=KT, amount=amount)
    if t == 'tx_kt_param':
        return g.transaction(destination=KT, amount=amount, parameters={'entrypoint': 'do_it', 'value': {'int': '42'}})
    if t == 'reveal':
        return g.reveal()
    if t == 'delegation_self':
        return g.delegation()
    if t == 'delegation_off':
        return g.delegation(delegate=None)
    if t == 'origination':
        return g.origination(script=SCRIPT, balance=amount)
    if t == 'constant':
        return g.register_global_constant({'prim': 'Pair', 'args': [{'int': '1'}, {'string': 'c24'}]})
    if t == 'ticket':
        return g.transfer_ticket(ticket_contents={'int': '1'}, ticket_ty={'prim': 'nat'}, ticket_ticketer=KT,
                                 ticket_amount=3, destination=KT, entrypoint='default')
    if t == 'sr_add':
        return g.smart_rollup_add_messages([b'\x00\x01', b''])
    if t == 'sr_exec':
        return g.smart_rollup_execute_outbox_message(rollup=SR, cemented_commitment=SRC, output_proof=b'\x07' * 9)
    raise KeyError(t)


def drive(case, real_bls_sign=False):
    """Run the real client on one case.  Returns an observation dict."""
    from pytezos.context.impl import ExecutionContext
    from pytezos.crypto.encoding import base58_encode
    from pytezos.operation.group import OperationGroup
    from pytezos.rpc.shell import ShellQuery
    from mc.ref import mgrops
    from mc.simnode import SimNode, disable_query_docstrings
    disable_query_docstrings()

    curve = case['curve']
    key = key_of(curve)
    pkh = key.public_key_hash()
    node = SimNode(counters={pkh: case['counter']}, constants={'hard_gas_limit_per_operation': str(case['hardgas'])})
    if case.get('pending'):
        node.mempool.append({'hash': 'op', 'branch': 'B', 'signature': 'sig',
                             'contents': [{'kind': 'transaction', 'source': pkh, 'counter': str(case['counter'] + 1)}]})
    n = len(case['kinds'])
    node.sim = {'milligas': list(case.get('milligas') or [100000]), 'storage_diff': list(case.get('storage_diff') or [0]),
                'allocated': [bool(case.get('allocated'))]}
    if case.get('internal'):
        node.sim['internal'] = [[tuple(x) for x in case['internal']]]
    ctx = ExecutionContext(shell=ShellQuery(node=node), key=key)
    g = OperationGroup(context=ctx)
    for t in case['kinds']:
        g = add(g, t, case['amount'])
    kw = {}
    if case.get('gas_override') is not None:
        kw['gas_limit'] = case['gas_override']
    if case.get('storage_override') is not None:
        kw['storage_limit'] = case['storage_override']
    obs = {'sign': 'real'}
    try:
        f = g.fill(**kw) if case['path'] == 'fill' else g.autofill(**kw)
    except Exception as e:  # the client could not choose a fee at all
        return {'error': f'{case["path"]} raised {type(e).__name__}: {e}'[:300]}
    if curve == 'tz4':
        obs['sign'] = 'dummy BLsig'
        if real_bls_sign:
            try:
                s = f.sign()
                obs['bls_sign'] = f'tz4 sign() ok, {len(s.binary_payload()) - len(bytes.fromhex(s.forge()))}-byte signature'
            except Exception as e:
                obs['bls_sign'] = f'tz4 sign() raises {type(e).__name__}'
        s = f._spawn(signature=base58_encode(b'\x00' * 96, b'BLsig').decode())
    else:
        try:
            s = f.sign()
        except Exception as e:
            return {'error': f'sign raised {type(e).__name__}: {e}'[:300]}
    payload = s.binary_payload()
    dec = mgrops.decode(payload, 96 if curve == 'tz4' else 64)
    cs = dec['contents']
    js = s.contents
    if [(c['fee'], c['counter'], c['gas_limit'], c['storage_limit']) for c in cs] != \
            [(int(c['fee']), int(c['counter']), int(c['gas_limit']), int(c['storage_limit'])) for c in js] or len(cs) != n:
        return {'error': 'decoded payload disagrees with the group JSON (forging or decoder problem)',
                'decoded': [(c['kind'], c['fee'], c['counter'], c['gas_limit'], c['storage_limit']) for c in cs]}
    obs.update(size=len(payload), fee=sum(c['fee'] for c in cs), gas=sum(c['gas_limit'] for c in cs),
               fees=[c['fee'] for c in cs], gas_limits=[c['gas_limit'] for c in cs],
               storage_limits=[c['storage_limit'] for c in cs], counters=[c['counter'] for c in cs])
    return obs


def required_nanotez(size, gas):
    return 100_000 + 1000 * size + 100 * gas


def descriptor(case):
    shape = 'single operation' if len(case['kinds']) == 1 else 'batch'
    sig = '96-byte signature (tz4)' if case['curve'] == 'tz4' else '64-byte signature'
    const = 'default node gas constant' if case['hardgas'] == 1040000 else 'non-default node gas constant'
    return f'{case["path"]}: {shape}, {sig}, {const}: fee below the mempool minimum'


def check(case, real_bls_sign=False):
    obs = drive(case, real_bls_sign)
    if 'error' in obs:
        return [(f'{case["path"]}: ' + ('client raised instead of choosing a fee' if 'raised' in obs['error'] else obs['error']),
                 f'{obs["error"]} case={case}')], obs
    need = required_nanotez(obs['size'], obs['gas'])
    have = 1000 * obs['fee']
    obs['margin_mutez'] = (have - need) // 1000 if have >= need else -((need - have + 999) // 1000)
    if have < need:
        return [(descriptor(case),
                 f'kinds={case["kinds"]} curve={case["curve"]} fee={obs["fee"]} (per content {obs["fees"]}) size={obs["size"]} '
                 f'gas={obs["gas"]} (per content {obs["gas_limits"]}): needs {-(-need // 1000)} mutez, short by {-obs["margin_mutez"]}')], obs
    return [], obs


def bucket(m):
    if m < 0:
        return 'SHORT by ' + ('<=10' if m >= -10 else '<=100' if m >= -100 else '<=1000' if m >= -1000 else '>1000')
    return 'margin ' + ('0..9' if m < 10 else '10..99' if m < 100 else '100..999' if m < 1000 else '>=1000')


def nontrivial(case):
    return (len(case['kinds']) > 1 or case['curve'] == 'tz4' or case['hardgas'] != 1040000 or case['kinds'][0] != 'tx_tz'
            or case['curve'] != 'tz1')


# ---- enumeration ------------------------------------------------------------------------------------------
def base(path, curve, kinds, **kw):
    c = {'path': path, 'curve': curve, 'kinds': list(kinds), 'hardgas': 1040000, 'counter': 0, 'amount': 1}
    c.update(kw)
    return c


def fill_cases(curve, first, tier):
    N = 3 if tier == 'quick' else 4
    overrides = [(None, None), (20000, None), (None, 300)] + ([(700000, 1000)] if tier == 'thorough' else [])
    full_n = 2 if tier == 'quick' else 3
    for n in range(1, N + 1):
        for rest in itertools.product(TEMPLATES, repeat=n - 1):
            kinds = (first,) + rest
            if n <= full_n:
                for hg, cnt, am, (go, so) in itertools.product(HARDGAS, COUNTERS, AMOUNTS, overrides):
                    yield base('fill', curve, kinds, hardgas=hg, counter=cnt, amount=am, gas_override=go, storage_override=so)
            elif tier == 'thorough' or all(t in QUICK_REST for t in rest):
                for hg, cnt in itertools.product(HARDGAS, (0, 2 ** 32)):
                    yield base('fill', curve, kinds, hardgas=hg, counter=cnt)


def autofill_cases(curve, first, tier):
    N = 3 if tier == 'quick' else 4
    overrides = [(None, None), (20000, None), (None, 300)]
    for n in range(1, N + 1):
        for rest in itertools.product(TEMPLATES, repeat=n - 1):
            kinds = (first,) + rest
            if n == 1:
                for cnt, am, mg, sd, (go, so), pend in itertools.product(COUNTERS, AMOUNTS, MILLIGAS, STORAGE, overrides, (0, 1)):
                    yield base('autofill', curve, kinds, counter=cnt, amount=am, milligas=[mg], storage_diff=[sd],
                               gas_override=go, storage_override=so, pending=pend, allocated=(sd == 257))
                for hg in HARDGAS:  # the node constant must not matter for autofill; two probes
                    yield base('autofill', curve, kinds, hardgas=hg, milligas=[1001], storage_diff=[1])
                if tier == 'thorough':
                    for mg, img in itertools.product(MILLIGAS, MILLIGAS):
                        yield base('autofill', curve, kinds, milligas=[mg], internal=[[img, 1, True], [1, 0, False]])
            elif n == 2:
                ovs = overrides if tier == 'thorough' else overrides[:1]
                cnts = (127, 2 ** 32) if tier == 'thorough' else (2 ** 32,)
                for mg0, mg1, sd, cnt, (go, so) in itertools.product(MILLIGAS, MILLIGAS, STORAGE, cnts, ovs):
                    yield base('autofill', curve, kinds, counter=cnt, milligas=[mg0, mg1], storage_diff=[sd],
                               gas_override=go, storage_override=so, allocated=(sd == 257))
            elif n == 3 and tier == 'thorough':
                for mg0, mg1, sd in itertools.product(MILLIGAS, MILLIGAS, STORAGE):
                    yield base('autofill', curve, kinds, milligas=[mg0, mg1], storage_diff=[sd])
            elif tier == 'thorough' or all(t in QUICK_REST for t in rest):
                for mg in MILLIGAS:
                    yield base('autofill', curve, kinds, milligas=[mg], counter=127)


def shards(tier, seed):
    return [(path, curve, first) for path in ('fill', 'autofill') for curve in CURVES for first in TEMPLATES]


def run_shard(spec, tier):
    path, curve, first = spec
    r = Result()
    gen = fill_cases(curve, first, tier) if path == 'fill' else autofill_cases(curve, first, tier)
    case = None
    for i, case in enumerate(gen):
        r.ev()
        vs, obs = check(case, real_bls_sign=(i == 0 and curve == 'tz4' and first in ('tx_tz', 'reveal')))
        if 'bls_sign' in obs:
            r.out(obs['bls_sign'])
            r.extra[obs['bls_sign']] += 1
        if nontrivial(case):
            r.nt(tuple(sorted((k, repr(v)) for k, v in case.items())))
        n = len(case['kinds'])
        if 'error' in obs:
            r.out(f'{path} {curve} n={n}: error')
        else:
            r.out(f'{path} {curve} n={n}: {bucket(obs["margin_mutez"])}')
        for d, detail in vs:
            r.viol(d, case, detail)
        if i == 0:
            r.sample(case)
    if case is not None:
        r.sample(case)
    return r


def replay(case):
    return check(case)[0]


def observe(case):
    return drive(case)
