"""C24 — automatically chosen fees meet the node's default minimal fee.

Exploration over inputs x configurations.  Every case builds an operation group with the real ContentMixin
builders, runs the real `OperationGroup.fill().sign()` or `.autofill().sign()` against the simulated node
(mc/simnode.py behind the real ShellQuery) and judges the SIGNED BYTES the way a node's mempool filter does:
the binary payload is decoded by the independent decoder mc/ref/mgrops.py and

        1000 * sum(fee)  >=  100_000 + 1000 * len(payload) + 100 * sum(gas_limit)            (the statement)

Three families of cases:
  fresh    one group, one call on a fresh context: all batches of 1..N contents over the 11 templates x the configuration product;
  long     batches of EVERY length 5..LONG_N (plus a few much longer ones) of one repeated template or of all templates in
           rotation: what the client loses by truncating 0.1 mutez/gas per content and by dividing the branch+signature bytes
           among the contents depends on n arithmetically, so no length of the range is skipped; autofill x the last decimal
           digit of every per-content gas limit (0..9, or a different digit per content), fill x node constant x gas override;
  history  2..3 fee-choosing calls (fill / fill with a gas override / autofill) on ONE context over the related group objects
           g0 = [first], g1 = g0.ext(), g2 = g1.ext() - each built with the real builders from the previous one when first
           needed, so they share whatever the builders share - and a fresh unrelated group on the same context.  EVERY call of
           the sequence is judged on its own signed bytes (the user never sets a fee; results of fill are never extended).

tz4 (BLS) sources: `sign()` is tried once per shard with the real key (0.85 s each, py_ecc) and its outcome is recorded
as an outcome class (in the unchanged tree it raises: no generic encoding of a 96-byte signature — that defect belongs
to C07/C23).  The fee question does not depend on the signature VALUE, only on its length, so all tz4 cases are judged
with a dummy `BLsig` of 96 zero bytes attached through the group's own `_spawn(signature=...)`.
"""
from __future__ import annotations

import itertools

from mc.engine.report import Result

ID = 'C24'
LEVEL = 'exploration'
RULE = ('every batch (ordered sequence) of 1..N manager operations over 11 content templates (all 8 fillable kinds) x source '
        'curve tz1..tz4 x path {fill, autofill} x node hard_gas_limit_per_operation {1040000, 5200000} x account counter '
        '{0,127,128,2^32} x amount {0,1,2^40} x user overrides of gas/storage limit; autofill additionally x simulated '
        'consumed_milligas per content {0,1,999,1000,1001,10^9} x paid_storage_size_diff {0,1,257} (+allocation burn) x pending '
        'mempool operations {0,1}; dimensions are thinned for longer batches as stated in BOUND.  LONG batches: every length '
        '5..L and a few longer, one template repeated or all 11 in rotation, x curve; fill x node gas constant x gas override '
        '{none, 99999}; autofill x last decimal digit of each simulated per-content gas limit (same digit for all, or digit '
        '(7i+3) mod 10 for content i; odd positions 1 milligas short of a full unit).  HISTORIES: all sequences of 2 (and 3) calls '
        'over {fill, fill(gas_limit=20001), autofill} x {g0=[first], g1=g0+ext, g2=g1+ext, fresh [first,ext]} on one context '
        '(account counter 126 so counters cross 127/128 between calls), every call judged.  distinct_nontrivial = distinct '
        'cases that leave the one shape the unit tests pin (a single tz1 transfer to an implicit account on default constants): '
        'batch of >=2, or 96-byte signature, or non-default node gas constant, or a kind other than such a transfer; for '
        'histories = distinct (context, call prefix) judged')
BOUND = {
    'quick': 'N=3: n<=2 full product (fill: 2 gas constants x 4 counters x 3 amounts x 3 override settings; autofill: n=1 all '
             '6x3 simulation results x 4 counters x 3 amounts x 3 overrides x pending{0,1}; n=2 all 36 (first,rest) milligas pairs x 3 '
             'storage diffs); n=3: 11 first kinds x 25 pairs over 5 kinds x 2 gas constants x 2 counters (fill) / x 6 milligas (autofill); '
             'long: every n in 5..64 and 80, 100, 128 x 5 patterns (tx_tz, tx_kt_param, sr_add, origination, rotation of all 11) x 4 curves, '
             'fill x 2 gas constants x 2 overrides, autofill x gas digits {0,1,5,9,mixed}; histories: 4 curves x 11 first x 5 ext kinds x all '
             '144 two-call sequences over 12 actions, and for ext in {tx_tz, origination} all 512 three-call sequences over the 8 actions '
             'without override',
    'thorough': 'N=4: fill n<=3 full product incl. 4 override settings, n=4 all 14641 kind quadruples x 2 gas constants x 2 counters; '
                'autofill n=1 full product incl. internal operation results, n=2 36 milligas pairs x 3 storage diffs x 2 counters x 3 '
                'overrides, n=3 36 x 3, n=4 6 milligas values; long: every n in 5..160 and 200, 256, 400 x 8 patterns x 4 curves, fill x 2 '
                'gas constants x 2 overrides, autofill x gas digits {0..9, mixed}; histories: 4 curves x 11 first x 11 ext kinds x all 144 '
                'two-call sequences, all 1728 three-call sequences over 12 actions for 5 ext kinds and all 512 over the 8 actions without '
                'override for the other 6',
}
ASSUMPTIONS = [
    'the node default mempool filter is minimal_fees=100 mutez, 1000 nanotez/byte of the signed operation, 100 nanotez per gas unit '
    '(Octez defaults; this is what the statement says)',
    'fee depends on the signature only through its length: tz4 cases are judged with a 96-byte dummy BLsig; tz1..tz3 are really signed',
    'mc/ref/mgrops.py decodes the manager-operation layout correctly (hand-assembled selftest vectors; additionally every case '
    'cross-checks decoded fee/gas/counter against the group JSON)',
    'the Jupyter help text that every RpcQuery renders in its constructor is stubbed (mc.simnode.disable_query_docstrings) for '
    'speed; it never reaches a request',
    'user-chosen fees (autofill(fee=..)) and a user-chosen minimal_nanotez_per_gas_unit are outside the statement and not explored',
    'a group that already carries a fee (e.g. the RESULT of fill(), extended and filled again) is indistinguishable from a '
    'user-chosen fee and is not explored; histories only re-use and extend the unfilled groups',
]
LEVEL_TEXT = ('exhaustive over the stated alphabet of batches and configurations; the oracle is the statement itself applied to the '
              'signed bytes; it says nothing about contents outside the alphabet (e.g. huge scripts) except that size enters linearly, '
              'about batches longer than the stated lengths, or about call histories longer than 3 calls on one context')

TZ = 'tz1gjaF81ZRRvdzjobyfVNsAeSC6PScjfQwN'
KT = 'KT1BEqzn5Wx8uJrZNvuS9DVHmLvG9td3fDLi'
SR = 'sr163Lv22CdE8QagCwf48PWDTquk6isQwv57'
SRC = 'src12UJzB8mg7yU6nWPzicH7ofJbFjyJEbHvwtZdfRXi8DQHNp1LY8'
SCRIPT = {'code': [{'prim': 'parameter', 'args': [{'prim': 'unit'}]}, {'prim': 'storage', 'args': [{'prim': 'unit'}]},
                   {'prim': 'code', 'args': [[{'prim': 'CDR'}, {'prim': 'NIL', 'args': [{'prim': 'operation'}]}, {'prim': 'PAIR'}]]}],
          'storage': {'prim': 'Unit'}}
TEMPLATES = ['tx_tz', 'tx_kt', 'tx_kt_param', 'reveal', 'delegation_self', 'delegation_off', 'origination', 'constant',
             'ticket', 'sr_add', 'sr_exec']
CURVES = {'tz1': b'ed', 'tz2': b'sp', 'tz3': b'p2', 'tz4': b'BL'}
MILLIGAS = [0, 1, 999, 1000, 1001, 10 ** 9]
STORAGE = [0, 1, 257]
COUNTERS = [0, 127, 128, 2 ** 32]
AMOUNTS = [0, 1, 2 ** 40]
HARDGAS = [1040000, 5200000]
QUICK_REST = ('tx_tz', 'tx_kt_param', 'reveal', 'origination', 'sr_add')  # quick tier: positions 2..3 of a triple
LONG_N = {'quick': 64, 'thorough': 160}             # long batches: every length 5..LONG_N
LONG_EXTRA = {'quick': [80, 100, 128], 'thorough': [200, 256, 400]}
LONG_PATTERNS = {'quick': ['tx_tz', 'tx_kt_param', 'sr_add', 'origination', 'mixed'],
                 'thorough': ['tx_tz', 'tx_kt_param', 'reveal', 'delegation_off', 'sr_add', 'origination', 'ticket', 'mixed']}
LONG_RESIDUES = {'quick': [0, 1, 5, 9, 'mix'], 'thorough': [0, 1, 2, 3, 4, 5, 6, 7, 8, 9, 'mix']}
LONG_GAS_OVERRIDES = [None, 99999]
_keys = {}


def key_of(curve):
    from pytezos.crypto.key import Key
    if curve not in _keys:
        _keys[curve] = Key.from_secret_exponent(bytes([7]) * 32, curve=CURVES[curve])
    return _keys[curve]


def add(g, t, amount):
    if t == 'tx_tz':
        return g.transaction(destination=TZ, amount=amount)
    if t == 'tx_kt':
        return g.transaction(destination=KT, amount=amount)
    if t == 'tx_kt_param':
        return g.transaction(destination=KT, amount=amount, parameters={'entrypoint': 'do_it', 'value': {'int': '42'}})
    if t == 'reveal':
        return g.reveal()
    if t == 'delegation_self':
        return g.delegation()
    if t == 'delegation_off':
        return g.delegation(delegate=None)
    if t == 'origination':
        return g.origination(script=SCRIPT, balance=amount)
    if t == 'constant':
        return g.register_global_constant({'prim': 'Pair', 'args': [{'int': '1'}, {'string': 'c24'}]})
    if t == 'ticket':
        return g.transfer_ticket(ticket_contents={'int': '1'}, ticket_ty={'prim': 'nat'}, ticket_ticketer=KT,
                                 ticket_amount=3, destination=KT, entrypoint='default')
    if t == 'sr_add':
        return g.smart_rollup_add_messages([b'\x00\x01', b''])
    if t == 'sr_exec':
        return g.smart_rollup_execute_outbox_message(rollup=SR, cemented_commitment=SRC, output_proof=b'\x07' * 9)
    raise KeyError(t)


def _imports():
    from mc.simnode import disable_query_docstrings
    disable_query_docstrings()


def make_node(case):
    """Simulated node + real execution context for one case (shared by every call of a history case)."""
    from pytezos.context.impl import ExecutionContext
    from pytezos.rpc.shell import ShellQuery
    from mc.simnode import SimNode
    _imports()
    key = key_of(case['curve'])
    pkh = key.public_key_hash()
    node = SimNode(counters={pkh: case['counter']}, constants={'hard_gas_limit_per_operation': str(case['hardgas'])})
    if case.get('pending'):
        node.mempool.append({'hash': 'op', 'branch': 'B', 'signature': 'sig',
                             'contents': [{'kind': 'transaction', 'source': pkh, 'counter': str(case['counter'] + 1)}]})
    node.sim = {'milligas': list(case.get('milligas') or [100000]), 'storage_diff': list(case.get('storage_diff') or [0]),
                'allocated': [bool(case.get('allocated'))]}
    if case.get('internal'):
        node.sim['internal'] = [[tuple(x) for x in case['internal']]]
    return node, ExecutionContext(shell=ShellQuery(node=node), key=key)


def choose_fee(g, path, gas_override=None, storage_override=None):
    """The real client call that chooses the fee.  Returns (filled group, None) or (None, error text)."""
    kw = {}
    if gas_override is not None:
        kw['gas_limit'] = gas_override
    if storage_override is not None:
        kw['storage_limit'] = storage_override
    try:
        return (g.fill(**kw) if path == 'fill' else g.autofill(**kw)), None
    except Exception as e:  # the client could not choose a fee at all
        return None, f'{path} raised {type(e).__name__}: {e}'[:300]


def sign_and_measure(f, curve, n, real_bls_sign=False):
    """Sign the filled group `f` (n contents expected) and read fee / gas / size off the SIGNED BYTES."""
    from pytezos.crypto.encoding import base58_encode
    from mc.ref import mgrops
    obs = {'sign': 'real'}
    if curve == 'tz4':
        obs['sign'] = 'dummy BLsig'
        if real_bls_sign:
            try:
                s = f.sign()
                obs['bls_sign'] = f'tz4 sign() ok, {len(s.binary_payload()) - len(bytes.fromhex(s.forge()))}-byte signature'
            except Exception as e:
                obs['bls_sign'] = f'tz4 sign() raises {type(e).__name__}'
        s = f._spawn(signature=base58_encode(b'\x00' * 96, b'BLsig').decode())
    else:
        try:
            s = f.sign()
        except Exception as e:
            return {'error': f'sign raised {type(e).__name__}: {e}'[:300]}
    try:
        payload = s.binary_payload()
        dec = mgrops.decode(payload, 96 if curve == 'tz4' else 64)
        cs = dec['contents']
        js = s.contents
        same = [(c['fee'], c['counter'], c['gas_limit'], c['storage_limit']) for c in cs] == \
            [(int(c['fee']), int(c['counter']), int(c['gas_limit']), int(c['storage_limit'])) for c in js]
    except Exception as e:  # unforgeable / undecodable result of the client's own fill
        return {'error': f'signed group cannot be forged and decoded: raised {type(e).__name__}: {e}'[:300]}
    if not same or len(cs) != n:
        return {'error': 'decoded payload disagrees with the group JSON (forging or decoder problem)',
                'decoded': [(c['kind'], c['fee'], c['counter'], c['gas_limit'], c['storage_limit']) for c in cs]}
    obs.update(size=len(payload), fee=sum(c['fee'] for c in cs), gas=sum(c['gas_limit'] for c in cs),
               fees=[c['fee'] for c in cs], gas_limits=[c['gas_limit'] for c in cs],
               storage_limits=[c['storage_limit'] for c in cs], counters=[c['counter'] for c in cs])
    if len(cs) > 6:  # long batches: keep the observation readable
        for k in ('fees', 'gas_limits', 'storage_limits', 'counters'):
            obs[k] = obs[k][:3] + ['...'] + obs[k][-2:]
    return obs


def kinds_of(case):
    """Content templates of a case: explicit list, or `n` contents of a long-batch pattern."""
    if 'kinds' in case:
        return list(case['kinds'])
    p = case['pattern']
    return [TEMPLATES[i % len(TEMPLATES)] if p == 'mixed' else p for i in range(case['n'])]


def drive(case, real_bls_sign=False):
    """Run the real client on one fresh case (one group, one call).  Returns an observation dict."""
    from pytezos.operation.group import OperationGroup
    node, ctx = make_node(case)
    g = OperationGroup(context=ctx)
    kinds = kinds_of(case)
    for t in kinds:
        g = add(g, t, case['amount'])
    f, err = choose_fee(g, case['path'], case.get('gas_override'), case.get('storage_override'))
    if err:
        return {'error': err}
    return sign_and_measure(f, case['curve'], len(kinds), real_bls_sign)


def required_nanotez(size, gas):
    return 100_000 + 1000 * size + 100 * gas


def descriptor(case):
    n = len(kinds_of(case))
    shape = 'single operation' if n == 1 else 'batch' if n <= 4 else 'long batch (5 or more contents)'
    sig = '96-byte signature (tz4)' if case['curve'] == 'tz4' else '64-byte signature'
    const = 'default node gas constant' if case['hardgas'] == 1040000 else 'non-default node gas constant'
    return f'{case["path"]}: {shape}, {sig}, {const}: fee below the mempool minimum'


def judge(obs, path, desc, what):
    """The statement as a predicate on one observation.  Returns the list of (descriptor, detail)."""
    if 'error' in obs:
        return [(f'{path}: ' + ('client raised instead of choosing a fee' if 'raised' in obs['error'] else obs['error']),
                 f'{obs["error"]} {what}')]
    need = required_nanotez(obs['size'], obs['gas'])
    have = 1000 * obs['fee']
    obs['margin_mutez'] = (have - need) // 1000 if have >= need else -((need - have + 999) // 1000)
    if have < need:
        return [(desc, f'{what} fee={obs["fee"]} (per content {obs["fees"]}) size={obs["size"]} gas={obs["gas"]} '
                       f'(per content {obs["gas_limits"]}): needs {-(-need // 1000)} mutez, short by {-obs["margin_mutez"]}')]
    return []


def check(case, real_bls_sign=False):
    obs = drive(case, real_bls_sign)
    kinds = kinds_of(case)
    what = (f'kinds={kinds}' if len(kinds) <= 4 else f'{len(kinds)} contents of pattern {case.get("pattern")}') + f' curve={case["curve"]}'
    return judge(obs, case['path'], descriptor(case), what + (f' case={case}' if 'error' in obs else '')), obs


# ---- histories: several fee-choosing calls on related group objects sharing one context ----------------------
def relation(calls, i):
    """How the group of call i relates to the groups of the earlier calls (for the descriptor)."""
    k = calls[i][1]
    prev = [c[1] for c in calls[:i]]
    if not prev:
        return 'first call on a fresh context'
    if k in prev:
        return 'the same group object again'
    if k == 'new' or all(p == 'new' for p in prev):
        return 'an unrelated group on the used context'
    if any(p != 'new' and p < k for p in prev):
        return 'an extension of a group used before'
    return 'a prefix of a group used before'


def run_history(case, upto=None):
    """case['calls'] = [[path, k, gas_override], ...] on ONE context.  k in 0,1,2: the group `first + k*ext`, each built (when
    first needed) by extending the previous one with the real builder, so the groups share whatever the builders share;
    k == 'new': a fresh OperationGroup [first, ext] on the same context.  Every call is judged on its own signed bytes.
    Returns [(violations, obs)] per call."""
    from pytezos.operation.group import OperationGroup
    node, ctx = make_node(case)
    chain = {}

    def group(k):
        if k == 'new':
            return add(add(OperationGroup(context=ctx), case['first'], case['amount']), case['ext'], case['amount']), 2
        if k not in chain:
            chain[k] = add(OperationGroup(context=ctx), case['first'], case['amount']) if k == 0 else \
                add(group(k - 1)[0], case['ext'], case['amount'])
        return chain[k], k + 1
    out = []
    calls = case['calls'] if upto is None else case['calls'][:upto]
    for i, (path, k, go) in enumerate(calls):
        try:
            g, n = group(k)
        except Exception as e:
            obs = {'error': f'building the group raised {type(e).__name__}: {e}'[:300]}
        else:
            f, err = choose_fee(g, path, go)
            obs = {'error': err} if err else sign_and_measure(f, case['curve'], n)
        rel = relation(calls, i)
        desc = f'history: {path} of {rel}: fee below the mempool minimum' if i else \
            f'history: {path}, first call on a fresh context: fee below the mempool minimum'
        what = f'call {i + 1} of {calls} first={case["first"]} ext={case["ext"]} curve={case["curve"]}'
        vs = judge(obs, path, desc, what)
        if 'error' in obs and i:
            vs = [(f'history: {path} of {rel}: ' + d.split(': ', 1)[1], det) for d, det in vs]
        out.append((vs, obs))
    return out


def bucket(m):
    if m < 0:
        return 'SHORT by ' + ('<=10' if m >= -10 else '<=100' if m >= -100 else '<=1000' if m >= -1000 else '>1000')
    return 'margin ' + ('0..9' if m < 10 else '10..99' if m < 100 else '100..999' if m < 1000 else '>=1000')


def nontrivial(case):
    kinds = kinds_of(case)
    return (len(kinds) > 1 or case['curve'] == 'tz4' or case['hardgas'] != 1040000 or kinds[0] != 'tx_tz'
            or case['curve'] != 'tz1')


# ---- enumeration ------------------------------------------------------------------------------------------
def base(path, curve, kinds, **kw):
    c = {'path': path, 'curve': curve, 'kinds': list(kinds), 'hardgas': 1040000, 'counter': 0, 'amount': 1}
    c.update(kw)
    return c


def fill_cases(curve, first, tier):
    N = 3 if tier == 'quick' else 4
    overrides = [(None, None), (20000, None), (None, 300)] + ([(700000, 1000)] if tier == 'thorough' else [])
    full_n = 2 if tier == 'quick' else 3
    for n in range(1, N + 1):
        for rest in itertools.product(TEMPLATES, repeat=n - 1):
            kinds = (first,) + rest
            if n <= full_n:
                for hg, cnt, am, (go, so) in itertools.product(HARDGAS, COUNTERS, AMOUNTS, overrides):
                    yield base('fill', curve, kinds, hardgas=hg, counter=cnt, amount=am, gas_override=go, storage_override=so)
            elif tier == 'thorough' or all(t in QUICK_REST for t in rest):
                for hg, cnt in itertools.product(HARDGAS, (0, 2 ** 32)):
                    yield base('fill', curve, kinds, hardgas=hg, counter=cnt)


def autofill_cases(curve, first, tier):
    N = 3 if tier == 'quick' else 4
    overrides = [(None, None), (20000, None), (None, 300)]
    for n in range(1, N + 1):
        for rest in itertools.product(TEMPLATES, repeat=n - 1):
            kinds = (first,) + rest
            if n == 1:
                for cnt, am, mg, sd, (go, so), pend in itertools.product(COUNTERS, AMOUNTS, MILLIGAS, STORAGE, overrides, (0, 1)):
                    yield base('autofill', curve, kinds, counter=cnt, amount=am, milligas=[mg], storage_diff=[sd],
                               gas_override=go, storage_override=so, pending=pend, allocated=(sd == 257))
                for hg in HARDGAS:  # the node constant must not matter for autofill; two probes
                    yield base('autofill', curve, kinds, hardgas=hg, milligas=[1001], storage_diff=[1])
                if tier == 'thorough':
                    for mg, img in itertools.product(MILLIGAS, MILLIGAS):
                        yield base('autofill', curve, kinds, milligas=[mg], internal=[[img, 1, True], [1, 0, False]])
            elif n == 2:
                ovs = overrides if tier == 'thorough' else overrides[:1]
                cnts = (127, 2 ** 32) if tier == 'thorough' else (2 ** 32,)
                for mg0, mg1, sd, cnt, (go, so) in itertools.product(MILLIGAS, MILLIGAS, STORAGE, cnts, ovs):
                    yield base('autofill', curve, kinds, counter=cnt, milligas=[mg0, mg1], storage_diff=[sd],
                               gas_override=go, storage_override=so, allocated=(sd == 257))
            elif n == 3 and tier == 'thorough':
                for mg0, mg1, sd in itertools.product(MILLIGAS, MILLIGAS, STORAGE):
                    yield base('autofill', curve, kinds, milligas=[mg0, mg1], storage_diff=[sd])
            elif tier == 'thorough' or all(t in QUICK_REST for t in rest):
                for mg in MILLIGAS:
                    yield base('autofill', curve, kinds, milligas=[mg], counter=127)


def long_lengths(tier):
    """EVERY batch length of a contiguous range (what the client loses by rounding and integer division depends on n
    arithmetically, e.g. on (32+sig) mod n), plus a few much longer ones."""
    return list(range(5, LONG_N[tier] + 1)) + LONG_EXTRA[tier]


def residue_milligas(res, n):
    """Simulated consumption per content such that the gas limit autofill derives ends in a chosen decimal digit:
    res = digit 0..9 for every content, or 'mix' = digit (7*i+3) mod 10 for content i.  Odd positions are 1 milligas short of
    the full unit (the client must round consumption up)."""
    return [(1000 + (res if res != 'mix' else (7 * i + 3) % 10)) * 1000 - (i % 2) for i in range(n)]


def long_cases(path, curve, pattern, tier):
    for n in long_lengths(tier):
        c = {'path': path, 'curve': curve, 'pattern': pattern, 'n': n, 'hardgas': 1040000, 'counter': 127, 'amount': 1}
        if path == 'fill':
            for hg, go in itertools.product(HARDGAS, LONG_GAS_OVERRIDES):
                yield dict(c, hardgas=hg, gas_override=go)
        else:
            for res in LONG_RESIDUES[tier]:
                yield dict(c, milligas=residue_milligas(res, n), storage_diff=[0, 1], residue=res)


def history_cases(curve, first, tier):
    exts = QUICK_REST if tier == 'quick' else TEMPLATES
    actions = [(p, k, go) for p, go in (('fill', None), ('fill', 20001), ('autofill', None)) for k in (0, 1, 2, 'new')]
    for ext in exts:
        c = {'mode': 'history', 'curve': curve, 'first': first, 'ext': ext, 'hardgas': 1040000, 'counter': 126, 'amount': 1,
             'milligas': [1001, 9000, 1005999], 'storage_diff': [1]}
        seqs = itertools.product(actions, repeat=2)
        plain = [a for a in actions if a[2] is None]
        if tier == 'thorough':
            seqs = itertools.chain(seqs, itertools.product(actions if ext in QUICK_REST else plain, repeat=3))
        elif ext in QUICK_REST[:1] + QUICK_REST[3:4]:
            seqs = itertools.chain(seqs, itertools.product(plain, repeat=3))
        for seq in seqs:
            yield dict(c, calls=[list(a) for a in seq])


def shards(tier, seed):
    fresh = [(path, curve, first) for path in ('fill', 'autofill') for curve in CURVES for first in TEMPLATES]
    hist = [('history', curve, first) for curve in CURVES for first in TEMPLATES]
    longs = [('long-' + path, curve, pattern) for pattern in LONG_PATTERNS[tier] for path in ('fill', 'autofill') for curve in CURVES]
    return fresh + hist + longs


def run_history_shard(spec, tier):
    _, curve, first = spec
    r = Result()
    case = None
    for i, case in enumerate(history_cases(curve, first, tier)):
        calls = case['calls']
        for j, (vs, obs) in enumerate(run_history(case)):
            r.ev()
            r.nt(('history', curve, first, case['ext'], repr(calls[:j + 1])))
            tag = f'history {curve} call {j + 1} ({calls[j][0]} after {calls[j - 1][0]})' if j else f'history {curve} call 1 ({calls[0][0]})'
            r.out(f'{tag}: error' if 'error' in obs else f'{tag}: {bucket(obs["margin_mutez"])}')
            for d, detail in vs:
                r.viol(d, dict(case, calls=calls[:j + 1]), detail)  # the shortest history that shows it
        if i == 0:
            r.sample(case)
    if case is not None:
        r.sample(case)
    return r


def run_shard(spec, tier):
    path, curve, first = spec
    if path == 'history':
        return run_history_shard(spec, tier)
    r = Result()
    if path.startswith('long-'):
        path = path[5:]
        gen = long_cases(path, curve, first, tier)
    else:
        gen = fill_cases(curve, first, tier) if path == 'fill' else autofill_cases(curve, first, tier)
    case = None
    for i, case in enumerate(gen):
        r.ev()
        vs, obs = check(case, real_bls_sign=(i == 0 and curve == 'tz4' and first in ('tx_tz', 'reveal')))
        if 'bls_sign' in obs:
            r.out(obs['bls_sign'])
            r.extra[obs['bls_sign']] += 1
        if nontrivial(case):
            r.nt(tuple(sorted((k, repr(v)) for k, v in case.items())))
        n = len(kinds_of(case))
        ns = f'n={n}' if n <= 4 else 'n=5..16' if n <= 16 else 'n=17..64' if n <= 64 else 'n>64'
        if 'error' in obs:
            r.out(f'{path} {curve} {ns}: error')
        else:
            r.out(f'{path} {curve} {ns}: {bucket(obs["margin_mutez"])}')
        for d, detail in vs:
            r.viol(d, case, detail)
        if i == 0:
            r.sample(case)
    if case is not None:
        r.sample(case)
    return r


def replay(case):
    if case.get('mode') == 'history':
        return [v for vs, _ in run_history(case) for v in vs]
    return check(case)[0]


def observe(case):
    if case.get('mode') == 'history':
        return [obs for _, obs in run_history(case)]
    return drive(case)
