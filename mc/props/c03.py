"""C03 — COMPARE and ordered collections follow the Tezos total order.

Small-scope exhaustive exploration: for every comparable type up to a depth bound over all comparable base types,
ALL ordered pairs of a class-covering value domain go through the real COMPARE instruction on a real stack and must
equal the reference order (mc.ref.mtypes.compare: exactly the rules the statement names).  Oracle-free order laws
(reflexive, antisymmetric, transitive on all triples, 0 iff equal) are checked on the implementation's own answers, and
sets / map keys built by inserting every permutation of up to 3 values with the real UPDATE instruction must end up in
reference order without duplicates.
"""
from __future__ import annotations

import itertools

from mc import adapter as A
from mc.engine.report import Result
from mc.ref import base58 as b58
from mc.ref import mtypes as T

ID = 'C03'
LEVEL = 'exploration'
RULE = ('per comparable type: every ordered pair (a,b) of the type\'s value domain through the real COMPARE instruction vs '
        'the reference order; laws on all triples; sets/maps from every insertion permutation of <=3 values. '
        'non-trivial = distinct (type, a, b) with a != b')
BOUND = {'quick': 'all 14 base types; option/or/pair of base types (depth 1, pairs over 6x6 base types); domains of 3-18 values; per type: every ordered pair compared, every insertion order of 2-3 of the first 5 keys into a set and a map through UPDATE, every 2-key set / map / big_map literal over the first 9 values, DUP-licates',
         'thorough': 'depth 2 (pair/or/option of depth-1 types over a 6-type core), all triples'}
ASSUMPTIONS = ['same-curve order of secp256k1/P-256 keys is judged as "then bytes" (statement); P-256 keys that differ only '
               'in the parity byte are judged by the laws only (must not compare equal)',
               'signatures of different length are judged by the laws only']
LEVEL_TEXT = ('exhaustive over a class-covering finite domain per type (every address/key/key-hash kind, extreme digests, '
              'entrypoints, same bytes under different signature prefixes): decides the ordering logic, not every value')

H0, H1, HF = T.H0, T.H1, T.HF
SIGA, SIGB = bytes(64), bytes(63) + b'\x01'
BASE = {
    ('int',): [0, 1, -1, 10, -10, 2**70],
    ('nat',): [0, 1, 2, 10, 2**70],
    ('mutez',): [0, 1, 2, 2**62],
    ('timestamp',): [0, 1, -1, -100, 2**40],
    ('string',): ['', 'a', 'B', 'ab', 'b', 'aa'],
    ('bytes',): [b'', b'\x00', b'\xff', b'\x00\x01', b'\x01', b'\x7f\xff'],
    ('bool',): [False, True],
    ('unit',): [()],
    ('never',): [],
    ('chain_id',): [bytes(4), b'\xff' * 4, b'\x00\x00\x00\x01', b'\x7a\x06\xa7\x70'],
    ('key_hash',): [(k, h) for k in T.KH_KINDS for h in (H0, HF)] + [('tz1', H1)],
    ('address',): [(k, h, ep) for k in T.ADDR_KINDS for h in (H0, HF) for ep in ('', 'a')] + [('tz1', H0, 'b'), ('KT1', H0, 'b'), ('sr1', H1, '')],
    ('key',): [('edpk', bytes(32)), ('edpk', b'\xff' * 32), ('sppk', b'\x02' + bytes(32)), ('sppk', b'\x03' + bytes(32)),
               ('p2pk', b'\x02' + bytes(32)), ('p2pk', b'\x02' + b'\xff' * 32), ('p2pk', b'\x03' + bytes(32)),
               ('BLpk', bytes(48)), ('BLpk', b'\xff' * 48)],
    # signatures: (prefix, raw) -- same raw bytes under different prefixes must compare equal
    ('signature',): [('sig', SIGA), ('edsig', SIGA), ('spsig1', SIGB), ('p2sig', SIGB), ('sig', b'\xff' * 64), ('edsig', b'\x80' + bytes(63)),
                     ('BLsig', bytes(96)), ('BLsig', b'\x01' + bytes(95))],
}
SMALL = {  # 2-3 values per base type for composite types
    ('int',): [0, 1, -1], ('nat',): [0, 1, 2], ('string',): ['', 'a', 'B'], ('bytes',): [b'', b'\x00', b'\xff'],
    ('bool',): [False, True], ('unit',): [()], ('mutez',): [0, 1], ('timestamp',): [0, -1], ('chain_id',): [bytes(4), b'\xff' * 4],
    ('key_hash',): [('tz1', HF), ('tz2', H0), ('tz4', H0)],
    ('address',): [('tz1', HF, ''), ('KT1', H0, ''), ('sr1', H0, ''), ('KT1', H0, 'a')],
    ('key',): [('edpk', b'\xff' * 32), ('sppk', b'\x02' + bytes(32)), ('BLpk', bytes(48))],
    ('signature',): [('sig', SIGA), ('edsig', SIGA), ('p2sig', SIGB)],
    ('never',): [],
}
CORE6 = [('int',), ('string',), ('bool',), ('address',), ('unit',), ('key_hash',)]


def dom(t, small=False):
    p = t[0]
    if len(t) == 1:
        return list((SMALL if small else BASE)[t])
    if p == 'pair':
        return [(a, b) for a in dom(t[1], True) for b in dom(t[2], True)]
    if p == 'option':
        return [None] + [('Some', x) for x in dom(t[1], True)]
    if p == 'or':
        return [('L', x) for x in dom(t[1], True)] + [('R', x) for x in dom(t[2], True)]
    raise ValueError(t)


def split(t, v):
    """C03 domain value -> (readable micheline for the implementation, reference value)."""
    p = t[0]
    if p == 'signature':
        prefix, raw = v
        return {'string': b58.enc(prefix, raw)}, raw
    if p == 'pair':
        a, ra = split(t[1], v[0])
        b, rb = split(t[2], v[1])
        return {'prim': 'Pair', 'args': [a, b]}, (ra, rb)
    if p == 'option':
        if v is None:
            return {'prim': 'None'}, None
        a, ra = split(t[1], v[1])
        return {'prim': 'Some', 'args': [a]}, ('Some', ra)
    if p == 'or':
        a, ra = split(t[1] if v[0] == 'L' else t[2], v[1])
        return {'prim': 'Left' if v[0] == 'L' else 'Right', 'args': [a]}, (v[0], ra)
    return T.v_to_micheline(t, v), v


def types_for(tier):
    base = list(BASE)
    out = list(base)
    d1 = []
    for b in base:
        d1.append(('option', b))
    pair_bases = CORE6 if tier == 'quick' else [('int',), ('nat',), ('string',), ('bytes',), ('bool',), ('address',), ('unit',), ('key_hash',), ('key',), ('signature',), ('timestamp',)]
    for a in pair_bases:
        for b in pair_bases:
            d1.append(('pair', a, b))
            d1.append(('or', a, b))
    d1.append(('or', ('never',), ('int',)))
    out += d1
    if tier == 'thorough':
        core = [('int',), ('string',), ('address',), ('bool',)]
        inner = [('option', c) for c in core] + [('pair', a, b) for a in core[:3] for b in core[:3]] + [('or', a, b) for a in core[:2] for b in core[:2]]
        for i in inner:
            out.append(('option', i))
            for c in core[:3]:
                out += [('pair', i, c), ('pair', c, i), ('or', i, c), ('or', c, i)]
        for i in inner[:8]:
            for j in inner[:8]:
                out.append(('pair', i, j))
    seen, res = set(), []
    for t in out:
        if t not in seen:
            seen.add(t)
            res.append(t)
    return res


def shards(tier, seed):
    return types_for(tier) + ['xtype']


_COMPARE = None


def impl_compare(cls, ea, eb):
    """Run the real COMPARE instruction; returns int or ('raise', ExcName)."""
    global _COMPARE
    from pytezos.context.impl import ExecutionContext
    from pytezos.michelson.instructions.compare import CompareInstruction
    from pytezos.michelson.stack import MichelsonStack
    if _COMPARE is None:
        _COMPARE = ExecutionContext()
    try:
        a = cls.from_micheline_value(ea)
        b = cls.from_micheline_value(eb)
    except Exception as e:
        return ('raise-literal', type(e.__cause__ or e).__name__)
    st = MichelsonStack([a, b])
    try:
        CompareInstruction.execute(st, [], _COMPARE)
        r = st.items[0]
        if len(st.items) != 1 or r.prim != 'int':
            return ('bad-result', repr(st.items))
        return r.value
    except Exception as e:
        return ('raise', type(e.__cause__ or e).__name__)


def pinned(t, ra, rb) -> bool:
    """False where the statement does not pin the sign (judged by the laws only)."""
    p = t[0]
    if p == 'signature':
        return len(ra) == len(rb)
    if p == 'key':
        return not (ra[0] == rb[0] == 'p2pk' and ra[1][:1] != rb[1][:1])
    if p == 'pair':
        if not pinned(t[1], ra[0], rb[0]):
            return False
        return T.compare(t[1], ra[0], rb[0]) != 0 or pinned(t[2], ra[1], rb[1])
    if p == 'option':
        return ra is None or rb is None or pinned(t[1], ra[1], rb[1])
    if p == 'or':
        return ra[0] != rb[0] or pinned(t[1] if ra[0] == 'L' else t[2], ra[1], rb[1])
    return True


def why(t, ra, rb) -> str:
    """Which rule of the order the pair exercises (for descriptors)."""
    p = t[0]
    if p == 'pair':
        if T.compare(t[1], ra[0], rb[0]) != 0:
            inner = why(t[1], ra[0], rb[0])
            return 'pair decided by first component' + (f' [{inner}]' if len(t[1]) > 1 or t[1][0] in ('address', 'key', 'signature', 'key_hash') else '')
        return 'pair decided by second component'
    if p == 'option':
        if ra is None or rb is None:
            return 'None vs Some'
        return 'Some/Some: ' + why(t[1], ra[1], rb[1])
    if p == 'or':
        if ra[0] != rb[0]:
            return 'Left vs Right'
        return f'same branch: ' + why(t[1] if ra[0] == 'L' else t[2], ra[1], rb[1])
    if p == 'address':
        ka = 'implicit' if ra[0] in T.KH_KINDS else ('originated' if ra[0] == 'KT1' else 'rollup')
        kb = 'implicit' if rb[0] in T.KH_KINDS else ('originated' if rb[0] == 'KT1' else 'rollup')
        if ka != kb:
            return f'address {ka} vs {kb}' + (' (with entrypoint)' if ra[2] or rb[2] else '')
        if ra[:2] == rb[:2]:
            return 'address same hash, entrypoints differ'
        if ra[0] != rb[0]:
            return f'address {ka}: curves differ' + (' (with entrypoint)' if ra[2] or rb[2] else '')
        return f'address {ka}: hash bytes' + (' (with entrypoint)' if ra[2] or rb[2] else '')
    if p == 'key':
        if ra[0] != rb[0]:
            return f'key curves {"/".join(sorted({ra[0], rb[0]}))}'
        return f'key {ra[0]} bytes'
    if p == 'key_hash':
        return 'key_hash curves differ' if ra[0] != rb[0] else 'key_hash bytes'
    if p == 'signature':
        return 'signature bytes'
    return p


def check_type(t, r: Result, want_case=None):
    """Explore one type completely.  If want_case=(i, j) only that pair is judged (replay)."""
    cls = A.mk_type(t)
    D = dom(t)
    sp = [split(t, v) for v in D]
    n = len(D)
    M = {}
    ts = T.t_str(t)
    for i in range(n):
        for j in range(n):
            if want_case and (i, j) != want_case:
                continue
            ea, ra = sp[i]
            eb, rb = sp[j]
            got = impl_compare(cls, ea, eb)
            M[i, j] = got
            r.ev()
            exp = T.compare(t, ra, rb)
            if ra != rb:
                r.nt((ts, i, j))
            case = {'type': ts, 'i': i, 'j': j, 'a': ea, 'b': eb}
            if isinstance(got, tuple):
                r.out(f'{got[0]}')
                r.viol(f'COMPARE {got[0]} {got[1]}: {why(t, ra, rb)}', case, f'COMPARE on {ts} {ea} {eb} -> {got}')
                continue
            if got not in (-1, 0, 1):
                r.viol('COMPARE result outside {-1,0,1}', case, f'{got}')
                continue
            if not pinned(t, ra, rb):
                r.no_verdict += 1
                r.out('unpinned')
                if (got == 0) != (ra == rb):
                    r.viol(f'COMPARE returns 0 for different values: {why(t, ra, rb)}', case, f'{ts} {ea} {eb} -> 0')
                continue
            r.out(f'sign {exp:+d}' if got == exp else 'mismatch')
            if got != exp:
                r.viol(f'COMPARE wrong: {why(t, ra, rb)}', case, f'COMPARE on {ts}: {ea} vs {eb} -> {got}, Tezos order gives {exp}')
    if want_case:
        return
    # oracle-free laws on the implementation's own answers
    ok = lambda x: isinstance(x, int)
    for i in range(n):
        for j in range(n):
            a, b = M[i, j], M[j, i]
            if ok(a) and ok(b) and a != -b:
                r.viol(f'law antisymmetry: {why(t, sp[i][1], sp[j][1])}', {'type': ts, 'i': i, 'j': j, 'a': sp[i][0], 'b': sp[j][0]},
                       f'{ts}: cmp(a,b)={a} cmp(b,a)={b}')
    for i, j, k in itertools.product(range(n), repeat=3):
        a, b, c = M[i, j], M[j, k], M[i, k]
        if ok(a) and ok(b) and ok(c):
            r.ev()
            if a <= 0 and b <= 0 and c > 0:
                r.viol('law transitivity', {'type': ts, 'i': i, 'j': k, 'a': sp[i][0], 'b': sp[k][0], 'via': sp[j][0]},
                       f'{ts}: {sp[i][0]} <= {sp[j][0]} <= {sp[k][0]} but cmp(first,last)={c}')
    # ordered collections: every insertion permutation of <=3 distinct values through the real UPDATE
    if t[0] != 'never' and n >= 2:
        idx = list(range(min(n, 5)))
        for size in (2, 3):
            for perm in itertools.permutations(idx, size):
                check_collection(t, cls, sp, perm, r, ts)


def check_collection(t, cls, sp, perm, r, ts):
    from pytezos.context.impl import ExecutionContext
    from pytezos.michelson.instructions.struct import UpdateInstruction
    from pytezos.michelson.stack import MichelsonStack
    from pytezos.michelson.types import BoolType, MapType, OptionType, SetType, UnitType
    ctx = _COMPARE or ExecutionContext()
    for kind in ('set', 'map'):
        try:
            coll = SetType.empty(cls) if kind == 'set' else MapType.empty(cls, UnitType)
            for i in perm:
                k = cls.from_micheline_value(sp[i][0])
                val = BoolType(True) if kind == 'set' else OptionType.from_some(UnitType())
                st = MichelsonStack([k, val, coll])
                UpdateInstruction.execute(st, [], ctx)
                coll = st.items[0]
            keys = [A.from_impl(x if kind == 'set' else x[0], t) for x in coll.items]
        except Exception as e:
            r.ev()
            r.out(f'{kind} build raises')
            r.viol(f'{kind} UPDATE raises {type(e.__cause__ or e).__name__}', {'type': ts, 'perm': list(perm), 'kind': kind},
                   f'{kind} of {ts} inserting {[sp[i][0] for i in perm]}: {e!r}')
            continue
        refs = [sp[i][1] for i in perm]
        if not all(pinned(t, a, b) for a in refs for b in refs):
            r.no_verdict += 1
            continue
        # reference values for signatures are raw bytes; impl read-back gives raw bytes too
        exp = list(T.sorted_set(t, refs))
        r.ev()
        r.nt((ts, kind, perm))
        if keys != exp:
            r.out(f'{kind} order wrong')
            r.viol(f'{kind} keys not in Tezos order / not deduplicated after UPDATEs', {'type': ts, 'perm': list(perm), 'kind': kind},
                   f'{kind} of {ts} after inserting {[sp[i][0] for i in perm]}: got order {keys}, expected {exp}')
        else:
            r.out(f'{kind} order ok')


def check_literals(t, r, ts, only=None):
    """PUSH (set t) { a ; b }, PUSH (map t unit) { Elt a Unit ; Elt b Unit } and the big_map literal { Elt a Unit ; Elt b Unit } (as read
    from a storage expression) for every ordered pair of the domain: accepted iff
    a < b in the Tezos order - so values that COMPARE equal under different spellings (signatures) are duplicates."""
    from mc import impl as M
    D = dom(t)
    sp = [split(t, v) for v in D]
    ctx = M.make_context()
    tm = T.t_to_micheline(t)
    bm = A.mk_type(('big_map', t, ('unit',)))
    idx = range(min(len(D), 9))
    for i in idx:
        for j in idx:
            if only and (i, j) != only:
                continue
            (ea, ra), (eb, rb) = sp[i], sp[j]
            if not pinned(t, ra, rb):
                continue
            should = T.compare(t, ra, rb) < 0
            for kind in ('set', 'map', 'big_map'):
                if kind == 'big_map':    # not pushable: the literal a storage carries, read the way storage is read
                    try:
                        bm.from_micheline_value([M.P('Elt', ea, M.P('Unit')), M.P('Elt', eb, M.P('Unit'))])
                        out = ('ok',)
                    except Exception as e:  # noqa
                        out = ('raise', type(e).__name__)
                elif kind == 'set':
                    out, _ = M.run_impl(M.P('PUSH', M.P('set', tm), [ea, eb]), [], ctx)
                else:
                    out, _ = M.run_impl(M.P('PUSH', M.P('map', tm, M.P('unit')), [M.P('Elt', ea, M.P('Unit')), M.P('Elt', eb, M.P('Unit'))]), [], ctx)
                acc = out[0] == 'ok'
                r.ev()
                r.nt((ts, kind, 'lit', i, j))
                r.out(f'{kind} literal {"sorted" if should else "unsorted/duplicate"} -> {"accepted" if acc else "rejected"}')
                if acc != should:
                    what = 'equal under COMPARE (duplicate)' if T.compare(t, ra, rb) == 0 else ('out of order' if not should else 'in order')
                    r.viol(f'{kind} literal with two keys {what} is {"accepted" if acc else "rejected"}: {why(t, ra, rb)}',
                           {'type': ts, 'i': i, 'j': j, 'kind': kind, 'literal': True, 'a': ea, 'b': eb}, f'PUSH ({kind} {ts}) {{ {ea} ; {eb} }} -> {out}')


def check_copies(t, r, ts):
    """A value and its DUP-licate are the same value: COMPARE must give 0 in both operand orders, and a set built from both has one element."""
    from mc import impl as M
    from pytezos.michelson.stack import MichelsonStack
    cls = A.mk_type(t)
    ctx = M.make_context()
    for i, v in enumerate(dom(t)):
        e, ref = split(t, v)
        for prog in ([M.P('DUP'), M.P('COMPARE')], [M.P('DUP'), M.P('SWAP'), M.P('COMPARE')],
                     [M.P('DUP'), M.P('DIP', [M.P('DUP')]), M.P('SWAP'), M.P('DROP'), M.P('COMPARE')]):
            st = MichelsonStack([cls.from_micheline_value(e)])
            out = M.run_on_stack(prog, st, ctx)
            r.ev()
            got = st.items[0].value if out[0] == 'ok' and len(st.items) == 1 and st.items[0].prim == 'int' else out
            r.out('copy compares equal' if got == 0 else 'copy compares DIFFERENT')
            if got != 0:
                r.viol(f'a value does not compare equal to its own copy (DUP): {t[0]}', {'type': ts, 'i': i, 'j': i, 'a': e, 'b': e, 'copy': True},
                       f'{ts} {e}: {"; ".join(x["prim"] for x in prog)} -> {got}')


STRING_FAMILY = [('address',), ('key',), ('key_hash',), ('signature',), ('chain_id',)]


def check_cross_type(r):
    """The same TEXTS compared as `string` and as their own type, interleaved in one process: each COMPARE depends on its own
    operands and types only (strings follow plain string order, the domain types their own order)."""
    S = ('string',)
    scls = A.mk_type(S)
    for t in STRING_FAMILY:
        cls = A.mk_type(t)
        D = dom(t)
        sp = [split(t, v) for v in D]
        ts = T.t_str(t)
        for order in ('string-first', 'own-first'):
            for i in range(len(D)):
                for j in range(len(D)):
                    (ea, ra), (eb, rb) = sp[i], sp[j]
                    if not pinned(t, ra, rb):
                        continue
                    exp_own = T.compare(t, ra, rb)
                    exp_str = T.compare(S, ea['string'], eb['string'])
                    seq = [('string', scls, exp_str), (ts, cls, exp_own)]
                    if order == 'own-first':
                        seq.reverse()
                    seq.append(seq[0])
                    for name, c, exp in seq:
                        got = impl_compare(c, ea, eb)
                        r.ev()
                        r.nt(('xtype', ts, order, i, j, name))
                        r.out('cross-type ok' if got == exp else 'cross-type WRONG')
                        if got != exp:
                            r.viol(f'COMPARE on {name} gives a different answer after the same texts were compared as another type',
                                   {'type': ts, 'i': i, 'j': j, 'a': ea, 'b': eb, 'xtype': order},
                                   f'{order}: COMPARE as {name} of {ea["string"]} / {eb["string"]} -> {got}, expected {exp}')


def run_shard(t, tier):
    r = Result()
    if t == 'xtype':
        check_cross_type(r)
        return r
    check_type(t, r)
    if t[0] != 'never':
        check_literals(t, r, T.t_str(t))
        check_copies(t, r, T.t_str(t))
    D = dom(t)
    if len(D) >= 2:
        sp0, sp1 = split(t, D[0]), split(t, D[-1])
        r.sample({'type': T.t_str(t), 'i': 0, 'j': len(D) - 1, 'a': sp0[0], 'b': sp1[0]})
    return r


def _find_type(ts):
    for tier in ('quick', 'thorough'):
        for t in types_for(tier):
            if T.t_str(t) == ts:
                return t
    raise KeyError(ts)


def replay(case):
    t = _find_type(case['type'])
    r = Result()
    if case.get('xtype'):
        check_cross_type(r)
        return [(d, v['cases'][0]['detail']) for d, v in r.violations.items()]
    if case.get('copy'):
        check_copies(t, r, case['type'])
        return [(d, v['cases'][0]['detail']) for d, v in r.violations.items()]
    if case.get('literal'):
        check_literals(t, r, case['type'], only=(case['i'], case['j']))
    elif 'perm' in case:
        cls = A.mk_type(t)
        sp = [split(t, v) for v in dom(t)]
        check_collection(t, cls, sp, tuple(case['perm']), r, case['type'])
    else:
        check_type(t, r, want_case=(case['i'], case['j']))
        if not r.violations:  # law violations need the whole matrix
            r2 = Result()
            check_type(t, r2)
            r.violations = {d: v for d, v in r2.violations.items() if d.startswith('law')}
    return [(d, v['cases'][0]['detail']) for d, v in r.violations.items()]


def observe(case):
    t = _find_type(case['type'])
    return impl_compare(A.mk_type(t), case['a'], case['b'])
